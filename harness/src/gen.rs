//! Generators of values and messages from the public value model (domain of C01/C03/C20),
//! and of raw wire material (domain of C02/C04).
use std::collections::BTreeMap;

use ipp::prelude::*;

use crate::rng::Rng;
use crate::text::Msg;

pub struct Limits {
    pub max_depth: u32,
    pub boundary: bool, // allow rare 255/256/65535-byte strings
}

const WORDS: &[&str] = &[
    "a", "media", "copies", "sides", "job-name", "printer-uri", "x", "é", "日本", "😀", "media-col", "media-size",
    "x-dimension", "y-dimension", "attributes-charset", "attributes-natural-language", "job-id", "job-uri", "", "none",
    "printer-state", "printer-state-reasons", "paused", "utf-8", "en", "ß", "Ω-ω", "two-sided-long-edge",
    // near misses of the names the encoder treats specially
    "Job-Id", "JOB-ID", "PRINTER-URI", "Printer-Uri", "Attributes-Charset", "ATTRIBUTES-NATURAL-LANGUAGE", "Job-Uri",
    "job-id ", "job-ids", "xjob-id", "printer-uri/", "attributes-charse", "job_id",
    // names that extend (or are extended by) the specially ordered ones
    "printer-uri-supported", "job-uri-x", "attributes-charset-supported", "attributes-natural-language-x", "job-id-attribute", "job", "printer",
    // names of the library's own struct fields and variants (a serialised form must not confuse them with attributes)
    "tag", "attributes", "name", "value", "header", "groups", "payload", "version", "operation_or_status", "request_id", "Integer", "Array",
    // keywords with a meaning of their own
    "all", "none", "job-template", "printer-description", "media-col-database",
];

pub fn gen_len(r: &mut Rng, lim: &Limits) -> usize {
    if lim.boundary && r.chance(1, 400) {
        return *r.pick(&[255usize, 256, 257, 4096, 65535, 65534]);
    }
    match r.below(10) {
        0 => 0,
        1..=6 => r.range(1, 8) as usize,
        7..=8 => r.range(9, 40) as usize,
        _ => r.range(41, 200) as usize,
    }
}

/// UTF-8 text; a mix of dictionary words and random scalar values of 1–4 bytes
pub fn gen_string(r: &mut Rng, lim: &Limits) -> String {
    if r.chance(1, 3) {
        return (*r.pick(WORDS)).to_string();
    }
    let n = gen_len(r, lim);
    let mut s = String::new();
    while s.len() < n {
        let c = match r.below(8) {
            0..=4 => r.range(0x20, 0x7e) as u32,
            5 => r.range(0x80, 0x7ff) as u32,
            6 => {
                let c = r.range(0x800, 0xffff) as u32;
                if (0xd800..=0xdfff).contains(&c) {
                    0xfffd
                } else {
                    c
                }
            }
            _ => r.range(0x10000, 0x10ffff) as u32,
        };
        let ch = char::from_u32(c).unwrap_or('?');
        if s.len() + ch.len_utf8() > n {
            if s.len() < n {
                s.push('z');
            }
            continue;
        }
        s.push(ch);
    }
    s
}

pub fn gen_name(r: &mut Rng, lim: &Limits) -> String {
    loop {
        let s = gen_string(r, lim);
        if !s.is_empty() {
            return s;
        }
    }
}

pub fn gen_i32(r: &mut Rng) -> i32 {
    match r.below(6) {
        0 => *r.pick(&[0, 1, -1, i32::MAX, i32::MIN, 3, 4, 5, 631]),
        1 => r.range(0, 100) as i32,
        _ => r.next() as i32,
    }
}

/// tags whose values the library holds as `Other` and that survive a round trip
pub fn other_tags() -> Vec<u8> {
    (0x10u8..=0x4a)
        .filter(|t| match ValueTag::from_u8(*t) {
            None => true,
            Some(ValueTag::Unsupported) | Some(ValueTag::Unknown) => true,
            Some(_) => false,
        })
        .collect()
}

pub fn gen_scalar(r: &mut Rng, lim: &Limits, allow_member: bool) -> IppValue {
    loop {
        let v = match r.below(21) {
            0 => IppValue::Integer(gen_i32(r)),
            1 => IppValue::Enum(gen_i32(r)),
            2 => IppValue::Boolean(r.chance(1, 2)),
            3 => IppValue::OctetString(gen_string(r, lim)),
            4 => IppValue::TextWithoutLanguage(gen_string(r, lim)),
            5 => IppValue::NameWithoutLanguage(gen_string(r, lim)),
            6 => IppValue::Charset(gen_string(r, lim)),
            7 => IppValue::NaturalLanguage(gen_string(r, lim)),
            8 => IppValue::Uri(gen_string(r, lim)),
            9 => IppValue::UriScheme(gen_string(r, lim)),
            10 => IppValue::Keyword(gen_string(r, lim)),
            11 => IppValue::MimeMediaType(gen_string(r, lim)),
            12 => {
                if !allow_member {
                    continue;
                }
                IppValue::MemberAttrName(gen_string(r, lim))
            }
            13 => {
                let (language, text) = gen_lang_pair(r, lim);
                IppValue::TextWithLanguage { language, text }
            }
            14 => {
                let (language, name) = gen_lang_pair(r, lim);
                IppValue::NameWithLanguage { language, name }
            }
            15 => IppValue::RangeOfInteger { min: gen_i32(r), max: gen_i32(r) },
            16 => IppValue::DateTime {
                year: r.next() as u16,
                month: r.next() as u8,
                day: r.next() as u8,
                hour: r.next() as u8,
                minutes: r.next() as u8,
                seconds: r.next() as u8,
                deci_seconds: r.next() as u8,
                utc_dir: if r.chance(2, 3) { *r.pick(&['+', '-']) } else { char::from_u32(r.below(256) as u32).unwrap() },
                utc_hours: r.next() as u8,
                utc_mins: r.next() as u8,
            },
            17 => IppValue::Resolution { cross_feed: gen_i32(r), feed: gen_i32(r), units: r.next() as i8 },
            18 => IppValue::NoValue,
            _ => {
                let tags = other_tags();
                let tag = *r.pick(&tags);
                let n = gen_len(r, lim);
                let data = r.bytes(n);
                IppValue::Other { tag, data: data.into() }
            }
        };
        return v;
    }
}

fn gen_lang_pair(r: &mut Rng, lim: &Limits) -> (String, String) {
    loop {
        let a = gen_string(r, lim);
        let b = gen_string(r, lim);
        if a.len() + b.len() + 4 <= 65535 {
            return (a, b);
        }
    }
}

/// a value: scalar, set (>= 2 non-set elements, homogeneous or mixed), or collection
pub fn gen_value(r: &mut Rng, lim: &Limits, depth: u32, in_coll: bool) -> IppValue {
    let k = r.below(10);
    if k < 6 || depth >= lim.max_depth {
        if k == 9 || k == 8 {
            // at the depth limit still produce sets of scalars sometimes
            return gen_set(r, lim, depth, in_coll, true);
        }
        return gen_scalar(r, lim, !in_coll);
    }
    match k {
        6 | 7 => gen_set(r, lim, depth, in_coll, false),
        _ => gen_coll(r, lim, depth),
    }
}

fn gen_set(r: &mut Rng, lim: &Limits, depth: u32, in_coll: bool, scalars_only: bool) -> IppValue {
    let n = r.range(2, 5) as usize;
    let homogeneous = r.chance(1, 2);
    let mut vs: Vec<IppValue> = vec![];
    let first = if !scalars_only && depth < lim.max_depth && r.chance(1, 4) {
        gen_coll(r, lim, depth)
    } else {
        gen_scalar(r, lim, !in_coll)
    };
    vs.push(first);
    while vs.len() < n {
        let v = if !scalars_only && depth < lim.max_depth && r.chance(1, 4) {
            gen_coll(r, lim, depth)
        } else {
            gen_scalar(r, lim, !in_coll)
        };
        if homogeneous && std::mem::discriminant(&v) != std::mem::discriminant(&vs[0]) {
            continue;
        }
        vs.push(v);
    }
    IppValue::Array(vs)
}

pub fn gen_coll(r: &mut Rng, lim: &Limits, depth: u32) -> IppValue {
    let n = r.below(5) as usize;
    let mut m = BTreeMap::new();
    for _ in 0..n {
        let k = gen_string(r, lim);
        m.insert(k, gen_value(r, lim, depth + 1, true));
    }
    IppValue::Collection(m)
}

pub fn gen_attrs(r: &mut Rng, lim: &Limits, max: u64) -> Vec<(String, IppValue)> {
    let n = r.below(max + 1);
    let mut seen = std::collections::BTreeSet::new();
    let mut out = vec![];
    for _ in 0..n {
        let name = gen_name(r, lim);
        if !seen.insert(name.clone()) {
            continue;
        }
        out.push((name, gen_value(r, lim, 0, false)));
    }
    out
}

/// a message of C01's domain: first group is the operation group; repeated and empty groups allowed
pub fn gen_msg(r: &mut Rng, lim: &Limits) -> Msg {
    let ngroups = r.range(1, 5);
    let mut groups = vec![];
    for i in 0..ngroups {
        let tag = if i == 0 { 1u8 } else { *r.pick(&[1u8, 2, 4, 5, 2, 4]) };
        let attrs = if r.chance(1, 6) { vec![] } else { gen_attrs(r, lim, 6) };
        groups.push((tag, attrs));
    }
    Msg {
        // usual values, the boundaries of each header field (0, 1, sign bit, all ones), or anything
        version: match r.below(8) { 0..=3 => 0x0101, 4 => *r.pick(&[0u16, 1, 0x0100, 0x0200, 0x7fff, 0x8000, 0xffff]), _ => r.next() as u16 },
        op: match r.below(8) { 0..=3 => r.range(0, 0x12) as u16, 4 => *r.pick(&[0u16, 1, 0x3fff, 0x4000, 0x7fff, 0x8000, 0xffff]), _ => r.next() as u16 },
        id: match r.below(8) { 0..=3 => 1, 4 => *r.pick(&[0u32, 2, 0x7fff_ffff, 0x8000_0000, 0xffff_ffff]), _ => r.next() as u32 },
        groups,
    }
}

/// deterministic boundary suite: every string-carrying kind at the lengths where 8-, 15- and 16-bit length
/// arithmetic changes behaviour, as attribute value, set element, collection member, and as names
pub fn boundary_msgs() -> Vec<Msg> {
    let lens = [0usize, 1, 127, 128, 255, 256, 257, 32767, 32768, 32769, 65534, 65535];
    let mut out = vec![];
    let mk = |attrs: Vec<(String, IppValue)>| Msg { version: 0x0101, op: 2, id: 1, groups: vec![(1, attrs)] };
    let text = |n: usize| "x".repeat(n);
    for &n in &lens {
        let ctors: Vec<fn(String) -> IppValue> = vec![
            IppValue::OctetString, IppValue::TextWithoutLanguage, IppValue::NameWithoutLanguage, IppValue::Charset,
            IppValue::NaturalLanguage, IppValue::Uri, IppValue::UriScheme, IppValue::Keyword, IppValue::MimeMediaType, IppValue::MemberAttrName,
        ];
        for c in ctors {
            out.push(mk(vec![("a".into(), c(text(n)))]));
        }
        out.push(mk(vec![("o".into(), IppValue::Other { tag: 0x2f, data: vec![0xee; n].into() })]));
        if n >= 1 {
            out.push(mk(vec![(text(n), IppValue::Integer(1))])); // attribute name of that length
            let mut m = BTreeMap::new();
            m.insert(text(n), IppValue::Keyword(text(n.min(300))));
            out.push(mk(vec![("c".into(), IppValue::Collection(m))])); // member name of that length
        }
        // with-language: the total is limited to 65535 = len + len + 4
        if n + 4 <= 65535 {
            out.push(mk(vec![("l".into(), IppValue::TextWithLanguage { language: "en".repeat(0), text: text(n.min(65531)) })]));
            out.push(mk(vec![("l".into(), IppValue::NameWithLanguage { language: text(n.min(65531)), name: String::new() })]));
        }
        if 2 * n + 4 <= 65535 {
            out.push(mk(vec![("l".into(), IppValue::TextWithLanguage { language: text(n), text: text(n) })]));
            let mut m = BTreeMap::new();
            m.insert("m".to_string(), IppValue::Array(vec![IppValue::NameWithLanguage { language: text(n), name: text(n) }, IppValue::Keyword(text(n))]));
            out.push(mk(vec![("c".into(), IppValue::Collection(m))]));
        }
        out.push(mk(vec![("s".into(), IppValue::Array(vec![IppValue::Keyword(text(n)), IppValue::TextWithoutLanguage(text(n))]))]));
    }
    // names that differ from the specially treated operation attributes only by case or by one character
    for name in ["Job-Id", "JOB-URI", "Printer-Uri", "ATTRIBUTES-CHARSET", "Attributes-Natural-Language", "job-id ", "job-ids", "xprinter-uri"] {
        out.push(mk(vec![
            ("attributes-charset".into(), IppValue::Charset("utf-8".into())),
            ("attributes-natural-language".into(), IppValue::NaturalLanguage("en".into())),
            (name.into(), IppValue::Integer(7)),
        ]));
        out.push(Msg { version: 0x0101, op: 2, id: 1, groups: vec![(1, vec![]), (2, vec![(name.into(), IppValue::Integer(7))]), (1, vec![(name.into(), IppValue::Boolean(true))])] });
    }
    // the specially treated names themselves in groups other than the first operation group
    for name in ["attributes-charset", "attributes-natural-language", "printer-uri", "job-uri", "job-id"] {
        for tag in [1u8, 2, 4, 5] {
            out.push(Msg { version: 0x0101, op: 0, id: 1, groups: vec![(1, vec![("x".into(), IppValue::Integer(1))]), (tag, vec![(name.into(), IppValue::Keyword("v".into())), ("y".into(), IppValue::NoValue)])] });
        }
    }
    out
}

pub fn gen_payload(r: &mut Rng) -> Vec<u8> {
    match r.below(6) {
        0 => vec![],
        1 => vec![r.next() as u8],
        2 => vec![3],
        3 => vec![1, 0x47, 0, 1, 0x61, 0, 1, 0x62, 3],
        _ => {
            let n = r.range(0, 64) as usize;
            r.bytes(n)
        }
    }
}

/// what a message reads back as after `to_bytes`: attributes by name, and - RFC 8011 wants the operation
/// attributes first, so the encoder writes the first operation group before every other group (an empty one
/// when the message has none) - the first operation group moved to the front; nothing else may change
pub fn wire_normal_form(m: &Msg) -> Msg {
    let mut c = canonical(m);
    match c.groups.iter().position(|g| g.0 == 1) {
        Some(i) => {
            let g = c.groups.remove(i);
            c.groups.insert(0, g);
        }
        None => c.groups.insert(0, (1, vec![])),
    }
    c
}

pub fn canonical(m: &Msg) -> Msg {
    let mut c = m.clone();
    for g in &mut c.groups {
        g.1.sort_by(|x, y| x.0.as_bytes().cmp(y.0.as_bytes()));
    }
    c
}
