//! TLS matrix and the `ipputil` binary: added per property.
use crate::exec::CaseResult;
use crate::text::SExp;

pub fn exec9(_prop: &str, _op: &str, _line: &str, _args: &[SExp]) -> Option<CaseResult> {
    None
}
