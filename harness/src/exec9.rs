//! The `ipputil` binary against the scripted loopback printer (C18); the TLS matrix is in tls.rs.
use std::io::Write;
use std::process::{Command, Stdio};

use ipp::prelude::*;

use crate::exec::*;
use crate::httpd::*;
use crate::text::*;

fn badarg(line: &str, why: &str) -> CaseResult {
    CaseResult { line: line.to_string(), result: format!("(bad-arg {})", why), oracle: None, class: "bad-arg".into() }
}

pub fn exec9(prop: &str, op: &str, line: &str, args: &[SExp]) -> Option<CaseResult> {
    Some(match op {
        "cli" => op_cli(line, args),
        _ => return crate::tls::exec_tls(prop, op, line, args),
    })
}

fn hexs(e: Option<&SExp>) -> Option<String> {
    String::from_utf8(unhex(e?.atom()?)?).ok()
}

/// `cli (args (n 0|1) (f 0|1) (j HEX)? (u HEX)? (o HEX)*) DOCHEX (answers (http)|MSG …)`
/// the property's typing rule, written from its wording: true/false as boolean, a decimal 32-bit integer as
/// integer, anything else as keyword
fn typed_by_text(v: &str) -> IppValue {
    if v == "true" {
        return IppValue::Boolean(true);
    }
    if v == "false" {
        return IppValue::Boolean(false);
    }
    let (neg, digits) = match v.as_bytes().first() {
        Some(b'-') => (true, &v[1..]),
        Some(b'+') => (false, &v[1..]),
        _ => (false, v),
    };
    if !digits.is_empty() && digits.bytes().all(|b| b.is_ascii_digit()) {
        let mut acc: i64 = 0;
        let mut fits = true;
        for b in digits.bytes() {
            acc = acc * 10 + (b - b'0') as i64;
            if acc > (1i64 << 31) {
                fits = false;
                break;
            }
        }
        if fits {
            let val = if neg { -acc } else { acc };
            if val >= i32::MIN as i64 && val <= i32::MAX as i64 {
                return IppValue::Integer(val as i32);
            }
        }
    }
    IppValue::Keyword(v.to_string())
}

fn op_cli(line: &str, args: &[SExp]) -> CaseResult {
    let bin = match std::env::var("IPPUTIL_BIN") {
        Ok(b) => b,
        Err(_) => return badarg(line, "IPPUTIL_BIN-not-set"),
    };
    let al = match args.first().and_then(|a| a.list()) {
        Some(l) if l.first().and_then(|x| x.atom()) == Some("args") => &l[1..],
        _ => return badarg(line, "args"),
    };
    let doc = match args.get(1).and_then(|a| a.atom()).and_then(unhex) {
        Some(d) => d,
        None => return badarg(line, "doc"),
    };
    let answers = match args.get(2).and_then(|a| a.list()) {
        Some(l) if l.first().and_then(|x| x.atom()) == Some("answers") => &l[1..],
        _ => return badarg(line, "answers"),
    };
    let mut replies: Vec<Reply> = vec![];
    for a in answers {
        if a.list().map(|l| l.len() == 1 && l[0].atom() == Some("http")).unwrap_or(false) {
            let mut r = Reply::ok(b"nope".to_vec());
            r.status = 500;
            replies.push(r);
        } else {
            let m = match read_msg(a) {
                Some(m) => m,
                None => return badarg(line, "answer"),
            };
            let resp = match build(&m) {
                Some(r) => r,
                None => return badarg(line, "answer-group"),
            };
            let mut r = Reply::ok(resp.to_bytes().to_vec());
            r.fragments = vec![9, 4];
            replies.push(r);
        }
    }
    let mut no_check = false;
    let mut use_file = false;
    let mut cmd_args: Vec<String> = vec!["print".into()];
    for e in al {
        let l = match e.list() {
            Some(l) if l.len() == 2 => l,
            _ => return badarg(line, "arg"),
        };
        match l[0].atom().unwrap_or("") {
            "n" => no_check = l[1].atom() == Some("1"),
            "f" => use_file = l[1].atom() == Some("1"),
            "j" => {
                cmd_args.push("-j".into());
                cmd_args.push(match hexs(Some(&l[1])) { Some(s) => s, None => return badarg(line, "j") });
            }
            "u" => {
                cmd_args.push("-u".into());
                cmd_args.push(match hexs(Some(&l[1])) { Some(s) => s, None => return badarg(line, "u") });
            }
            "o" => {
                cmd_args.push("-o".into());
                cmd_args.push(match hexs(Some(&l[1])) { Some(s) => s, None => return badarg(line, "o") });
            }
            _ => return badarg(line, "arg-kind"),
        }
    }
    if no_check {
        cmd_args.push("-n".into());
    }
    let server = Server::start(replies);
    let uri_text = format!("http://127.0.0.1:{}/printers/q1", server.port);
    let uri: Uri = uri_text.parse().unwrap();
    let tmp = std::env::temp_dir().join(format!("ippverif-doc-{}-{}", std::process::id(), server.port));
    if use_file {
        if std::fs::write(&tmp, &doc).is_err() {
            server.finish();
            return badarg(line, "tmpfile");
        }
        cmd_args.push("-f".into());
        cmd_args.push(tmp.to_string_lossy().to_string());
    }
    cmd_args.push(uri_text.clone());
    let child = Command::new(&bin).args(&cmd_args).stdin(Stdio::piped()).stdout(Stdio::piped()).stderr(Stdio::piped()).spawn();
    let mut child = match child {
        Ok(c) => c,
        Err(e) => {
            server.finish();
            return badarg(line, &format!("spawn-{}", e));
        }
    };
    {
        let mut stdin = child.stdin.take().unwrap();
        if !use_file {
            let d = doc.clone();
            // write from a thread: the child may exit before reading everything
            std::thread::spawn(move || {
                let _ = stdin.write_all(&d);
            });
        }
    }
    let out = child.wait_with_output();
    let caps = server.finish();
    if use_file {
        let _ = std::fs::remove_file(&tmp);
    }
    let code = match &out {
        Ok(o) => o.status.code().unwrap_or(-1),
        Err(_) => -2,
    };
    let mut reqs: Vec<String> = vec![];
    let mut oracle = None;
    // what the command line says, read independently of the tool: -j, -u and every -o key=value (cut at the FIRST
    // '='; the value typed by its text; the last one given wins per key)
    let mut want_job: Option<String> = None;
    let mut want_user: Option<String> = None;
    let mut want_opts: Vec<(String, IppValue)> = vec![];
    {
        let mut i = 1;
        while i + 1 < cmd_args.len() {
            match cmd_args[i].as_str() {
                "-j" => want_job = Some(cmd_args[i + 1].clone()),
                "-u" => want_user = Some(cmd_args[i + 1].clone()),
                "-o" => {
                    if let Some(eq) = cmd_args[i + 1].find('=') {
                        let (k, v) = (cmd_args[i + 1][..eq].to_string(), cmd_args[i + 1][eq + 1..].to_string());
                        want_opts.retain(|(k2, _)| *k2 != k);
                        want_opts.push((k, typed_by_text(&v)));
                    }
                }
                _ => {
                    i += 1;
                    continue;
                }
            }
            i += 2;
        }
    }
    for c in &caps {
        match parse_flat(&c.body) {
            Ok((h, a, rest)) => {
                let (mut m, _) = unbuild(&h, &a, false);
                if m.id > 0 {
                    m.id = 1; // any positive request-id is as good as another
                }
                reqs.push(format!("({} payload={})", show_msg(&m), hex(&rest)));
                if h.operation_or_status == Operation::PrintJob as u16 {
                    let find = |g: u8, name: &str| m.groups.iter().filter(|x| x.0 == g).flat_map(|x| x.1.iter()).find(|x| x.0 == name).map(|x| x.1.clone());
                    if let Some(j) = &want_job {
                        if find(1, "job-name") != Some(IppValue::NameWithoutLanguage(j.clone())) {
                            oracle = Some(format!("-j {:?} is not carried as job-name (name): {:?}", j, find(1, "job-name")));
                        }
                    }
                    if let Some(u) = &want_user {
                        if find(1, "requesting-user-name") != Some(IppValue::NameWithoutLanguage(u.clone())) {
                            oracle = Some(format!("-u {:?} is not carried as requesting-user-name (name): {:?}", u, find(1, "requesting-user-name")));
                        }
                    }
                    for (k, v) in &want_opts {
                        let got = find(2, k);
                        if got.as_ref() != Some(v) {
                            oracle = Some(format!("option {}: expected job attribute {:?}, the request carries {:?}", k, v, got));
                        }
                    }
                    let n_job_attrs: usize = m.groups.iter().filter(|x| x.0 == 2).map(|x| x.1.len()).sum();
                    if oracle.is_none() && n_job_attrs != want_opts.len() {
                        oracle = Some(format!("{} job attributes in the request, {} distinct options on the command line", n_job_attrs, want_opts.len()));
                    }
                }
                // direct oracle: the document bytes arrive unchanged with the Print-Job request
                if h.operation_or_status == Operation::PrintJob as u16 && rest != doc {
                    oracle = Some(format!("the Print-Job request carries {} document bytes, the input has {}", rest.len(), doc.len()));
                }
            }
            Err(e) => reqs.push(format!("(unparsable {})", show_parse_err(&e))),
        }
        if c.method != "POST" {
            oracle = Some("not a POST".into());
        }
    }
    // direct oracle: the state query must let the printer report what the check reads - when it names the attributes it
    // wants, printer-state and printer-state-reasons (or `all`) are among them; a printer that honours the list would
    // otherwise never report its reasons
    if !no_check && oracle.is_none() {
        if let Some(c) = caps.first() {
            if let Ok((h, a, _)) = parse_flat(&c.body) {
                if h.operation_or_status == Operation::GetPrinterAttributes as u16 {
                    let (m, _) = unbuild(&h, &a, false);
                    let req = m.groups.iter().filter(|g| g.0 == 1).flat_map(|g| g.1.iter()).find(|x| x.0 == "requested-attributes").map(|x| x.1.clone());
                    if let Some(v) = req {
                        let words: Vec<String> = match &v {
                            IppValue::Array(vs) => vs.iter().filter_map(|e| if let IppValue::Keyword(k) = e { Some(k.clone()) } else { None }).collect(),
                            IppValue::Keyword(k) => vec![k.clone()],
                            _ => vec![],
                        };
                        let has = |w: &str| words.iter().any(|k| k == w || k == "all" || k == "printer-description");
                        if !has("printer-state") || !has("printer-state-reasons") {
                            oracle = Some(format!("the state query asks only for {:?}: a printer that honours requested-attributes cannot report printer-state / printer-state-reasons", words));
                        }
                    }
                } else {
                    oracle = Some(format!("with the state check on, the first request is operation 0x{:04x}, not Get-Printer-Attributes", h.operation_or_status));
                }
            }
        }
    }
    // direct oracle (the property's wording): with the state check on, a printer that answers the query with
    // printer-state stopped or one of the ten blocking reasons gets no job and the exit status is non-zero
    if !no_check && oracle.is_none() {
        if let Some(first) = answers.first().and_then(read_msg) {
            const BLOCKING: [&str; 10] = ["media-jam", "toner-empty", "spool-area-full", "cover-open", "door-open", "input-tray-missing",
                "output-tray-missing", "marker-supply-empty", "paused", "shutdown"];
            let pg = first.groups.iter().find(|g| g.0 == 4);
            let stopped = pg.map(|g| g.1.iter().any(|a| a.0 == "printer-state" && a.1 == IppValue::Enum(5))).unwrap_or(false);
            let blocked = pg
                .map(|g| {
                    g.1.iter().filter(|a| a.0 == "printer-state-reasons").any(|a| match &a.1 {
                        IppValue::Keyword(k) => BLOCKING.contains(&k.as_str()),
                        IppValue::Array(vs) => vs.iter().any(|v| matches!(v, IppValue::Keyword(k) if BLOCKING.contains(&k.as_str()))),
                        _ => false,
                    })
                })
                .unwrap_or(false);
            if first.op <= 2 && (stopped || blocked) {
                let sent_job = caps.iter().any(|c| parse_flat(&c.body).map(|(h, _, _)| h.operation_or_status == Operation::PrintJob as u16).unwrap_or(false));
                if sent_job {
                    oracle = Some(format!("the printer reported {} but a Print-Job was submitted (exit status {})", if stopped { "printer-state stopped" } else { "a blocking printer-state-reason" }, code));
                } else if code == 0 {
                    oracle = Some("the printer was stopped or blocked but the exit status is zero".into());
                }
            }
        }
    }
    // direct oracle (the whole sentence of the property, read off the scripted answers): what must have been sent and
    // whether the exit status must be zero
    if oracle.is_none() {
        let answer = |i: usize| -> Option<Option<crate::text::Msg>> {
            answers.get(i).map(|a| if a.list().map(|l| l.len() == 1 && l[0].atom() == Some("http")).unwrap_or(false) { None } else { read_msg(a) })
        };
        let successful = |m: &crate::text::Msg| m.op <= 2; // successful-ok, …-ignored-or-substituted, …-conflicting
        let (mut want_job, mut want_zero) = (true, true);
        let mut next = 0;
        if !no_check {
            match answer(0) {
                Some(Some(q)) if successful(&q) => {
                    const BLOCKING: [&str; 10] = ["media-jam", "toner-empty", "spool-area-full", "cover-open", "door-open", "input-tray-missing",
                        "output-tray-missing", "marker-supply-empty", "paused", "shutdown"];
                    let pg = q.groups.iter().find(|g| g.0 == 4);
                    let stopped = pg.map(|g| g.1.iter().any(|a| a.0 == "printer-state" && a.1 == IppValue::Enum(5))).unwrap_or(false);
                    let blocked = pg.map(|g| g.1.iter().filter(|a| a.0 == "printer-state-reasons").any(|a| match &a.1 {
                        IppValue::Keyword(k) => BLOCKING.contains(&k.as_str()),
                        IppValue::Array(vs) => vs.iter().any(|v| matches!(v, IppValue::Keyword(k) if BLOCKING.contains(&k.as_str()))),
                        _ => false,
                    })).unwrap_or(false);
                    if stopped || blocked {
                        want_job = false;
                        want_zero = false;
                    }
                }
                _ => {
                    want_job = false;
                    want_zero = false;
                }
            }
            next = 1;
        }
        if want_job {
            match answer(next) {
                Some(Some(j)) if successful(&j) => {}
                _ => want_zero = false,
            }
        }
        let n_jobs = caps.iter().filter(|c| parse_flat(&c.body).map(|(h, _, _)| h.operation_or_status == Operation::PrintJob as u16).unwrap_or(false)).count();
        if want_job && n_jobs != 1 {
            oracle = Some(format!("the printer answered the state query successfully and is neither stopped nor blocked (or the check is off): exactly one Print-Job must be submitted, {} were (exit status {})", n_jobs, code));
        } else if !want_job && n_jobs != 0 {
            oracle = Some(format!("nothing may be submitted here, but {} Print-Job request(s) were (exit status {})", n_jobs, code));
        } else if want_zero != (code == 0) {
            oracle = Some(format!("exit status {} but {}", code, if want_zero { "every IPP exchange succeeded with a successful status" } else { "not every IPP exchange succeeded with a successful status" }));
        }
    }
    let comps = crate::exec3::components(&uri);
    let base = match line.find(" (c ") {
        Some(i) => &line[..i],
        None => line,
    };
    CaseResult {
        line: format!("{} {}", base, comps),
        result: format!("exit={} reqs=({})", code, reqs.join(" ")),
        oracle,
        class: format!("exit{}-reqs{}", code, caps.len()),
    }
}
