//! TLS matrix (C12): both clients against an in-process rustls server with certificates made at run time
//! by the `openssl` CLI.  Compiled only in the `native-tls` / `rustls` feature builds of the harness.
use crate::exec::CaseResult;
use crate::text::SExp;

#[cfg(not(feature = "tlsmatrix"))]
pub fn exec_tls(_prop: &str, _op: &str, _line: &str, _args: &[SExp]) -> Option<CaseResult> {
    None
}

#[cfg(not(feature = "tlsmatrix"))]
pub fn backend() -> &'static str {
    "none"
}

#[cfg(feature = "tlsmatrix")]
pub use imp::*;

#[cfg(feature = "tlsmatrix")]
mod imp {
    use std::io::{Read, Write};
    use std::net::TcpListener;
    use std::path::{Path, PathBuf};
    use std::process::Command;
    use std::sync::atomic::{AtomicBool, AtomicUsize, Ordering};
    use std::sync::{Arc, OnceLock};
    use std::time::Duration;

    use ipp::prelude::*;
    use rustls::pki_types::{CertificateDer, PrivateKeyDer, PrivatePkcs8KeyDer};

    use crate::exec::CaseResult;
    use crate::httpd::{read_request, write_reply, Reply};
    use crate::text::SExp;

    pub fn backend() -> &'static str {
        if cfg!(feature = "native-tls") {
            "native-tls"
        } else {
            "rustls"
        }
    }

    fn run(cmd: &mut Command) -> bool {
        cmd.output().map(|o| o.status.success()).unwrap_or(false)
    }

    fn openssl() -> Command {
        Command::new("openssl")
    }

    /// certificates for the matrix, made once per process in a scratch directory
    pub fn pki() -> &'static PathBuf {
        static DIR: OnceLock<PathBuf> = OnceLock::new();
        DIR.get_or_init(|| {
            let d = std::env::temp_dir().join(format!("ippverif-pki-{}", std::process::id()));
            let _ = std::fs::remove_dir_all(&d);
            std::fs::create_dir_all(&d).unwrap();
            let p = |n: &str| d.join(n).to_string_lossy().to_string();
            let ec = ["-newkey", "ec", "-pkeyopt", "ec_paramgen_curve:prime256v1", "-nodes"];
            for ca in ["ca", "ca2", "ca3"] {
                // the root handed to the clients in DER is made to end with an ASCII white-space octet (the last octet
                // of an ECDSA signature is arbitrary): certificate data is binary and must not be "tidied"
                for attempt in 0..2000 {
                    assert!(run(openssl().args(["req", "-x509"]).args(ec).args(["-keyout", &p(&format!("{}.key", ca)), "-out", &p(&format!("{}.pem", ca)), "-days", "3650", "-subj", &format!("/CN=Verif {} Root", ca),
                        "-addext", "basicConstraints=critical,CA:TRUE", "-addext", "keyUsage=critical,keyCertSign,cRLSign"])), "openssl CA");
                    assert!(run(openssl().args(["x509", "-in", &p(&format!("{}.pem", ca)), "-outform", "DER", "-out", &p(&format!("{}.der", ca))])));
                    let der = std::fs::read(d.join(format!("{}.der", ca))).unwrap();
                    if ca != "ca" || attempt == 1999 || matches!(der.last(), Some(0x09 | 0x0a | 0x0c | 0x0d | 0x20)) {
                        break;
                    }
                }
            }
            // a second root with the SAME subject name as `ca` but another key (what a CA key roll-over looks like)
            assert!(run(openssl().args(["req", "-x509"]).args(ec).args(["-keyout", &p("cadecoy.key"), "-out", &p("cadecoy.pem"), "-days", "3650", "-subj", "/CN=Verif ca Root",
                "-addext", "basicConstraints=critical,CA:TRUE", "-addext", "keyUsage=critical,keyCertSign,cRLSign"])), "openssl decoy CA");
            assert!(run(openssl().args(["req"]).args(ec).args(["-keyout", &p("srv.key"), "-out", &p("srv.csr"), "-subj", "/CN=localhost"])), "openssl csr");
            assert!(run(openssl().args(["pkcs8", "-topk8", "-nocrypt", "-in", &p("srv.key"), "-outform", "DER", "-out", &p("srv.key.der")])));
            let ext = |name: &str, san: &str| {
                std::fs::write(d.join(name), format!("subjectAltName={}\nbasicConstraints=CA:FALSE\nkeyUsage=digitalSignature,keyEncipherment\nextendedKeyUsage=serverAuth\n", san)).unwrap();
            };
            ext("good.ext", "DNS:localhost,IP:127.0.0.1");
            ext("wrong.ext", "DNS:printer.other.example");
            let sign = |out: &str, ca: &str, extf: &str, dates: &[&str]| {
                assert!(run(openssl().args(["x509", "-req", "-in", &p("srv.csr"), "-CA", &p(&format!("{}.pem", ca)), "-CAkey", &p(&format!("{}.key", ca)), "-CAcreateserial",
                    "-out", &p(&format!("{}.pem", out)), "-extfile", &p(extf)]).args(dates)), "openssl sign {}", out);
                assert!(run(openssl().args(["x509", "-in", &p(&format!("{}.pem", out)), "-outform", "DER", "-out", &p(&format!("{}.der", out))])));
            };
            sign("valid", "ca", "good.ext", &["-days", "365"]);
            sign("wrongname", "ca", "wrong.ext", &["-days", "365"]);
            sign("expired", "ca", "good.ext", &["-not_before", "20200101000000Z", "-not_after", "20210101000000Z"]);
            sign("unknownca", "ca2", "good.ext", &["-days", "365"]);
            assert!(run(openssl().args(["req", "-x509", "-key", &p("srv.key"), "-out", &p("selfsigned.pem"), "-days", "365", "-subj", "/CN=localhost",
                "-addext", "subjectAltName=DNS:localhost,IP:127.0.0.1"])), "openssl self-signed");
            assert!(run(openssl().args(["x509", "-in", &p("selfsigned.pem"), "-outform", "DER", "-out", &p("selfsigned.der")])));
            d
        })
    }

    struct Counting<S> {
        inner: S,
        app_bytes: Arc<AtomicUsize>,
    }
    impl<S: Read> Read for Counting<S> {
        fn read(&mut self, buf: &mut [u8]) -> std::io::Result<usize> {
            let n = self.inner.read(buf)?;
            self.app_bytes.fetch_add(n, Ordering::SeqCst);
            Ok(n)
        }
    }
    impl<S: Write> Write for Counting<S> {
        fn write(&mut self, buf: &[u8]) -> std::io::Result<usize> {
            self.inner.write(buf)
        }
        fn flush(&mut self) -> std::io::Result<()> {
            self.inner.flush()
        }
    }

    /// a TLS server presenting `cert`; returns (port, application bytes received after the handshake, stop flag, join handle)
    fn tls_server(dir: &Path, cert: &str) -> (u16, Arc<AtomicUsize>, Arc<AtomicBool>, std::thread::JoinHandle<()>) {
        let cert_der = std::fs::read(dir.join(format!("{}.der", cert))).unwrap();
        let key_der = std::fs::read(dir.join("srv.key.der")).unwrap();
        let cfg = rustls::ServerConfig::builder_with_provider(Arc::new(rustls::crypto::ring::default_provider()))
            .with_safe_default_protocol_versions()
            .unwrap()
            .with_no_client_auth()
            .with_single_cert(vec![CertificateDer::from(cert_der)], PrivateKeyDer::Pkcs8(PrivatePkcs8KeyDer::from(key_der)))
            .unwrap();
        let cfg = Arc::new(cfg);
        let listener = TcpListener::bind("127.0.0.1:0").unwrap();
        let port = listener.local_addr().unwrap().port();
        listener.set_nonblocking(true).unwrap();
        let app = Arc::new(AtomicUsize::new(0));
        let stop = Arc::new(AtomicBool::new(false));
        let (app2, stop2) = (app.clone(), stop.clone());
        let h = std::thread::spawn(move || {
            let mut workers = vec![];
            while !stop2.load(Ordering::SeqCst) {
                match listener.accept() {
                    Ok((tcp, _)) => {
                        let cfg = cfg.clone();
                        let app3 = app2.clone();
                        workers.push(std::thread::spawn(move || {
                            let _ = tcp.set_nonblocking(false);
                            let _ = tcp.set_read_timeout(Some(Duration::from_secs(10)));
                            let _ = tcp.set_write_timeout(Some(Duration::from_secs(10)));
                            let conn = match rustls::ServerConnection::new(cfg) {
                                Ok(c) => c,
                                Err(_) => return,
                            };
                            let tls = rustls::StreamOwned::new(conn, tcp);
                            let mut s = Counting { inner: tls, app_bytes: app3 };
                            if let Some(_req) = read_request(&mut s) {
                                let resp = IppRequestResponse::new_response(IppVersion::v1_1(), StatusCode::SuccessfulOk, 1);
                                write_reply(&mut s, &Reply::ok(resp.to_bytes().to_vec()));
                                s.inner.conn.send_close_notify();
                                let _ = s.inner.flush();
                            }
                        }));
                    }
                    Err(_) => std::thread::sleep(Duration::from_micros(300)),
                }
            }
            for w in workers {
                let _ = w.join();
            }
        });
        (port, app, stop, h)
    }

    pub fn exec_tls(_prop: &str, op: &str, line: &str, args: &[SExp]) -> Option<CaseResult> {
        if op != "tlscase" {
            return None;
        }
        let a = |i: usize| args.get(i).and_then(|x| x.atom()).unwrap_or("").to_string();
        let (be, client, ignore, root, cert) = (a(0), a(1), a(2), a(3), a(4));
        // how the URI names the server: DNS name (default) or IP literal
        let host_kind = if args.len() > 5 { a(5) } else { "dns".to_string() };
        // the scheme the target is written with: ipps (default) or https
        let scheme = if args.len() > 6 { a(6) } else { "ipps".to_string() };
        // the `ignore_tls_errors` calls made on the builder, in order
        let calls: Vec<bool> = match ignore.as_str() {
            "unset" => vec![],
            "true" => vec![true],
            "false" => vec![false],
            w => w.chars().map(|c| c == 't').collect(),
        };
        if be != backend() {
            return Some(CaseResult { line: line.into(), result: "(other-backend)".into(), oracle: None, class: "skipped".into() });
        }
        let dir = pki().clone();
        let (port, app, stop, handle) = tls_server(&dir, &cert);
        let uri: Uri = format!("{}://{}:{}/ipp/print", if scheme == "https" { "https" } else { "ipps" }, if host_kind == "ip" { "127.0.0.1" } else { "localhost" }, port).parse().unwrap();
        // the `ca_cert` calls made on the builder, in order
        let rd = |n: &str| std::fs::read(dir.join(n)).unwrap();
        let root_data: Vec<Vec<u8>> = match root.as_str() {
            "pem" => vec![rd("ca.pem")],
            "der" => vec![rd("ca.der")],
            "unrelated" => vec![rd("ca3.pem")],
            "decoyfirst" => vec![rd("cadecoy.pem"), rd("ca.pem")],
            "decoylast" => vec![rd("ca.pem"), rd("cadecoy.pem")],
            _ => vec![],
        };
        let req = IppRequestResponse::new(IppVersion::v1_1(), Operation::GetPrinterAttributes, Some(uri.clone()));
        macro_rules! configure {
            ($b:expr) => {{
                let mut b = $b.request_timeout(Duration::from_secs(10));
                for flag in &calls {
                    b = b.ignore_tls_errors(*flag);
                }
                for d in &root_data {
                    b = b.ca_cert(d);
                }
                b.build()
            }};
        }
        let accepted = match client.as_str() {
            "blocking" => configure!(IppClient::builder(uri.clone())).send(req).is_ok(),
            "async" => {
                let c = configure!(AsyncIppClient::builder(uri.clone()));
                crate::exec8::runtime().block_on(async move { c.send(req).await.is_ok() })
            }
            _ => false,
        };
        stop.store(true, Ordering::SeqCst);
        let _ = handle.join();
        let bytes = app.load(Ordering::SeqCst);
        // the caller opted out exactly when the most recent call of the setter said true
        let opted_out = calls.last() == Some(&true);
        let should = opted_out || (cert == "valid" && matches!(root.as_str(), "pem" | "der" | "decoyfirst" | "decoylast"));
        let mut oracle = None;
        if accepted != should {
            oracle = Some(format!(
                "{} client on {}: {}:// target, server certificate `{}`, host given as {}, ignore_tls_errors calls {:?}, extra root {}: the exchange was {} but must be {}",
                client, be, scheme, cert, host_kind, calls, root, if accepted { "accepted" } else { "rejected" }, if should { "accepted" } else { "rejected" }
            ));
        } else if !accepted && bytes > 0 {
            oracle = Some(format!("{} client on {}: the exchange was rejected but {} bytes of the request reached the server application", client, be, bytes));
        }
        Some(CaseResult {
            line: line.into(),
            result: format!("{} app={}", if accepted { "accepted" } else { "rejected" }, if bytes > 0 { "+" } else { "0" }),
            oracle,
            class: format!("{}-{}-{}", be, client, if accepted { "accepted" } else { "rejected" }),
        })
    }
}
