//! TLS matrix (C12): added below.
use crate::exec::CaseResult;
use crate::text::SExp;

pub fn exec_tls(_prop: &str, _op: &str, _line: &str, _args: &[SExp]) -> Option<CaseResult> {
    None
}
