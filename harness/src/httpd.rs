//! A scripted loopback HTTP/1.1 server (std only): records what the clients put on the wire and answers
//! with a chosen status, framing, write fragmentation, cut point or stall (C11, C18; TLS wrapper for C12).
use std::io::{Read, Write};
use std::net::{TcpListener, TcpStream};
use std::sync::atomic::{AtomicBool, Ordering};
use std::sync::{Arc, Mutex};
use std::time::{Duration, Instant};

#[derive(Clone, Debug, Default)]
pub struct Captured {
    pub method: String,
    pub target: String,
    pub headers: Vec<(String, String)>, // names lower-cased, in arrival order
    pub body: Vec<u8>,
    pub complete: bool,
}

#[derive(Clone, Debug, PartialEq)]
pub enum Framing {
    ContentLength,
    Chunked,
    Close,
}

#[derive(Clone, Debug)]
pub struct Reply {
    pub status: u16,
    pub framing: Framing,
    pub body: Vec<u8>,
    /// sizes of the successive writes of the body (cycled); empty = one write
    pub fragments: Vec<usize>,
    /// close the connection abruptly after this many body bytes
    pub cut_at: Option<usize>,
    /// wait this long before answering
    pub stall: Option<Duration>,
    /// wait this long between the successive writes of the body
    pub drip: Option<Duration>,
}

impl Reply {
    pub fn ok(body: Vec<u8>) -> Reply {
        Reply { status: 200, framing: Framing::ContentLength, body, fragments: vec![], cut_at: None, stall: None, drip: None }
    }
}

pub fn reason(status: u16) -> &'static str {
    match status {
        200 => "OK",
        400 => "Bad Request",
        401 => "Unauthorized",
        403 => "Forbidden",
        404 => "Not Found",
        426 => "Upgrade Required",
        500 => "Internal Server Error",
        503 => "Service Unavailable",
        _ => "Status",
    }
}

fn find(hay: &[u8], needle: &[u8]) -> Option<usize> {
    hay.windows(needle.len()).position(|w| w == needle)
}

/// read one request from the stream (headers, then a content-length or chunked body)
pub fn read_request<S: Read>(s: &mut S) -> Option<Captured> {
    let mut buf: Vec<u8> = vec![];
    let mut tmp = [0u8; 16384];
    let head_end = loop {
        if let Some(p) = find(&buf, b"\r\n\r\n") {
            break p;
        }
        match s.read(&mut tmp) {
            Ok(0) | Err(_) => return None,
            Ok(n) => buf.extend_from_slice(&tmp[..n]),
        }
        if buf.len() > 1 << 20 {
            return None;
        }
    };
    let head = String::from_utf8_lossy(&buf[..head_end]).to_string();
    let mut lines = head.split("\r\n");
    let rl: Vec<&str> = lines.next()?.splitn(3, ' ').collect();
    if rl.len() < 2 {
        return None;
    }
    let mut cap = Captured { method: rl[0].to_string(), target: rl[1].to_string(), ..Default::default() };
    for l in lines {
        if let Some((k, v)) = l.split_once(':') {
            cap.headers.push((k.trim().to_ascii_lowercase(), v.trim().to_string()));
        }
    }
    let mut rest: Vec<u8> = buf[head_end + 4..].to_vec();
    let get = |cap: &Captured, k: &str| cap.headers.iter().find(|h| h.0 == k).map(|h| h.1.clone());
    let mut fill = |rest: &mut Vec<u8>, s: &mut S| -> bool {
        match s.read(&mut tmp) {
            Ok(0) | Err(_) => false,
            Ok(n) => {
                rest.extend_from_slice(&tmp[..n]);
                true
            }
        }
    };
    if get(&cap, "transfer-encoding").map(|v| v.to_ascii_lowercase().contains("chunked")).unwrap_or(false) {
        loop {
            let line_end = loop {
                if let Some(p) = find(&rest, b"\r\n") {
                    break Some(p);
                }
                if !fill(&mut rest, s) {
                    break None;
                }
            };
            let line_end = match line_end {
                Some(p) => p,
                None => return Some(cap),
            };
            let size_txt = String::from_utf8_lossy(&rest[..line_end]).to_string();
            let size = usize::from_str_radix(size_txt.split(';').next().unwrap_or("").trim(), 16).ok()?;
            rest.drain(..line_end + 2);
            while rest.len() < size + 2 {
                if !fill(&mut rest, s) {
                    return Some(cap);
                }
            }
            if size == 0 {
                cap.complete = true;
                break;
            }
            cap.body.extend_from_slice(&rest[..size]);
            rest.drain(..size + 2);
        }
    } else if let Some(n) = get(&cap, "content-length").and_then(|v| v.parse::<usize>().ok()) {
        while rest.len() < n {
            if !fill(&mut rest, s) {
                cap.body = rest;
                return Some(cap);
            }
        }
        cap.body = rest[..n].to_vec();
        cap.complete = true;
    } else {
        cap.complete = true;
    }
    Some(cap)
}

pub fn write_reply<S: Write>(s: &mut S, r: &Reply) {
    if let Some(d) = r.stall {
        std::thread::sleep(d);
    }
    let mut head = format!("HTTP/1.1 {} {}\r\nContent-Type: application/ipp\r\nConnection: close\r\n", r.status, reason(r.status));
    match r.framing {
        Framing::ContentLength => head.push_str(&format!("Content-Length: {}\r\n", r.body.len())),
        Framing::Chunked => head.push_str("Transfer-Encoding: chunked\r\n"),
        Framing::Close => {}
    }
    head.push_str("\r\n");
    if s.write_all(head.as_bytes()).is_err() {
        return;
    }
    let _ = s.flush();
    let limit = r.cut_at.unwrap_or(r.body.len()).min(r.body.len());
    let mut pos = 0;
    let mut fi = 0;
    while pos < limit {
        let want = if r.fragments.is_empty() { limit - pos } else { r.fragments[fi % r.fragments.len()].max(1) };
        fi += 1;
        let n = want.min(limit - pos);
        let piece = &r.body[pos..pos + n];
        let res = match r.framing {
            Framing::Chunked => s.write_all(format!("{:x}\r\n", n).as_bytes()).and_then(|_| s.write_all(piece)).and_then(|_| s.write_all(b"\r\n")),
            _ => s.write_all(piece),
        };
        if res.is_err() {
            return;
        }
        let _ = s.flush();
        pos += n;
        if let Some(d) = r.drip {
            std::thread::sleep(d);
        }
    }
    if r.cut_at.is_none() && r.framing == Framing::Chunked {
        let _ = s.write_all(b"0\r\n\r\n");
    }
    let _ = s.flush();
}

pub struct Server {
    pub port: u16,
    pub captured: Arc<Mutex<Vec<Captured>>>,
    stop: Arc<AtomicBool>,
    handle: Option<std::thread::JoinHandle<()>>,
}

impl Server {
    /// `replies`: the answer to the i-th request (the last one repeats); each connection serves one request
    pub fn start(replies: Vec<Reply>) -> Server {
        Server::start_with(replies, None)
    }

    /// `responder`: computes the reply from the captured request (used for concurrency tests)
    pub fn start_with(replies: Vec<Reply>, responder: Option<Arc<dyn Fn(&Captured) -> Reply + Send + Sync>>) -> Server {
        let listener = TcpListener::bind("127.0.0.1:0").expect("bind loopback");
        let port = listener.local_addr().unwrap().port();
        listener.set_nonblocking(true).unwrap();
        let captured = Arc::new(Mutex::new(vec![]));
        let stop = Arc::new(AtomicBool::new(false));
        let cap2 = captured.clone();
        let stop2 = stop.clone();
        let counter = Arc::new(Mutex::new(0usize));
        let handle = std::thread::spawn(move || {
            let mut workers = vec![];
            while !stop2.load(Ordering::SeqCst) {
                match listener.accept() {
                    Ok((stream, _)) => {
                        let cap3 = cap2.clone();
                        let replies = replies.clone();
                        let counter = counter.clone();
                        let responder = responder.clone();
                        workers.push(std::thread::spawn(move || serve(stream, cap3, replies, counter, responder)));
                    }
                    Err(_) => std::thread::sleep(Duration::from_micros(300)),
                }
            }
            for w in workers {
                let _ = w.join();
            }
        });
        Server { port, captured, stop, handle: Some(handle) }
    }

    pub fn finish(mut self) -> Vec<Captured> {
        self.stop.store(true, Ordering::SeqCst);
        if let Some(h) = self.handle.take() {
            let _ = h.join();
        }
        let c = self.captured.lock().unwrap().clone();
        c
    }
}

fn serve(mut stream: TcpStream, captured: Arc<Mutex<Vec<Captured>>>, replies: Vec<Reply>, counter: Arc<Mutex<usize>>, responder: Option<Arc<dyn Fn(&Captured) -> Reply + Send + Sync>>) {
    let _ = stream.set_nonblocking(false);
    let _ = stream.set_read_timeout(Some(Duration::from_secs(20)));
    let _ = stream.set_write_timeout(Some(Duration::from_secs(20)));
    let _ = stream.set_nodelay(true);
    let t0 = Instant::now();
    if let Some(cap) = read_request(&mut stream) {
        let idx = {
            let mut c = counter.lock().unwrap();
            let i = *c;
            *c += 1;
            i
        };
        let reply = match &responder {
            Some(f) => f(&cap),
            None => replies.get(idx).or(replies.last()).cloned().unwrap_or_else(|| Reply::ok(vec![])),
        };
        captured.lock().unwrap().push(cap);
        write_reply(&mut stream, &reply);
    }
    let _ = t0;
    let _ = stream.shutdown(std::net::Shutdown::Both);
}
