//! Per-property case generation: enumerations and seeded random cases, as case lines.
use crate::exec::CaseResult;
use crate::gen::*;
use crate::rng::Rng;
use crate::text::*;

pub struct GenInfo {
    pub rule: String,
    pub exhaustive: bool,
}

pub fn nontrivial(prop: &str, cr: &CaseResult) -> bool {
    match prop {
        "C16" => true,
        _ => cr.class != "bad-arg",
    }
}

pub fn generate(prop: &str, tier: &str, r: &mut Rng, out: &mut Vec<String>) -> GenInfo {
    let thorough = tier == "thorough";
    match prop {
        "C16" => {
            for c in 0..=0xffffu32 {
                out.push(format!("status {:04x}", c));
            }
            // the decoding is a function of the status word alone: the same answer under every protocol version and
            // request-id, and for a header that came out of the parser (every code up to 0x05ff, and the ends of the range)
            for ver in [0x0100u32, 0x0200, 0x0201, 0x0202, 0x0000, 0x0a0a, 0xffff] {
                for c in (0..=0x05ffu32).chain([0x0600, 0x1000, 0x7fff, 0x8000, 0xfffe, 0xffff]) {
                    out.push(format!("status {:04x} {:04x} {:08x}", c, ver, [0u32, 1, 0xffff_ffff][(c % 3) as usize]));
                }
            }
            for (name, hi) in crate::registry::ENUMS {
                for c in 0..=*hi {
                    out.push(format!("enum {} {:x}", name, c));
                }
            }
            GenInfo {
                rule: "every 16-bit status code through status_code()/is_success() under version 1.1, and codes 0x0000-0x05ff plus the ends of the range under versions 1.0, 2.0, 2.1, 2.2, 0.0, 10.10, 255.255 with request-ids 0, 1, 2^32-1, each both on a constructed header and on a header that came out of the parser; every tag byte through both tag enums; every operation id 0..=0xffff; every enum value 0..=300 through from_u64; all are distinct and count as non-trivial".into(),
                exhaustive: true,
            }
        }
        "C02" => {
            use crate::malformed::*;
            short_strings(out, if thorough { &[0, 1, 2, 3, 5, 0x0f, 0x10, 0x13, 0x21, 0x22, 0x34, 0x35, 0x37, 0x4a, 0x4b, 0x80, 0xff] } else { &[0, 3, 0x21, 0x34, 0xff] });
            tag_len_grid(out);
            lang_pairs(out);
            inflating(out);
            multibyte(out);
            length_sequences(out);
            token_sequences(out, if thorough { 5 } else { 4 });
            mutations(out, r, if thorough { 1_000_000 } else { 10_000 });
            for (kind, unit) in FAMILIES {
                let mut sizes: Vec<usize> = vec![1, 2, 3, 100, 1000, 4096 / unit.max(&1)];
                let mut bytes = 16 * 1024;
                while bytes <= 1024 * 1024 {
                    sizes.push(bytes / unit.max(&1));
                    bytes *= 4;
                }
                sizes.push(1024 * 1024 / unit.max(&1));
                sizes.dedup();
                for n in sizes {
                    if n >= 1 {
                        out.push(format!("bomb {} {}", kind, n));
                    }
                }
            }
            GenInfo {
                rule: "enumerations: every string of <= 2 bytes after a valid header and 3-byte strings over a tier-dependent third-byte set; every (tag 0x00-0xff) x (length 0-16, 0xffff) x fill through the value decoder and as a one-attribute message (exact and off-by-one declared length); every inner length pair of the with-language syntaxes x total length 0-16; long runs of non-UTF-8 bytes (21840-65535) in every string-carrying syntax, names included (text that triples when decoded); valid multi-byte text (2-, 3- and 4-byte characters at every alignment, 300 to 65535 octets) that puts a character across every byte offset; messages with several attributes whose name or value lengths rise, fall or repeat across 63-65 / 255-257 / 511-513 / 1024 / 2048 / 4096 / 8192 octets (every ordered pair of twenty sizes, six longer runs); all sequences of <= k tokens over a 16-token alphabet (k=4 quick, 5 thorough); seeded grammar-aware mutations of well-formed messages; structural bombs (16 families, sizes up to 1 MiB) in a child process. Non-trivial = distinct case lines".into(),
                exhaustive: false,
            }
        }
        "C19" => {
            let n = if thorough { 300_000 } else { 5_000 };
            let lim = Limits { max_depth: 3, boundary: false };
            {
                // small shapes exhaustively: sets of 0, 1, 2 elements whose elements are scalars, sets or collections;
                // collections of 0, 1, 2 members holding the same
                use ipp::prelude::IppValue as V;
                let atoms: Vec<V> = vec![
                    V::Integer(7), V::NoValue, V::Keyword("k".into()), V::Array(vec![]), V::Array(vec![V::Integer(1)]),
                    V::Array(vec![V::Integer(1), V::Keyword("x".into())]), V::Collection(Default::default()),
                    V::Collection([("a".to_string(), V::Integer(1))].into_iter().collect()),
                    V::Collection([("b".to_string(), V::Boolean(true)), ("a".to_string(), V::Keyword("z".into()))].into_iter().collect()),
                ];
                for a in &atoms {
                    out.push(format!("iter {}", value_str(a)));
                    out.push(format!("iter {}", value_str(&V::Array(vec![a.clone()]))));
                    out.push(format!("iter {}", value_str(&V::Collection([("m".to_string(), a.clone())].into_iter().collect()))));
                    for b in &atoms {
                        out.push(format!("iter {}", value_str(&V::Array(vec![a.clone(), b.clone()]))));
                        out.push(format!("iter {}", value_str(&V::Collection([("n".to_string(), a.clone()), ("m".to_string(), b.clone())].into_iter().collect()))));
                    }
                }
            }
            for i in 0..n {
                let mut rr = r.fork();
                if i % 3 == 2 {
                    out.push(format!("iter {}", value_str(&gen_value(&mut rr, &lim, 0, false))));
                } else {
                    out.push(crate::gen2::gen_add_seq(&mut rr));
                }
            }
            GenInfo { rule: "seeded random histories: a start message (empty, builder-like, or parser-like with repeated groups) followed by 0-12 add(group kind, name, value) operations over a small name pool (so that replacement happens), compared after the whole history incl. groups_of for all five kinds; and random values of all kinds traversed to exhaustion plus two further next() calls; non-trivial = distinct case lines".into(), exhaustive: false }
        }
        "C17" => {
            let n = if thorough { 300_000 } else { 5_000 };
            for _ in 0..n {
                let mut rr = r.fork();
                out.push(crate::gen2::gen_ready(&mut rr));
            }
            GenInfo { rule: "seeded random responses: status (successful codes, client/server errors, undefined codes) x printer groups (none, one, two) x printer-state (absent, idle, processing, stopped, other and negative enum values, wrong syntaxes, a set) x printer-state-reasons (absent, keyword, sets of 2-6 keywords with a blocking word at a random position, near-miss spellings, wrong syntaxes, a collection) x unrelated attributes and groups; non-trivial = distinct case lines".into(), exhaustive: false }
        }
        "C18" => {
            crate::gen2::option_texts(out, r, if thorough { 300_000 } else { 5_000 });
            {
                // the real binary against the scripted printer
                let runs = if thorough { 600 } else { 80 };
                let opt_texts = ["copies=2", "fit=true", "sides=two-sided-long-edge", "a=b=c", "noequals", "x=-17", "big=99999999999", "e=", "q=+5", "draft=false", "media=iso_a4_210x297mm", "t=True",
                    "job-hint=a=b", "pad=12=", "margin==7", "k=v=", "flag=true=1", "n=7=7", "eq===", "copies=2147483647", "copies=-2147483648", "copies=2147483648", "z=007", "sp= 5", "copies=3"];
                for i in 0..runs {
                    let mut rr = r.fork();
                    let mut a: Vec<String> = vec![];
                    let no_check = i % 4 == 3;
                    a.push(format!("(n {})", no_check as u8));
                    a.push(format!("(f {})", (i % 2) as u8));
                    if rr.chance(1, 2) {
                        a.push(format!("(j {})", hex(format!("job {}", rr.below(1000)).as_bytes())));
                    }
                    if rr.chance(1, 2) {
                        a.push(format!("(u {})", hex(*rr.pick(&["alice".as_bytes(), "bob smith".as_bytes(), "é".as_bytes()]))));
                    }
                    for _ in 0..rr.below(5) {
                        a.push(format!("(o {})", hex(rr.pick(&opt_texts).as_bytes())));
                    }
                    let dlen = match rr.below(5) { 0 => 0, 1 => 1, 2 => rr.range(2, 500) as usize, 3 => rr.range(500, 70_000) as usize, _ => if thorough { rr.range(1 << 20, 3 << 20) as usize } else { rr.range(70_000, 300_000) as usize } };
                    let doc = rr.bytes(dlen);
                    // printer behaviour
                    let gpa = |rr: &mut Rng| -> String {
                        match rr.below(8) {
                            0 => "(http)".to_string(),
                            k => {
                                let status: u16 = if k == 1 { *rr.pick(&[0x0400u16, 0x0507, 0x0503]) } else { *rr.pick(&[0u16, 0, 1, 2]) };
                                let state = *rr.pick(&[3i32, 4, 5, 3, 4]);
                                // printer-state as an enum, or absent / an integer / outside 3..5 (then only the reasons decide)
                                let mut attrs = match rr.below(8) {
                                    0 => vec![],
                                    1 => vec![("printer-state".to_string(), ipp::prelude::IppValue::Integer(state))],
                                    2 => vec![("printer-state".to_string(), ipp::prelude::IppValue::Enum(*rr.pick(&[0i32, 2, 6, 7, -1])))],
                                    _ => vec![("printer-state".to_string(), ipp::prelude::IppValue::Enum(state))],
                                };
                                match rr.below(4) {
                                    0 => {}
                                    1 => attrs.push(("printer-state-reasons".into(), ipp::prelude::IppValue::Keyword((*rr.pick(&["none", "paused", "media-low", "toner-empty", "media-jam", "spool-area-full", "cover-open", "door-open", "input-tray-missing", "output-tray-missing", "marker-supply-empty", "shutdown", "toner-low"])).to_string()))),
                                    _ => attrs.push(("printer-state-reasons".into(), ipp::prelude::IppValue::Array(vec![
                                        ipp::prelude::IppValue::Keyword("media-low".into()),
                                        ipp::prelude::IppValue::Keyword((*rr.pick(&["none", "door-open", "toner-low", "shutdown", "output-tray-missing", "marker-supply-empty", "input-tray-missing", "media-jam", "spool-area-full", "cover-open", "paused", "toner-empty"])).to_string()),
                                    ]))),
                                }
                                show_msg(&Msg { version: 0x0101, op: status, id: 1, groups: vec![(1, vec![("attributes-charset".into(), ipp::prelude::IppValue::Charset("utf-8".into()))]), (4, attrs)] })
                            }
                        }
                    };
                    let pj = |rr: &mut Rng| -> String {
                        match rr.below(6) {
                            0 => "(http)".to_string(),
                            1 => show_msg(&Msg { version: 0x0101, op: *rr.pick(&[0x0400u16, 0x0507, 0x040a]), id: 1, groups: vec![(1, vec![])] }),
                            _ => show_msg(&Msg { version: 0x0101, op: *rr.pick(&[0u16, 0, 1]), id: 1, groups: vec![(1, vec![]), (2, vec![("job-id".into(), ipp::prelude::IppValue::Integer(rr.below(100) as i32)), ("job-state".into(), ipp::prelude::IppValue::Enum(3))])] }),
                        }
                    };
                    let answers = if no_check { pj(&mut rr) } else { format!("{} {}", gpa(&mut rr), pj(&mut rr)) };
                    out.push(format!("cli (args {}) {} (answers {})", a.join(" "), hex(&doc), answers));
                }
            }
            GenInfo { rule: "the real ipputil binary against a scripted loopback printer (file or standard input from 0 B to hundreds of KB – MiBs thorough –, optional job and user names, 0-3 options of every textual class incl. values containing '=' and options without '=', -n on/off; printer answers: state idle/processing/stopped, reasons single/set with blocking words, IPP error statuses, HTTP errors for either exchange): requests received and exit status compared with the model; plus option value texts of every class: true/false and near misses, decimal integers with signs, leading zeros, the i32 boundaries and beyond, non-ASCII digits, embedded spaces and letters, arbitrary UTF-8 keywords, values containing '='; non-trivial = distinct texts".into(), exhaustive: false }
        }
        "C13" => {
            let n = if thorough { 500_000 } else { 5_000 };
            for i in 0..n {
                let mut rr = r.fork();
                let u = crate::gen2::gen_uri(&mut rr);
                if i % 25 == 12 {
                    // runs of requests whose targets differ in one component only (port given / another / none; path;
                    // host), built one after the other in the same thread: each printer-uri is a function of its own target
                    let kind = *rr.pick(&crate::gen2::KINDS[..11]);
                    let p1 = *rr.pick(&[631u16, 8631, 443, 80, 1, 65535]);
                    let p2 = if p1 == 631 { 8631 } else { 631 };
                    let variants = [
                        u.with(Some(Some(p1)), None, None), u.with(Some(Some(p2)), None, None), u.with(Some(None), None, None), u.with(Some(Some(p1)), None, None),
                        u.with(None, Some("/other/path"), None), u.with(None, None, Some("other.example")), u.with(Some(None), None, None),
                    ];
                    for v in &variants {
                        let args = crate::gen2::gen_build_args(&mut rr, kind);
                        let mut toks: Vec<String> = args.splitn(3, ' ').map(|t| t.to_string()).collect();
                        if toks.len() == 3 && toks[1] != "~" {
                            toks[1] = hex(v.text.as_bytes());
                        }
                        out.push(format!("build {}", toks.join(" ")));
                        out.push(crate::gen2::canon_line(v));
                    }
                } else if i % 50 == 49 {
                    // targets in authority form (`host[:port]`, no scheme): at the edge of the property's quantifier; the
                    // http crate accepts them and the model must say what the code does with them
                    let kind = *rr.pick(&crate::gen2::KINDS[..11]);
                    let args = crate::gen2::gen_build_args(&mut rr, kind);
                    let odd = *rr.pick(&["printer.local", "printer.local:631", "10.0.0.7:8631", "[::1]:631", "uSeRmArK@host:631", "uSeRmArK:pAsSmArK@printer.local"]);
                    let mut toks: Vec<String> = args.splitn(3, ' ').map(|t| t.to_string()).collect();
                    if toks.len() == 3 && toks[1] != "~" {
                        toks[1] = hex(odd.as_bytes());
                    }
                    out.push(format!("build {}", toks.join(" ")));
                } else if i % 4 == 3 {
                    let kind = *rr.pick(&crate::gen2::KINDS[..11]);
                    out.push(format!("build {}", crate::gen2::gen_build_args(&mut rr, kind)));
                } else {
                    out.push(crate::gen2::canon_line(&u));
                }
            }
            GenInfo { rule: "seeded structured target URIs scheme://[user[:password]@]host[:port][/path][?query] with scheme in {http,https,ipp,ipps}, hosts of all three forms (registered name, IPv4, bracketed IPv6), ports 1-65535 or absent, percent-encoded paths, user-info and query carrying marker tokens (user-info incl. ':' and '@'); through canonicalize_uri and, every fourth case, through a request constructor or builder; non-trivial = distinct URIs the http crate accepts".into(), exhaustive: false }
        }
        "C14" => {
            {
                // the URL a client really contacts: a few exchanges with different targets in one process, both clients
                // (the mapping must be applied per client and per request, not remembered)
                let body = "010100000000000101470012617474726962757465732d6368617273657400057574662d3803";
                for (i, path) in ["/ipp/print", "/printers/q2?waitjob=false", "/a/b/c", "/", "/printers/q3?x=1&y=2", "/jobs/7"].iter().enumerate() {
                    for c in ["async", "blocking"] {
                        out.push(format!("send {} (msg 0101 000b 0000000{} (g 01)) - (cfg) (target {}) (srv 200 cl {})", c, i + 1, hex(path.as_bytes()), body));
                    }
                }
            }
            let n = if thorough { 500_000 } else { 5_000 };
            for _ in 0..n {
                let mut rr = r.fork();
                let u = crate::gen2::gen_uri(&mut rr);
                out.push(crate::gen2::transport_line(&u));
            }
            GenInfo { rule: "twelve real exchanges (both clients, six different targets, one process: the server must see the POST for that client's own target), then seeded structured target URIs as for C13 (ports incl. 0), through the cfg-guarded wrapper of ipp_uri_to_string; expected URL from the generator's ground truth per RFC 3510 / RFC 7472 (port 631 for both schemes); non-trivial = distinct URIs the http crate accepts".into(), exhaustive: false }
        }
        "C10" => {
            let n = if thorough { 200_000 } else { 5_000 };
            for i in 0..n {
                let mut rr = r.fork();
                let kind = crate::gen2::KINDS[i % crate::gen2::KINDS.len()];
                out.push(format!("build {}", crate::gen2::gen_build_args(&mut rr, kind)));
            }
            // every request a process creates has a positive request-id, the 65 536th and the 100 000th included
            out.push(format!("manyreq {}", if thorough { 300_000 } else { 70_000 }));
            GenInfo { rule: "all 10 operation builders and the two raw constructors in rotation, each with a seeded random target URI, job id, payload and a sequence of 0-6 builder calls drawn from the methods that builder has (repeated single-valued setters, accumulating setters with 0-3 items, arbitrary UTF-8 texts and attribute values, texts of 254-2000 octets, target paths of the shapes CUPS uses and of 230-5000 octets); any positive request-id is accepted (shown as 1); 70 000 requests created in one process must all have a positive request-id; non-trivial = distinct case lines that build a request".into(), exhaustive: false }
        }
        "C09" => {
            let shapes = if thorough { 400 } else { 20 };
            let instances = if thorough { 150 } else { 120 };
            for s in 0..shapes {
                for kind in crate::gen2::KINDS {
                    let mut rr = Rng::new(r.next() ^ s as u64);
                    let line = format!("order {} {}", crate::gen2::gen_build_args(&mut rr, kind), crate::gen2::gen_adds(&mut rr));
                    for _ in 0..instances / 12 {
                        out.push(line.clone());
                    }
                }
            }
            GenInfo { rule: "12 request shapes (10 builders, 2 raw constructors) x seeded random arguments, builder calls and 0-5 further additions (incl. job-uri, job-id, printer-uri, charset in any order, and the other operation attributes RFC 8011 registers, e.g. status-message, job-name, requested-attributes), each shape built as several fresh instances (fresh randomly keyed hash maps) and encoded; the bytes up to the end of the RFC 8011 header attributes are compared and the order oracle reads the names off the wire; non-trivial counts distinct shapes".into(), exhaustive: false }
        }
        "C05" => {
            use crate::gen3::*;
            use crate::sources::Ev;
            let maxn = if thorough { 21 } else { 16 };
            for m in short_messages() {
                if m.len() <= maxn {
                    all_compositions(&m, |evs| {
                        out.push(line("async", &evs));
                    });
                }
                for k in 1..=m.len() {
                    let evs = uniform(&m, k);
                    let mut rr = r.fork();
                    out.push(line("async-deferred", &with_pending(&mut rr, evs.clone())));
                    out.push(line("async", &with_pending(&mut rr, evs)));
                }
            }
            // compositions with not-ready results of the 16-byte message
            let m16 = short_messages()[2].clone();
            let mut cnt = 0;
            all_compositions(&m16, |evs| {
                cnt += 1;
                if cnt % (if thorough { 1 } else { 8 }) == 0 {
                    let mut rr = r.fork();
                    out.push(line(if cnt % 2 == 0 { "async" } else { "async-deferred" }, &with_pending(&mut rr, evs)));
                }
            });
            let n = if thorough { 60_000 } else { 3_000 };
            let lim = crate::wiregen::WLimits { max_depth: 3, malformed_per_mille: 30, boundary: false };
            for i in 0..n {
                let mut rr = r.fork();
                let bytes: Vec<u8> = match i % 3 {
                    0 => {
                        let (mut b, p) = wellformed(&mut rr);
                        b.extend_from_slice(&p);
                        b
                    }
                    1 => {
                        let mut b = crate::wiregen::ser(&crate::wiregen::gen_wmsg(&mut rr, &lim));
                        b.extend_from_slice(&gen_payload(&mut rr));
                        b
                    }
                    _ => {
                        let (b, _) = wellformed(&mut rr);
                        crate::malformed::mutate(&mut rr, &b)
                    }
                };
                let comp = random_composition(&mut rr, &bytes);
                let evs = with_pending(&mut rr, comp);
                let mut evs2 = evs.clone();
                if i % 10 == 9 && !evs2.is_empty() {
                    let at = rr.below(evs2.len() as u64) as usize;
                    evs2.insert(at, Ev::Fail(crate::text::io_kind_of(*rr.pick(FAULT_KINDS)).unwrap()));
                }
                out.push(line(if i % 2 == 0 { "async" } else { "async-deferred" }, &evs2));
            }
            {
                // values and names whose length fields pass 4096, 2^15 and reach 2^16 - 1 (well-formed, and cut short),
                // and the same messages through every public entry point of both parsers (`parse` op)
                for n in [4095usize, 4096, 4097, 20000, 32767, 32768, 40000, 65535] {
                    for (tag, as_name) in [(0x41u8, false), (0x30, false), (0x44, true)] {
                        let mut b = vec![1u8, 1, 0, 0x0b, 0, 0, 0, 7, 1, tag];
                        let body = vec![b'v'; n];
                        if as_name {
                            b.extend_from_slice(&(n as u16).to_be_bytes());
                            b.extend_from_slice(&body);
                            b.extend_from_slice(&[0, 1, b'k']);
                        } else {
                            b.extend_from_slice(&[0, 1, b'a']);
                            b.extend_from_slice(&(n as u16).to_be_bytes());
                            b.extend_from_slice(&body);
                        }
                        b.extend_from_slice(&[0x22, 0, 1, b'z', 0, 1, 1, 3, 0xaa]);
                        out.push(line("async", &uniform(&b, 1000)));
                        out.push(line("async-deferred", &uniform(&b, 4096)));
                        out.push(format!("parse {}", hex(&b)));
                        // the announced length is larger than what follows
                        let cut = &b[..b.len().min(10 + 2 + 3 + n / 2)];
                        out.push(line("async", &uniform(cut, 700)));
                    }
                }
                for _ in 0..150 {
                    let mut rr = r.fork();
                    let (mut b, p) = wellformed(&mut rr);
                    b.extend_from_slice(&p);
                    out.push(format!("parse {}", hex(&b)));
                }
            }
            GenInfo { rule: "every composition into chunks of short well-formed and malformed messages (all 2^(n-1) for n <= 16 quick / 21 thorough), uniform chunk sizes 1..n with 0-2 not-ready results before each chunk (immediate and deferred wake-up), and seeded random compositions with not-ready results of generated well-formed messages, wire trees and mutated messages (one in ten with an injected I/O failure), messages with values and names of 4095-65535 octets (whole and cut short), and 174 messages through every public entry point of both parsers (parse / parse_parts, explicit reader / bare reader converted by From); each async outcome is compared with the blocking parser's outcome on the same data/error events and with the model; non-trivial = distinct scripts".into(), exhaustive: false }
        }
        "C06" => {
            use crate::gen3::*;
            let maxn = if thorough { 21 } else { 16 };
            for m in short_messages().into_iter().filter(|m| crate::exec::parse_flat(m).is_ok()) {
                if m.len() <= maxn {
                    all_compositions(&m, |evs| {
                        out.push(line("sync", &evs));
                    });
                }
                for k in 1..=m.len() {
                    let mut rr = r.fork();
                    out.push(line("sync", &with_interrupts(&mut rr, uniform(&m, k))));
                    out.push(line("async", &uniform(&m, k)));
                }
            }
            let n = if thorough { 20_000 } else { 200 };
            for _ in 0..n {
                let mut rr = r.fork();
                let (mut b, p) = wellformed(&mut rr);
                b.extend_from_slice(&p);
                out.push(line("sync", &uniform(&b, 1)));
                out.push(line("async", &uniform(&b, 1)));
                for _ in 0..6 {
                    let evs = random_composition(&mut rr, &b);
                    out.push(line("sync", &with_interrupts(&mut rr, evs.clone())));
                    out.push(line("async", &with_pending(&mut rr, evs)));
                }
                // cut exactly at the end of the attributes: the payload must arrive untouched
                let cut = b.len() - p.len();
                out.push(line("sync", &[crate::sources::Ev::Data(b[..cut].to_vec()), crate::sources::Ev::Data(b[cut..].to_vec())]));
            }
            {
                // messages with more than 1024 / 4096 tags (one wide set; many attributes; many groups), whole and in
                // seeded fragments, with a payload that must come back untouched
                for n in [1023usize, 1024, 1025, 2500, 4097] {
                    let mut wide = vec![1u8, 1, 0, 2, 0, 0, 0, 1, 4, 0x21, 0, 1, b'a', 0, 4, 0, 0, 0, 0];
                    for i in 0..n as u32 {
                        wide.extend_from_slice(&[0x21, 0, 0, 0, 4]);
                        wide.extend_from_slice(&i.to_be_bytes());
                    }
                    wide.push(3);
                    let mut many = vec![1u8, 1, 0, 2, 0, 0, 0, 1, 1];
                    for i in 0..n {
                        let name = format!("a{}", i);
                        many.push(0x22);
                        many.extend_from_slice(&(name.len() as u16).to_be_bytes());
                        many.extend_from_slice(name.as_bytes());
                        many.extend_from_slice(&[0, 1, 1]);
                    }
                    many.push(3);
                    let mut groups = vec![1u8, 1, 0, 2, 0, 0, 0, 1];
                    for i in 0..n {
                        groups.push([1u8, 2, 4, 5][i % 4]);
                    }
                    groups.push(3);
                    // an attribute name of n octets (past 255 / 1023), then a small one
                    let mut longname = vec![1u8, 1, 0, 2, 0, 0, 0, 1, 1, 0x21];
                    let nl = (n * 16).min(65535);
                    longname.extend_from_slice(&(nl as u16).to_be_bytes());
                    longname.extend(std::iter::repeat(b'n').take(nl));
                    longname.extend_from_slice(&[0, 4, 0, 0, 0, 7, 0x22, 0, 1, b'b', 0, 1, 1, 3]);
                    let mut name256 = vec![1u8, 1, 0, 2, 0, 0, 0, 1, 1, 0x21];
                    let nl2 = 255 + (n % 3); // 255, 256, 257
                    name256.extend_from_slice(&(nl2 as u16).to_be_bytes());
                    name256.extend(std::iter::repeat(b'k').take(nl2));
                    name256.extend_from_slice(&[0, 4, 0, 0, 0, 7, 3]);
                    for mut b in [wide, many, groups, longname, name256] {
                        let mut rr = r.fork();
                        b.extend_from_slice(&[0xaa, 3, 1, 0xbb]);
                        out.push(line("sync", &[crate::sources::Ev::Data(b.clone())]));
                        out.push(line("async", &[crate::sources::Ev::Data(b.clone())]));
                        let evs = random_composition(&mut rr, &b);
                        out.push(line("sync", &with_interrupts(&mut rr, evs.clone())));
                        out.push(line("async", &with_pending(&mut rr, evs)));
                    }
                }
            }
            if thorough {
                for _ in 0..20 {
                    let mut rr = r.fork();
                    let (mut b, _) = wellformed(&mut rr);
                    let n = rr.range(1 << 20, 3 << 20) as usize;
                    b.extend_from_slice(&rr.bytes(n));
                    out.push(line("sync", &random_composition(&mut rr, &b)));
                }
            }
            GenInfo { rule: "well-formed messages (incl. messages of 1023-4097 values, attributes or groups) x payloads (empty, one byte, bytes that look like IPP tags, random up to 2000 bytes; MiBs in the thorough tier) x fragmentations (every composition of the short messages, one byte at a time, uniform, seeded random) with Interrupted results before any read for the blocking reader and not-ready results for the async reader; the result must equal the parse of the unfragmented bytes and the remaining reader must yield exactly the payload; non-trivial = distinct scripts".into(), exhaustive: false }
        }
        "C07" => {
            use crate::gen3::*;
            use crate::sources::Ev;
            let n = if thorough { 1_500 } else { 200 };
            let mut msgs: Vec<(Vec<u8>, Vec<u8>)> = short_messages().into_iter().filter(|m| crate::exec::parse_flat(m).is_ok()).map(|m| (m, vec![])).collect();
            for _ in 0..n {
                let mut rr = r.fork();
                msgs.push(wellformed(&mut rr));
            }
            {
                // one message with more than 1024 (and more than 4096) fields: cuts and faults at sampled offsets and near the end
                for nvals in [1500u32] {
                    let w = crate::wiregen::WMsg { version: 0x0101, op: 0, id: 1, groups: vec![crate::wiregen::WGroup { tag: 4, attrs: vec![crate::wiregen::WAttr { name: b"media-supported".to_vec(), vals: (0..nvals).map(|i| crate::wiregen::WVal::Plain(0x44, format!("m{}", i).into_bytes())).collect() }] }] };
                    let b = crate::wiregen::ser(&w);
                    let mut offs: Vec<usize> = (0..b.len()).step_by(1499).collect();
                    offs.extend(b.len().saturating_sub(12)..b.len());
                    for k in offs {
                        out.push(line("sync", &[Ev::Data(b[..k].to_vec())]));
                        out.push(line("async", &[Ev::Data(b[..k].to_vec())]));
                        let evs = vec![Ev::Data(b[..k].to_vec()), Ev::Fail(std::io::ErrorKind::ConnectionReset), Ev::Data(b[k..].to_vec())];
                        out.push(line("sync", &evs));
                        out.push(line("async", &evs));
                    }
                }
            }
            {
                // attribute names of 62-67, 126-131, 254-259, 1022-1027 octets with a 2-, 3- or 4-octet character lying across
                // octet 64 / 128 / 256 / 1024 (and one ending exactly there), two values: every cut and one fault at every
                // offset from the end of the name to the end-of-attributes tag
                for bound in [64usize, 128, 256, 1024] {
                    for ch in ["\u{e9}", "\u{20ac}", "\u{1f600}"] {
                        for before in 0..=ch.len() {
                            // `before` octets of the character lie below the boundary
                            let start = bound - before;
                            let mut name = vec![b'n'; start];
                            name.extend_from_slice(ch.as_bytes());
                            name.extend_from_slice(b"xy");
                            let w = crate::wiregen::WMsg { version: 0x0200, op: 0x000b, id: 7, groups: vec![crate::wiregen::WGroup { tag: 1, attrs: vec![crate::wiregen::WAttr { name: name.clone(), vals: vec![crate::wiregen::WVal::Plain(0x44, b"ab".to_vec()), crate::wiregen::WVal::Plain(0x41, b"cde".to_vec())] }] }] };
                            let b = crate::wiregen::ser(&w);
                            let from = 8 + 1 + 1 + 2 + name.len();
                            for k in from..b.len() {
                                out.push(line("sync", &[Ev::Data(b[..k].to_vec())]));
                                out.push(line("async", &[Ev::Data(b[..k].to_vec())]));
                                let evs = vec![Ev::Data(b[..k].to_vec()), Ev::Fail(std::io::ErrorKind::ConnectionAborted), Ev::Data(b[k..].to_vec())];
                                out.push(line("sync", &evs));
                                out.push(line("async", &evs));
                            }
                        }
                    }
                }
            }
            for (b, p) in msgs {
                let ha = b.len() - if p.is_empty() && b.ends_with(&[0xaa, 0xbb]) { 2 } else { 0 };
                let ha = ha.min(600);
                for k in 0..ha.min(b.len()) {
                    // cut: end of stream after k bytes
                    out.push(line("sync", &[Ev::Data(b[..k].to_vec())]));
                    out.push(line("async", &[Ev::Data(b[..k].to_vec())]));
                }
                let mut rr = r.fork();
                for k in 0..ha.min(b.len()) {
                    // single fault at offset k, every kind (all 8 for short messages, one random kind per offset for long ones)
                    let kinds: Vec<&str> = if b.len() <= 64 { FAULT_KINDS.iter().cloned().chain(["would-block"]).collect() } else { vec![*rr.pick(FAULT_KINDS)] };
                    for kind in kinds {
                        let mut all = b.clone();
                        all.extend_from_slice(&p);
                        let evs = vec![Ev::Data(all[..k].to_vec()), Ev::Fail(crate::text::io_kind_of(kind).unwrap()), Ev::Data(all[k..].to_vec())];
                        out.push(line("sync", &evs));
                        if kind != "would-block" {
                            out.push(line("async", &evs));
                        }
                    }
                }
            }
            GenInfo { rule: "for each well-formed message (short fixed ones and seeded random ones): every cut point before the end-of-attributes tag (end of stream after k bytes) and a single injected I/O failure at every byte offset before that tag (all kinds for short messages, a random kind per offset for long ones; WouldBlock for the blocking reader), through both parsers; plus messages whose attribute name has a multi-octet character across octet 64 / 128 / 256 / 1024, cut and faulted at every offset after the name; the outcome must be an error carrying that kind; non-trivial = distinct scripts".into(), exhaustive: false }
        }
        "C08" => {
            use crate::gen3::*;
            let n = if thorough { 10_000 } else { 2_000 };
            let lim = Limits { max_depth: 2, boundary: false };
            for i in 0..n {
                let mut rr = r.fork();
                let mut m = gen_msg(&mut rr, &lim);
                if i % 8 == 5 {
                    // no group at all, no operation group, or the operation group not first
                    match rr.below(3) {
                        0 => m.groups.clear(),
                        1 => m.groups.retain(|g| g.0 != 1),
                        _ => m.groups.reverse(),
                    }
                }
                let kind = ["none", "sync", "async"][i % 3];
                let cons = if (i / 3) % 2 == 0 { "read" } else { "aread" };
                let plen = match rr.below(6) {
                    0 => 0,
                    1 => 1,
                    2..=3 => rr.range(2, 300) as usize,
                    4 => rr.range(300, 5000) as usize,
                    _ => if thorough && rr.chance(1, 40) { rr.range(1 << 20, 3 << 20) as usize } else { rr.range(5000, 300000) as usize },
                };
                let pay = rr.bytes(plen);
                let mut evs = random_composition(&mut rr, &pay);
                if kind == "async" || rr.chance(1, 4) {
                    evs = with_pending(&mut rr, evs);
                }
                if kind == "sync" && rr.chance(1, 3) {
                    evs = with_interrupts(&mut rr, evs);
                }
                if kind == "none" {
                    evs.clear();
                }
                let nsz = rr.below(40);
                let sizes: Vec<String> = (0..nsz).map(|_| match rr.below(7) { 0 => 1, 1 => rr.range(1, 16), 2 => rr.range(1, 300), 3 => rr.range(1, 4096), 4 => *rr.pick(&[2u64, 255, 256, 4095, 4096, 8192, 32768, 65535, 65536]), 5 => 65536, _ => rr.range(1, 65536) }.to_string()).collect();
                out.push(format!("stream {} {} {} (pay{}{}) (sizes{}{})", kind, cons, show_msg(&m),
                    if evs.is_empty() { "" } else { " " }, crate::sources::show_events(&evs),
                    if sizes.is_empty() { "" } else { " " }, sizes.join(" ")));
            }
            GenInfo { rule: "seeded random messages (every eighth without groups, without an operation group, or with it not first) x payload source kind {none, blocking, async} x payload contents (0 B to 70 KB; MiBs in the thorough tier) delivered in random fragments with not-ready results (async; ignored by blocking) and Interrupted results (blocking) x consumer {Read, AsyncRead} x sequences of 0-39 read-buffer sizes from 1 B to 64 KiB (then 4096); the drained bytes and the way the stream ends are compared with header+attributes ++ payload and with the model; non-trivial = distinct case lines".into(), exhaustive: false }
        }
        "C20" => {
            let n = if thorough { 30_000 } else { 3_000 };
            let lim = Limits { max_depth: if thorough { 5 } else { 3 }, boundary: true };
            for _ in 0..n {
                let mut rr = r.fork();
                let m = gen_msg(&mut rr, &lim);
                out.push(format!("json {}", show_msg(&m)));
            }
            GenInfo { rule: "seeded random messages of the domain of C01 (all 22 value kinds incl. raw-octet values, nested collections, mixed sets, repeated and empty groups) serialised by the real derive to JSON, rendered canonically, deserialised and compared; non-trivial = distinct messages".into(), exhaustive: false }
        }
        "C15" => {
            for (kind, unit) in crate::malformed::FAMILIES {
                let mut bytes = if thorough { 1024 } else { 4096 };
                let top = if thorough { 2 * 1024 * 1024 } else { 1024 * 1024 };
                for n in [1usize, 2, 7, 64] {
                    out.push(format!("cost {} {}", kind, n));
                }
                while bytes <= top {
                    out.push(format!("cost {} {}", kind, (bytes / unit.max(&1)).max(1)));
                    bytes *= 2;
                }
            }
            GenInfo { rule: "seventeen size-parameterised input families (nesting depth, set width, attributes, duplicate attributes, groups, members, unclosed begins, stray ends, maximal values, sets of collections, nested multi-valued members, long non-UTF-8 names and texts, a long value before many small ones, a wide set before many attributes, groups that leave collections open, a wide group before many groups; well-formed and malformed), n doubling from 4 KiB to 1 MiB of input (1 KiB to 2 MiB thorough) plus tiny sizes; for each the real blocking parse, the async parse of the whole input and the async parse of the input delivered in 64-byte and 536-byte pieces are measured by a counting allocator (bytes and calls per input byte against absolute ceilings, growth factor on doubling <= 2.5, fragmented delivery must not allocate more than twice the whole delivery, time per byte ceiling and time growth on doubling <= 3x once above 100 ms); consumed bytes compared with the model up to 4096 elements; non-trivial = distinct (family, n)".into(), exhaustive: false }
        }
        "C11" => {
            let lim = Limits { max_depth: 2, boundary: false };
            let tok = |r: &mut Rng, n: u64| -> String { (0..r.range(1, n)).map(|_| *r.pick(&['a', 'b', 'x', 'z', '0', '7', '-'])).collect() };
            let gen_cfg = |r: &mut Rng, timeout: Option<u64>| -> String {
                let mut parts: Vec<String> = vec![];
                for _ in 0..r.below(4) {
                    let k = format!("x-{}", tok(r, 8));
                    let v: String = (0..r.range(0, 12)).map(|_| r.range(0x21, 0x7e) as u8 as char).collect();
                    parts.push(format!("(h {} {})", hex(k.as_bytes()), hex(v.trim().as_bytes())));
                }
                if r.chance(1, 2) {
                    let u = gen_string(r, &Limits { max_depth: 0, boundary: false });
                    let p = if r.chance(1, 3) { format!("{}:{}", tok(r, 5), tok(r, 5)) } else { gen_string(r, &Limits { max_depth: 0, boundary: false }) };
                    parts.push(format!("(auth {} {})", hex(u.as_bytes()), hex(p.as_bytes())));
                }
                if let Some(t) = timeout {
                    parts.push(format!("(timeout {})", t));
                }
                format!("(cfg{}{})", if parts.is_empty() { "" } else { " " }, parts.join(" "))
            };
            let gen_target = |r: &mut Rng| -> String {
                let p = match r.below(4) {
                    0 => "/".to_string(),
                    1 => "/printers/laser".to_string(),
                    2 => format!("/ipp/print/{}", tok(r, 6)),
                    _ => format!("/p%20q/{}?job={}&x=%2F", tok(r, 4), r.below(100)),
                };
                format!("(target {})", hex(p.as_bytes()))
            };
            let resp_bytes = |r: &mut Rng| -> (Vec<u8>, usize) {
                let m = gen_msg(r, &lim);
                let q = build(&m).unwrap();
                let mut b = q.to_bytes().to_vec();
                let ha = b.len();
                let n = r.below(60) as usize;
                b.extend_from_slice(&r.bytes(n));
                (b, ha)
            };
            let frags = |r: &mut Rng| -> String {
                let n = r.below(5);
                format!("(frags{}{})", if n == 0 { "" } else { " " }, (0..n).map(|_| r.range(1, 40).to_string()).collect::<Vec<_>>().join(" "))
            };
            let framings = ["cl", "chunked", "close"];
            let clients = ["blocking", "async"];
            let n_ok = if thorough { 3000 } else { 150 };
            for i in 0..n_ok {
                let mut rr = r.fork();
                let m = gen_msg(&mut rr, &lim);
                let plen = if thorough && i % 100 == 0 { rr.range(1 << 20, 3 << 20) as usize } else { rr.below(300) as usize };
                let pay = rr.bytes(plen);
                let (body, _) = resp_bytes(&mut rr);
                out.push(format!("send {} {} {} {} {} (srv 200 {} {} {})", clients[i % 2], show_msg(&m), hex(&pay), gen_cfg(&mut rr, None), gen_target(&mut rr), framings[(i / 2) % 3], hex(&body), frags(&mut rr)));
            }
            // every 4xx / 5xx status, alternating clients and framings
            for st in 400..600u32 {
                let mut rr = r.fork();
                let m = gen_msg(&mut rr, &lim);
                let (body, _) = resp_bytes(&mut rr);
                for c in 0..2 {
                    out.push(format!("send {} {} - {} {} (srv {} {} {} {})", clients[(st as usize + c) % 2], show_msg(&m), gen_cfg(&mut rr, None), gen_target(&mut rr), st, framings[st as usize % 3], hex(&body), frags(&mut rr)));
                }
            }
            // connection cut at every offset inside header+attributes, under each framing
            for k in 0..(if thorough { 25 } else { 5 }) {
                let mut rr = r.fork();
                let m = gen_msg(&mut rr, &lim);
                let (body, ha) = resp_bytes(&mut rr);
                for cut in 0..ha.min(if thorough { 400 } else { 120 }) {
                    for (fi, f) in framings.iter().enumerate() {
                        out.push(format!("send {} {} - (cfg) (target 2f) (srv 200 {} {} {} (cut {}))", clients[(cut + fi + k) % 2], show_msg(&m), f, hex(&body), frags(&mut rr), cut));
                    }
                }
            }
            // stalled server against a request timeout
            for c in clients {
                let mut rr = r.fork();
                let m = gen_msg(&mut rr, &lim);
                let (body, _) = resp_bytes(&mut rr);
                out.push(format!("send {} {} - {} (target 2f) (srv 200 cl {} (stall 1500))", c, show_msg(&m), gen_cfg(&mut rr, Some(300)), hex(&body)));
                out.push(format!("send {} {} - {} (target 2f) (srv 200 cl {} (stall 50))", c, show_msg(&m), gen_cfg(&mut rr, Some(5000)), hex(&body)));
            }
            // a server that trickles the response: every read makes progress but the exchange exceeds the timeout
            for c in clients {
                let mut rr = r.fork();
                let m = gen_msg(&mut rr, &lim);
                let (body, _) = resp_bytes(&mut rr);
                let frag = 3usize;
                let count = (body.len() + frag - 1) / frag;
                out.push(format!("send {} {} - {} (target 2f) (srv 200 cl {} (frags {}) (drip 60) (takes {}))", c, show_msg(&m), gen_cfg(&mut rr, Some(400)), hex(&body), frag, 60 * count));
            }
            for c in clients {
                out.push(format!("send_many {} {}", c, if thorough { 32 } else { 16 }));
            }
            GenInfo { rule: "both real clients against a scripted loopback HTTP/1.1 server: seeded requests (random messages, payloads from a fragmenting source, 0-3 custom headers, Basic credentials incl. ':' and UTF-8, paths with queries) answered with status 200 under content-length / chunked / close-delimited framing and random write fragmentation; every status 400-599; the connection cut at every offset inside header+attributes of 5 responses under each framing; a stalled server against a request timeout; 16 concurrent senders per client. The captured request and the returned value are compared with the model's prediction and with direct oracles; non-trivial = distinct exchanges".into(), exhaustive: false }
        }
        "C12" => {
            let be = crate::tls::backend();
            // every cell of {setter calls} x {root} x {certificate} with the host as a DNS name; with the host as an
            // IP literal the sequences without a trailing opt-out (thorough: all)
            let seqs = ["unset", "f", "t", "tf", "ft", "ftf", "ttf", "tft"];
            for client in ["blocking", "async"] {
                for host in ["dns", "ip"] {
                    for ignore in seqs {
                        if host == "ip" && !thorough && !matches!(ignore, "unset" | "f" | "tf" | "t") {
                            continue;
                        }
                        for root in ["none", "pem", "der", "unrelated", "decoyfirst", "decoylast"] {
                            // two `ca_cert` calls (a root of the same name but another key, and the correct one): quick
                            // tier only without setter calls
                            if root.starts_with("decoy") && !thorough && ignore != "unset" {
                                continue;
                            }
                            for cert in ["valid", "wrongname", "expired", "selfsigned", "unknownca"] {
                                out.push(format!("tlscase {} {} {} {} {} {}", be, client, ignore, root, cert, host));
                                // the same target written https:// (quick: without setter calls and with one opt-out)
                                if thorough || matches!(ignore, "unset" | "t") {
                                    out.push(format!("tlscase {} {} {} {} {} {} https", be, client, ignore, root, cert, host));
                                }
                            }
                        }
                    }
                }
            }
            GenInfo { rule: "the matrix {blocking, async} x {host given as DNS name, as IP literal} x {sequence of ignore_tls_errors calls: none, f, t, tf, ft, ftf, ttf, tft (IP literal in the quick tier: none, f, t, tf)} x {no extra root, correct root as PEM, as DER, unrelated root, a same-named root with another key before / after the correct one (two ca_cert calls)} x server certificate {valid for host (SAN DNS:localhost, IP:127.0.0.1), other host name, expired, self-signed, signed by unknown CA} x target written ipps:// or https:// (quick: https only without setter calls and with a single opt-out), for the TLS backend this harness build links (both backends are run and merged by run.py; the correct root in DER is generated so that it ends with an ASCII white-space octet): 640 cells per backend (1280 thorough), each a real handshake against an in-process rustls server with certificates generated by the openssl CLI; every cell is distinct and non-trivial; the sequences of setter calls are a sample (the theorem covers every sequence)".into(), exhaustive: false }
        }
        "C04" => {
            let n = if thorough { 200_000 } else { 3_000 };
            let lim = crate::wiregen::WLimits { max_depth: if thorough { 6 } else { 4 }, malformed_per_mille: 8, boundary: true };
            {
                // large but shallow trees: more than 1024 / 4096 values, attributes, members and groups
                use crate::wiregen::*;
                let int = |i: u32| WVal::Plain(0x21, i.to_be_bytes().to_vec());
                for n in [1100usize, 2500] {
                    let wide = WMsg { version: 0x0101, op: 0, id: 1, groups: vec![WGroup { tag: 4, attrs: vec![WAttr { name: b"media-supported".to_vec(), vals: (0..n as u32).map(int).collect() }, WAttr { name: b"last".to_vec(), vals: vec![WVal::Plain(0x22, vec![1])] }] }] };
                    out.push(format!("wire {} aabb", show_wmsg(&wide)));
                    let many = WMsg { version: 0x0101, op: 0, id: 1, groups: vec![WGroup { tag: 1, attrs: (0..n).map(|i| WAttr { name: format!("a{}", i).into_bytes(), vals: vec![int(i as u32)] }).collect() }, WGroup { tag: 2, attrs: vec![] }] };
                    out.push(format!("wire {} -", show_wmsg(&many)));
                    let groups = WMsg { version: 0x0101, op: 0, id: 1, groups: (0..n).map(|i| WGroup { tag: [1u8, 2, 4, 5][i % 4], attrs: if i % 7 == 0 { vec![WAttr { name: b"x".to_vec(), vals: vec![int(i as u32)] }] } else { vec![] } }).collect() };
                    out.push(format!("wire {} 03", show_wmsg(&groups)));
                    let members = WMsg { version: 0x0101, op: 0, id: 1, groups: vec![WGroup { tag: 1, attrs: vec![WAttr { name: b"c".to_vec(), vals: vec![WVal::Coll((0..n).map(|i| (format!("m{:05}", i).into_bytes(), vec![int(i as u32)])).collect())] }] }] };
                    out.push(format!("wire {} -", show_wmsg(&members)));
                }
            }
            {
                // every byte value at every position where a tag is expected in a message with two groups, a set,
                // and a collection: after the header, after a delimiter, after a value, after an additional value,
                // after a member name, after a member value, after the end of a collection
                let tok = |tag: u8, name: &[u8], body: &[u8]| -> Vec<u8> {
                    let mut t = vec![tag];
                    t.extend_from_slice(&(name.len() as u16).to_be_bytes());
                    t.extend_from_slice(name);
                    t.extend_from_slice(&(body.len() as u16).to_be_bytes());
                    t.extend_from_slice(body);
                    t
                };
                let pieces: Vec<Vec<u8>> = vec![
                    vec![1, 1, 0, 2, 0, 0, 0, 1], vec![1], tok(0x21, b"a", &[0, 0, 0, 1]), tok(0x21, b"", &[0, 0, 0, 2]), vec![2],
                    tok(0x34, b"c", b""), tok(0x4a, b"", b"m"), tok(0x22, b"", &[1]), tok(0x37, b"", b""), tok(0x44, b"k", b"v"), vec![3],
                ];
                let mut offs = vec![];
                let mut msg: Vec<u8> = vec![];
                for (i, pc) in pieces.iter().enumerate() {
                    if i > 0 {
                        offs.push(msg.len());
                    }
                    msg.extend_from_slice(pc);
                }
                for &o in &offs {
                    for b in 0..=255u8 {
                        // the byte replaces the tag that stood there …
                        let mut m = msg.clone();
                        m[o] = b;
                        out.push(format!("tagpos {} {}", o, hex(&m)));
                        // … or is inserted before it
                        let mut m2 = msg.clone();
                        m2.insert(o, b);
                        out.push(format!("tagpos {} {}", o, hex(&m2)));
                    }
                }
            }
            {
                // bodies of 4095-65535 octets as attribute value, additional value and member value
                use crate::wiregen::*;
                for n in [4095usize, 4096, 4097, 20000, 32767, 32768, 65535] {
                    let long = |t: u8| WVal::Plain(t, vec![if t == 0x30 { 0x03 } else { b'x' }; n]);
                    let w = WMsg { version: 0x0101, op: 0, id: 1, groups: vec![
                        WGroup { tag: 4, attrs: vec![WAttr { name: b"a".to_vec(), vals: vec![long(0x41), WVal::Plain(0x21, vec![0, 0, 0, 1]), long(0x30)] },
                                                     WAttr { name: b"c".to_vec(), vals: vec![WVal::Coll(vec![(b"m".to_vec(), vec![long(0x44)])])] },
                                                     WAttr { name: b"z".to_vec(), vals: vec![WVal::Plain(0x22, vec![1])] }] },
                        WGroup { tag: 2, attrs: vec![WAttr { name: b"after".to_vec(), vals: vec![WVal::Plain(0x21, vec![0, 0, 0, 2])] }] }] };
                    out.push(format!("wire {} 03aa", show_wmsg(&w)));
                }
            }
            for _ in 0..n {
                let mut rr = r.fork();
                let w = crate::wiregen::gen_wmsg(&mut rr, &lim);
                let p = gen_payload(&mut rr);
                out.push(format!("wire {} {}", crate::wiregen::show_wmsg(&w), hex(&p)));
            }
            GenInfo {
                rule: "seeded random wire trees from the RFC 8010 grammar (0-4 groups incl. repeated/empty, 0-4 attributes with 1-4 values, every tag 0x10-0x4a, syntactically valid bodies incl. non-UTF-8 text and rare 255/256/65535-byte bodies, nested collections with multi-valued and duplicate members, duplicate attribute names; ~0.8% of the choices deliberately malformed), serialised by the harness's own serializer, preceded by large shallow trees (1100/2500 values, attributes, groups, members), by bodies of 4095-65535 octets in every position, and by every byte value 0x00-0xff written over, or inserted before, each of the ten tag positions of a message with two groups, a set and a collection (both parsers must reject, naming the byte, exactly when it lies outside 0x01-0x05 and 0x10-0x4a); non-trivial = distinct case lines the parser accepts or rejects with a definite outcome".into(),
                exhaustive: false,
            }
        }
        "C01" | "C03" => {
            let n = if thorough { 20_000 } else { 3_000 };
            let lim = Limits { max_depth: if thorough { 6 } else { 4 }, boundary: true };
            for m in boundary_msgs() {
                if prop == "C03" {
                    out.push(format!("encoded {}", show_msg(&m)));
                } else {
                    out.push(format!("roundtrip {} 0301", show_msg(&m)));
                }
            }
            for i in 0..n {
                let mut rr = r.fork();
                let mut m = gen_msg(&mut rr, &lim);
                if i % 8 == 7 {
                    // outside the constructors' shape: the operation group not first, absent, or no group at all
                    match rr.below(4) {
                        0 => m.groups.rotate_left(1),
                        1 => m.groups.reverse(),
                        2 => m.groups.retain(|g| g.0 != 1),
                        _ => m.groups.insert(0, (*rr.pick(&[2u8, 4, 5]), gen_attrs(&mut rr, &lim, 3))),
                    }
                }
                let p = gen_payload(&mut rr);
                if prop == "C03" {
                    out.push(format!("encoded {}", show_msg(&m)));
                } else {
                    out.push(format!("roundtrip {} {}", show_msg(&m), hex(&p)));
                }
            }
            GenInfo {
                rule: "a deterministic boundary suite (every string-carrying kind, names and member names at lengths 0/1/127/128/255/256/257/32767/32768/32769/65534/65535, with-language totals up to 65535, names that differ from the specially ordered operation attributes by case or one character, those names in other groups) followed by seeded random messages of the public value model (1-5 groups starting with the operation group - every eighth message with the operation group elsewhere, absent, or no group at all; such messages must read back with the first operation group moved to the front and nothing else changed -, repeated/empty groups, 0-6 attributes, all 22 value kinds, homogeneous and mixed sets, collections to the tier's depth with multi-valued members, rare 255/256/65535-byte strings) with random payloads; each built with fresh randomly keyed hash maps; non-trivial = distinct effective case lines".into(),
                exhaustive: false,
            }
        }
        _ => GenInfo { rule: "no generator".into(), exhaustive: false },
    }
}
