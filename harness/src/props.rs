//! Per-property case generation: enumerations and seeded random cases, as case lines.
use crate::exec::CaseResult;
use crate::gen::*;
use crate::rng::Rng;
use crate::text::*;

pub struct GenInfo {
    pub rule: String,
    pub exhaustive: bool,
}

pub fn nontrivial(prop: &str, cr: &CaseResult) -> bool {
    match prop {
        "C16" => true,
        _ => cr.class != "bad-arg",
    }
}

pub fn generate(prop: &str, tier: &str, r: &mut Rng, out: &mut Vec<String>) -> GenInfo {
    let thorough = tier == "thorough";
    match prop {
        "C16" => {
            for c in 0..=0xffffu32 {
                out.push(format!("status {:04x}", c));
            }
            for (name, hi) in crate::registry::ENUMS {
                for c in 0..=*hi {
                    out.push(format!("enum {} {:x}", name, c));
                }
            }
            GenInfo {
                rule: "every 16-bit status code through status_code()/is_success(); every tag byte through both tag enums; every operation id 0..=0xffff; every enum value 0..=300 through from_u64; all are distinct and count as non-trivial".into(),
                exhaustive: true,
            }
        }
        "C02" => {
            use crate::malformed::*;
            short_strings(out, if thorough { &[0, 1, 2, 3, 5, 0x0f, 0x10, 0x13, 0x21, 0x22, 0x34, 0x35, 0x37, 0x4a, 0x4b, 0x80, 0xff] } else { &[0, 3, 0x21, 0x34, 0xff] });
            tag_len_grid(out);
            lang_pairs(out);
            token_sequences(out, if thorough { 5 } else { 4 });
            mutations(out, r, if thorough { 1_000_000 } else { 10_000 });
            for (kind, unit) in FAMILIES {
                let mut sizes: Vec<usize> = vec![1, 2, 3, 100, 1000, 4096 / unit.max(&1)];
                let mut bytes = 16 * 1024;
                while bytes <= 1024 * 1024 {
                    sizes.push(bytes / unit.max(&1));
                    bytes *= 4;
                }
                sizes.push(1024 * 1024 / unit.max(&1));
                sizes.dedup();
                for n in sizes {
                    if n >= 1 {
                        out.push(format!("bomb {} {}", kind, n));
                    }
                }
            }
            GenInfo {
                rule: "enumerations: every string of <= 2 bytes after a valid header and 3-byte strings over a tier-dependent third-byte set; every (tag 0x00-0xff) x (length 0-16, 0xffff) x fill through the value decoder and as a one-attribute message (exact and off-by-one declared length); every inner length pair of the with-language syntaxes x total length 0-16; all sequences of <= k tokens over a 16-token alphabet (k=4 quick, 5 thorough); seeded grammar-aware mutations of well-formed messages; structural bombs (10 families, sizes up to 1 MiB) in a child process. Non-trivial = distinct case lines".into(),
                exhaustive: false,
            }
        }
        "C04" => {
            let n = if thorough { 200_000 } else { 3_000 };
            let lim = crate::wiregen::WLimits { max_depth: if thorough { 6 } else { 4 }, malformed_per_mille: 8, boundary: true };
            for _ in 0..n {
                let mut rr = r.fork();
                let w = crate::wiregen::gen_wmsg(&mut rr, &lim);
                let p = gen_payload(&mut rr);
                out.push(format!("wire {} {}", crate::wiregen::show_wmsg(&w), hex(&p)));
            }
            GenInfo {
                rule: "seeded random wire trees from the RFC 8010 grammar (0-4 groups incl. repeated/empty, 0-4 attributes with 1-4 values, every tag 0x10-0x4a, syntactically valid bodies incl. non-UTF-8 text and rare 255/256/65535-byte bodies, nested collections with multi-valued and duplicate members, duplicate attribute names; ~0.8% of the choices deliberately malformed), serialised by the harness's own serializer; non-trivial = distinct case lines the parser accepts or rejects with a definite outcome".into(),
                exhaustive: false,
            }
        }
        "C01" | "C03" => {
            let n = if thorough { 300_000 } else { 3_000 };
            let lim = Limits { max_depth: if thorough { 6 } else { 4 }, boundary: true };
            for _ in 0..n {
                let mut rr = r.fork();
                let m = gen_msg(&mut rr, &lim);
                let p = gen_payload(&mut rr);
                if prop == "C03" {
                    out.push(format!("encoded {}", show_msg(&m)));
                } else {
                    out.push(format!("roundtrip {} {}", show_msg(&m), hex(&p)));
                }
            }
            GenInfo {
                rule: "seeded random messages of the public value model (1-5 groups starting with the operation group, repeated/empty groups, 0-6 attributes, all 22 value kinds, homogeneous and mixed sets, collections to the tier's depth with multi-valued members, rare 255/256/65535-byte strings) with random payloads; each built with fresh randomly keyed hash maps; non-trivial = distinct effective case lines".into(),
                exhaustive: false,
            }
        }
        _ => GenInfo { rule: "no generator".into(), exhaustive: false },
    }
}
