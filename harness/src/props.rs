//! Per-property case generation: enumerations and seeded random cases, as case lines.
use crate::exec::CaseResult;
use crate::gen::*;
use crate::rng::Rng;
use crate::text::*;

pub struct GenInfo {
    pub rule: String,
    pub exhaustive: bool,
}

pub fn nontrivial(prop: &str, cr: &CaseResult) -> bool {
    match prop {
        "C16" => true,
        _ => cr.class != "bad-arg",
    }
}

pub fn generate(prop: &str, tier: &str, r: &mut Rng, out: &mut Vec<String>) -> GenInfo {
    let thorough = tier == "thorough";
    match prop {
        "C16" => {
            for c in 0..=0xffffu32 {
                out.push(format!("status {:04x}", c));
            }
            for (name, hi) in crate::registry::ENUMS {
                for c in 0..=*hi {
                    out.push(format!("enum {} {:x}", name, c));
                }
            }
            GenInfo {
                rule: "every 16-bit status code through status_code()/is_success(); every tag byte through both tag enums; every operation id 0..=0xffff; every enum value 0..=300 through from_u64; all are distinct and count as non-trivial".into(),
                exhaustive: true,
            }
        }
        "C01" | "C03" => {
            let n = if thorough { 300_000 } else { 3_000 };
            let lim = Limits { max_depth: if thorough { 6 } else { 4 }, boundary: true };
            for _ in 0..n {
                let mut rr = r.fork();
                let m = gen_msg(&mut rr, &lim);
                let p = gen_payload(&mut rr);
                out.push(format!("roundtrip {} {}", show_msg(&m), hex(&p)));
            }
            GenInfo {
                rule: "seeded random messages of the public value model (1-5 groups starting with the operation group, repeated/empty groups, 0-6 attributes, all 22 value kinds, homogeneous and mixed sets, collections to the tier's depth with multi-valued members, rare 255/256/65535-byte strings) with random payloads; each built with fresh randomly keyed hash maps; non-trivial = distinct effective case lines".into(),
                exhaustive: false,
            }
        }
        _ => GenInfo { rule: "no generator".into(), exhaustive: false },
    }
}
