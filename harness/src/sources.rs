//! Scripted byte sources (`Read` / `AsyncRead`) and a tiny executor with a hang watchdog.
use std::collections::VecDeque;
use std::future::Future;
use std::io::{self, Read};
use std::pin::Pin;
use std::sync::atomic::{AtomicBool, Ordering};
use std::sync::{Arc, Mutex};
use std::task::{Context, Poll, Wake, Waker};

use futures_util::io::AsyncRead;

use crate::text::*;

#[derive(Clone, Debug)]
pub enum Ev {
    Data(Vec<u8>),
    Pend,
    Intr,
    Fail(io::ErrorKind),
}

pub fn read_events(args: &[SExp]) -> Option<Vec<Ev>> {
    let mut out = vec![];
    for a in args {
        let l = a.list()?;
        out.push(match l.first()?.atom()? {
            "d" => Ev::Data(unhex(l.get(1)?.atom()?)?),
            "pend" => Ev::Pend,
            "intr" => Ev::Intr,
            "fail" => Ev::Fail(io_kind_of(l.get(1)?.atom()?)?),
            _ => return None,
        });
    }
    Some(out)
}

pub fn show_events(evs: &[Ev]) -> String {
    evs.iter()
        .map(|e| match e {
            Ev::Data(b) => format!("(d {})", hex(b)),
            Ev::Pend => "(pend)".into(),
            Ev::Intr => "(intr)".into(),
            Ev::Fail(k) => format!("(fail {})", io_kind_name(*k)),
        })
        .collect::<Vec<_>>()
        .join(" ")
}

pub struct Script {
    pub events: VecDeque<Ev>,
    pub deferred: bool,
    pub parked: Arc<Mutex<Vec<Waker>>>,
    pub reads: usize,
    pub delivered: usize,
}

impl Script {
    pub fn new(evs: Vec<Ev>, deferred: bool) -> Self {
        Script { events: evs.into(), deferred, parked: Arc::new(Mutex::new(vec![])), reads: 0, delivered: 0 }
    }
    /// one read attempt: Ok(Some(n)) data, Ok(None) pending (async only), Err
    fn step(&mut self, buf: &mut [u8], is_async: bool) -> io::Result<Option<usize>> {
        if buf.is_empty() {
            return Ok(Some(0));
        }
        self.reads += 1;
        loop {
            match self.events.front_mut() {
                None => return Ok(Some(0)),
                Some(Ev::Data(b)) => {
                    if b.is_empty() {
                        self.events.pop_front();
                        continue;
                    }
                    let n = b.len().min(buf.len());
                    buf[..n].copy_from_slice(&b[..n]);
                    b.drain(..n);
                    if b.is_empty() {
                        self.events.pop_front();
                    }
                    self.delivered += n;
                    return Ok(Some(n));
                }
                Some(Ev::Pend) => {
                    self.events.pop_front();
                    if is_async {
                        return Ok(None);
                    }
                    continue;
                }
                Some(Ev::Intr) => {
                    self.events.pop_front();
                    return Err(io::Error::new(io::ErrorKind::Interrupted, "scripted"));
                }
                Some(Ev::Fail(k)) => {
                    let k = *k;
                    self.events.pop_front();
                    return Err(io::Error::new(k, "scripted"));
                }
            }
        }
    }
}

impl Read for Script {
    fn read(&mut self, buf: &mut [u8]) -> io::Result<usize> {
        self.step(buf, false).map(|o| o.unwrap_or(0))
    }
}

impl AsyncRead for Script {
    fn poll_read(mut self: Pin<&mut Self>, cx: &mut Context<'_>, buf: &mut [u8]) -> Poll<io::Result<usize>> {
        match self.step(buf, true) {
            Ok(Some(n)) => Poll::Ready(Ok(n)),
            Ok(None) => {
                if self.deferred {
                    self.parked.lock().unwrap().push(cx.waker().clone());
                } else {
                    cx.waker().wake_by_ref();
                }
                Poll::Pending
            }
            Err(e) => Poll::Ready(Err(e)),
        }
    }
}

struct Flag(AtomicBool);
impl Wake for Flag {
    fn wake(self: Arc<Self>) {
        self.0.store(true, Ordering::SeqCst);
    }
    fn wake_by_ref(self: &Arc<Self>) {
        self.0.store(true, Ordering::SeqCst);
    }
}

pub enum Hang {
    NoWakeup(usize),
    TooManyPolls(usize),
}

/// poll to completion; deferred wake-ups are delivered after the poll that returned Pending
pub fn run<F: Future>(fut: F, parked: &Arc<Mutex<Vec<Waker>>>, max_polls: usize) -> Result<F::Output, Hang> {
    let flag = Arc::new(Flag(AtomicBool::new(false)));
    let waker = Waker::from(flag.clone());
    let mut cx = Context::from_waker(&waker);
    let mut fut = Box::pin(fut);
    let mut polls = 0;
    loop {
        polls += 1;
        match fut.as_mut().poll(&mut cx) {
            Poll::Ready(x) => return Ok(x),
            Poll::Pending => {
                let ws: Vec<Waker> = std::mem::take(&mut *parked.lock().unwrap());
                for w in ws {
                    w.wake();
                }
                if !flag.0.swap(false, Ordering::SeqCst) {
                    return Err(Hang::NoWakeup(polls));
                }
                if polls > max_polls {
                    return Err(Hang::TooManyPolls(polls));
                }
            }
        }
    }
}
