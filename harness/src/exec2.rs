//! Further ops (added per property).
use ipp::prelude::*;

use crate::exec::*;
use crate::text::*;
use crate::wiregen;

pub fn exec2(prop: &str, op: &str, line: &str, args: &[SExp]) -> Option<CaseResult> {
    match op {
        "encoded" => Some(op_encoded(line, args)),
        "wire" => Some(op_wire(prop, line, args)),
        "bomb" => Some(op_bomb(line, args)),
        _ => crate::exec3::exec3(prop, op, line, args),
    }
}

fn badarg(line: &str, why: &str) -> CaseResult {
    CaseResult { line: line.to_string(), result: format!("(bad-arg {})", why), oracle: None, class: "bad-arg".into() }
}

/// `encoded MSG [bytes]`: the instance's own listing and the bytes it produces; judged by the model
/// encoder and by the independent decoder on the Lean side
fn op_encoded(line: &str, args: &[SExp]) -> CaseResult {
    let m = match args.first().and_then(read_msg) {
        Some(m) => m,
        None => return badarg(line, "encoded"),
    };
    let req = match build(&m) {
        Some(r) => r,
        None => return badarg(line, "group-tag"),
    };
    let (listing, badkey) = unbuild(req.header(), req.attributes(), true);
    let bytes = req.to_bytes();
    let eff = format!("encoded {} {}", show_msg(&listing), hex(&bytes));
    let mut oracle = if badkey { Some("map key differs from stored attribute name".into()) } else { None };
    if oracle.is_none() {
        oracle = reencode_history(req, &bytes);
    }
    CaseResult { line: eff, result: "match".into(), oracle, class: "encoded".into() }
}

/// History inside one object: the instance that has just been encoded is changed in place through the public
/// accessors and encoded again, by every encoding entry point.  Expectations come from RFC 8010 alone (the first
/// eight octets are version, operation/status, request-id; a message without attributes is the header, an empty
/// operation group and the end tag - theorem `C01.opFirst_without_operation_group`), not from the library.
fn reencode_history(mut req: IppRequestResponse, first: &[u8]) -> Option<String> {
    use std::io::Read;
    if first.len() < 8 {
        return Some("encoding shorter than the 8-octet header".into());
    }
    // (1) unchanged object, second call and the stream entry point: same bytes
    let again = req.to_bytes();
    if again[..] != first[..] {
        return Some(format!("second to_bytes() of the same object differs: {} vs {}", clip(&hex(&again)), clip(&hex(first))));
    }
    // (2) header changed through header_mut(): only the first eight octets change, to the new header
    let (v0, o0, i0) = (req.header().version.0, req.header().operation_or_status, req.header().request_id);
    let (v1, o1, i1) = (v0 ^ 0x0300, o0 ^ 0x0041, i0.wrapping_add(0x0102_0305));
    req.header_mut().version = IppVersion(v1);
    req.header_mut().operation_or_status = o1;
    req.header_mut().request_id = i1;
    let mut want = Vec::with_capacity(first.len());
    want.extend_from_slice(&v1.to_be_bytes());
    want.extend_from_slice(&o1.to_be_bytes());
    want.extend_from_slice(&i1.to_be_bytes());
    want.extend_from_slice(&first[8..]);
    let got = req.to_bytes();
    if got[..] != want[..] {
        return Some(format!(
            "after header_mut() (version {:04x}, op/status {:04x}, request-id {:08x}) to_bytes() starts {} instead of {}",
            v1, o1, i1, hex(&got[..got.len().min(8)]), hex(&want[..8])
        ));
    }
    // (3) … and back, then every group removed through attributes_mut(): header, empty operation group, end tag
    req.header_mut().version = IppVersion(v0);
    req.header_mut().operation_or_status = o0;
    req.header_mut().request_id = i0;
    let back = req.to_bytes();
    if back[..] != first[..] {
        return Some(format!("after restoring the header to_bytes() differs from the first encoding: {}", clip(&hex(&back))));
    }
    req.attributes_mut().groups_mut().clear();
    let mut want = first[..8].to_vec();
    want.extend_from_slice(&[0x01, 0x03]);
    let got = req.to_bytes();
    if got[..] != want[..] {
        return Some(format!("after removing every group through attributes_mut() to_bytes() is {} instead of {}", clip(&hex(&got)), hex(&want)));
    }
    // (4) the stream entry point of the changed object delivers the same bytes
    let mut streamed = vec![];
    if req.into_read().read_to_end(&mut streamed).is_err() || streamed != want {
        return Some(format!("into_read() of the changed object delivers {} instead of {}", clip(&hex(&streamed)), hex(&want)));
    }
    None
}

/// `wire WMSG payload`: a wire tree serialised by the harness, read by the real parser
fn op_wire(_prop: &str, line: &str, args: &[SExp]) -> CaseResult {
    let (w, payload) = match (args.first().and_then(wiregen::read_wmsg), args.get(1).and_then(|a| a.atom()).and_then(unhex)) {
        (Some(w), Some(p)) => (w, p),
        _ => return badarg(line, "wire"),
    };
    let mut bytes = wiregen::ser(&w);
    bytes.extend_from_slice(&payload);
    let r = parse_flat(&bytes);
    if let Ok((h, a, _)) = &r {
        exercise_attrs(h, a);
    }
    let (ptext, badkey) = parsed_text(r);
    let mut oracle = if badkey { Some("map key differs from stored attribute name".to_string()) } else { None };
    let (atext, _) = parsed_text(parse_flat_async(&bytes));
    if atext != ptext {
        oracle = Some(format!("async parser differs: {} vs {}", clip(&atext), clip(&ptext)));
    }
    let class = outcome_class(&ptext);
    CaseResult { line: line.into(), result: ptext, oracle, class }
}

#[allow(dead_code)]
fn _unused(_: &IppValue) {}

// ---------------------------------------------------------------------------------------------
// structural bombs: run in a child process so that an abort is observed, not suffered

/// nesting depth of a value without recursion
pub fn depth_iter(v: &IppValue) -> usize {
    let mut max = 0;
    let mut stack: Vec<(&IppValue, usize)> = vec![(v, 1)];
    while let Some((v, d)) = stack.pop() {
        if d > max {
            max = d;
        }
        match v {
            IppValue::Array(vs) => {
                for e in vs {
                    stack.push((e, d + 1));
                }
            }
            IppValue::Collection(m) => {
                for e in m.values() {
                    stack.push((e, d + 1));
                }
            }
            _ => {}
        }
    }
    max
}

pub fn summary(r: &Result<(IppHeader, IppAttributes, Vec<u8>), ipp::parser::IppParseError>) -> String {
    match r {
        Ok((_, a, rest)) => {
            let groups = a.groups().len();
            let mut attrs = 0;
            let mut depth = 0;
            for g in a.groups() {
                attrs += g.attributes().len();
                for at in g.attributes().values() {
                    depth = depth.max(depth_iter(at.value()));
                }
            }
            format!("(ok groups={} attrs={} depth={} rest={})", groups, attrs, depth, rest.len())
        }
        Err(e) => show_parse_err(e),
    }
}

/// child side: parse, report, then display / re-encode / traverse / clone / drop, reporting each stage
pub fn bomb_child(kind: &str, n: usize) {
    use std::io::Write;
    let bytes = match crate::malformed::family(kind, n) {
        Some(b) => b,
        None => std::process::exit(3),
    };
    let out = std::io::stdout();
    let r = parse_flat(&bytes);
    println!("parsed {}", summary(&r));
    out.lock().flush().ok();
    if let Ok((h, a, _)) = r {
        let mut n = 0usize;
        for g in a.groups() {
            for at in g.attributes().values() {
                n += format!("{}", at.value()).len();
            }
        }
        println!("display ok {}", n);
        out.lock().flush().ok();
        n = h.to_bytes().len() + a.to_bytes().len();
        println!("encode ok {}", n);
        out.lock().flush().ok();
        n = 0;
        for g in a.groups() {
            for at in g.attributes().values() {
                for e in at.value() {
                    n += e.to_tag() as usize;
                }
            }
        }
        println!("traverse ok {}", n);
        out.lock().flush().ok();
        let c = a.clone();
        println!("clone ok {}", c.groups().len());
        out.lock().flush().ok();
        drop(c);
        drop(a);
        println!("drop ok");
        out.lock().flush().ok();
    }
}

fn op_bomb(line: &str, args: &[SExp]) -> CaseResult {
    let (kind, n) = match (args.first().and_then(|a| a.atom()), args.get(1).and_then(|a| a.atom()).and_then(|s| s.parse::<usize>().ok())) {
        (Some(k), Some(n)) => (k.to_string(), n),
        _ => return badarg(line, "bomb"),
    };
    let len = match crate::malformed::family(&kind, n) {
        Some(b) => b.len(),
        None => return badarg(line, "family"),
    };
    let exe = std::env::current_exe().unwrap();
    let t0 = std::time::Instant::now();
    let o = std::process::Command::new(exe).arg("bombchild").arg(&kind).arg(n.to_string()).output();
    let secs = t0.elapsed().as_secs_f64();
    let o = match o {
        Ok(o) => o,
        Err(e) => return badarg(line, &format!("spawn: {}", e)),
    };
    let text = String::from_utf8_lossy(&o.stdout).to_string();
    let lines: Vec<&str> = text.lines().collect();
    let parsed = lines.iter().find(|l| l.starts_with("parsed ")).map(|l| l[7..].to_string());
    let last_stage = lines.last().map(|l| l.split(' ').next().unwrap_or("").to_string()).unwrap_or_else(|| "start".into());
    let depth: usize = parsed.as_deref().and_then(|p| p.split("depth=").nth(1)).and_then(|s| s.split(' ').next()).and_then(|s| s.parse().ok()).unwrap_or(0);
    let mut oracle = None;
    if !o.status.success() {
        use std::os::unix::process::ExitStatusExt;
        let how = match o.status.signal() {
            Some(s) => format!("signal {}", s),
            None => format!("exit status {:?}", o.status.code()),
        };
        oracle = Some(match &parsed {
            Some(_) => format!("process aborted ({}) after parse returned, while the result was being {} (input {} bytes, nesting depth {})", how, next_stage(&last_stage), len, depth),
            None => format!("process aborted ({}) inside parse (input {} bytes)", how, len),
        });
    } else if secs > 60.0 {
        oracle = Some(format!("parsing and handling {} bytes took {:.0} s", len, secs));
    }
    let result = parsed.unwrap_or_else(|| "(abort)".into());
    let class = format!("bomb-{}", kind);
    CaseResult { line: line.into(), result, oracle, class }
}

fn next_stage(last: &str) -> &'static str {
    match last {
        "parsed" => "displayed",
        "display" => "re-encoded",
        "encode" => "traversed",
        "traverse" => "cloned",
        "clone" => "dropped",
        _ => "handled",
    }
}
