//! The malformed stream of C02: enumerations, token sequences, grammar-aware mutations, structural bombs.
use crate::gen::*;
use crate::rng::Rng;
use crate::text::*;

pub const HEADER: [u8; 8] = [1, 1, 0, 2, 0, 0, 0, 1];

fn with_header(body: &[u8]) -> String {
    let mut v = HEADER.to_vec();
    v.extend_from_slice(body);
    format!("parse {}", hex(&v))
}

/// every string of up to `k` bytes after a valid header (third byte from `third` only when k = 3)
pub fn short_strings(out: &mut Vec<String>, third: &[u8]) {
    out.push(with_header(&[]));
    for a in 0..=255u8 {
        out.push(with_header(&[a]));
    }
    for a in 0..=255u8 {
        for b in 0..=255u8 {
            out.push(with_header(&[a, b]));
        }
    }
    for a in 0..=255u8 {
        for b in 0..=255u8 {
            for c in third {
                out.push(with_header(&[a, b, *c]));
            }
        }
    }
}

pub fn fills(n: usize) -> Vec<Vec<u8>> {
    vec![vec![0u8; n], vec![0xffu8; n], (0..n).map(|i| (i as u8).wrapping_mul(37).wrapping_add(1)).collect(), vec![0x61; n]]
}

/// (tag 0x00-0xff) x (length 0-16, 0xffff) x fill: as a single-attribute message and through the value decoder
pub fn tag_len_grid(out: &mut Vec<String>) {
    for tag in 0..=255u8 {
        for len in (0..=16usize).chain([0xffffusize]) {
            for (fi, fill) in fills(len).into_iter().enumerate() {
                if len == 0xffff && fi > 1 {
                    continue;
                }
                out.push(format!("decode_value {:02x} {}", tag, hex(&fill)));
                let mut m = vec![1u8, tag, 0, 1, b'a'];
                m.extend_from_slice(&(len as u16).to_be_bytes());
                m.extend_from_slice(&fill);
                m.push(3);
                out.push(with_header(&m));
                // the declared length one more than what follows
                let mut m2 = vec![1u8, tag, 0, 1, b'a'];
                m2.extend_from_slice(&((len as u16).wrapping_add(1)).to_be_bytes());
                m2.extend_from_slice(&fill);
                out.push(with_header(&m2));
            }
        }
    }
}

/// text that grows when decoded: long runs of bytes that are not UTF-8 (each becomes a 3-byte U+FFFD), for every
/// string-carrying syntax, through the decoder and as a message (the result is displayed and re-encoded)
/// valid UTF-8 made of w-byte characters after `o` ASCII bytes: every byte offset T with (T - o) mod w != 0 falls
/// inside a character, so between them the strings for all (w, o) put a character across every offset; through
/// the value decoder (display, re-encode, clone …) and as value and name of a one-attribute message
pub fn multibyte(out: &mut Vec<String>) {
    let chars: [&[u8]; 3] = ["é".as_bytes(), "日".as_bytes(), "😀".as_bytes()];
    for total in [300usize, 1500, 5000, 65535] {
        for ch in chars {
            let w = ch.len();
            for o in 0..w {
                let mut b: Vec<u8> = vec![b'a'; o];
                while b.len() + w <= total {
                    b.extend_from_slice(ch);
                }
                for tag in [0x41u8, 0x44, 0x30, 0x45, 0x42] {
                    if total == 65535 && tag != 0x41 && tag != 0x44 {
                        continue;
                    }
                    out.push(format!("decode_value {:02x} {}", tag, hex(&b)));
                }
                // with-language: language `en`, text of the same shape (inner lengths fit in the total)
                let k = b.len().min(65000);
                let t = &b[..if k > o { o + (k - o) / w * w } else { k }];
                let mut wl = vec![0u8, 2, b'e', b'n'];
                wl.extend_from_slice(&(t.len() as u16).to_be_bytes());
                wl.extend_from_slice(t);
                out.push(format!("decode_value 35 {}", hex(&wl)));
                if total <= 5000 {
                    // as value and as name of an attribute in a message
                    let mut m = vec![1u8, 0x41];
                    m.extend_from_slice(&(b.len() as u16).to_be_bytes());
                    m.extend_from_slice(&b);
                    m.extend_from_slice(&(b.len() as u16).to_be_bytes());
                    m.extend_from_slice(&b);
                    m.push(3);
                    out.push(with_header(&m));
                }
            }
        }
    }
}

/// History inside one stream: several attributes in one message whose name (and value) lengths rise, fall or repeat
/// across the sizes at which a reader that reused or grew a scratch buffer would change behaviour.
pub fn length_sequences(out: &mut Vec<String>) {
    const SIZES: [usize; 20] = [0, 1, 63, 64, 65, 255, 256, 257, 300, 400, 511, 512, 513, 1000, 1024, 1025, 2047, 2049, 4095, 4097];
    let attr = |m: &mut Vec<u8>, nl: usize, vl: usize, i: usize| {
        m.push(0x41);
        m.extend_from_slice(&(nl as u16).to_be_bytes());
        m.extend(std::iter::repeat(b'a' + (i % 26) as u8).take(nl));
        m.extend_from_slice(&(vl as u16).to_be_bytes());
        m.extend(std::iter::repeat(b'0' + (i % 10) as u8).take(vl));
    };
    // every ordered pair of sizes as (first name, second name), and the same for values
    for (i, a) in SIZES.iter().enumerate() {
        for (j, b) in SIZES.iter().enumerate() {
            let _ = (i, j);
            let mut m = vec![1u8];
            attr(&mut m, (*a).max(1), 2, 0);
            attr(&mut m, (*b).max(1), 2, 1);
            m.push(3);
            out.push(with_header(&m));
            let mut m = vec![1u8];
            attr(&mut m, 1, *a, 0);
            attr(&mut m, 2, *b, 1);
            m.push(3);
            out.push(with_header(&m));
        }
    }
    // longer runs: rising, falling, rising by one, alternating
    let runs: [&[usize]; 6] = [
        &[200, 300, 400, 500, 600, 700], &[700, 600, 500, 400, 300, 200], &[255, 256, 257, 258, 259], &[4095, 4096, 4097],
        &[300, 10, 400, 10, 500, 10, 8192, 10, 8193], &[256, 512, 1024, 2048, 4096, 8192, 16384],
    ];
    for run in runs {
        let mut m = vec![1u8];
        for (i, n) in run.iter().enumerate() {
            attr(&mut m, *n, 3, i);
        }
        m.push(3);
        out.push(with_header(&m));
        let mut m = vec![1u8];
        for (i, n) in run.iter().enumerate() {
            attr(&mut m, 1 + i, *n, i);
        }
        m.push(3);
        out.push(with_header(&m));
    }
}

pub fn inflating(out: &mut Vec<String>) {
    for n in [21840usize, 21846, 32768, 65535] {
        for tag in [0x30u8, 0x41, 0x42, 0x44, 0x45, 0x46, 0x47, 0x48, 0x49, 0x4a, 0x2f] {
            out.push(format!("decode_value {:02x} {}", tag, hex(&vec![0xffu8; n])));
        }
        for tag in [0x35u8, 0x36] {
            // language empty, text of n - 4 invalid bytes; and both halves invalid
            let mut b = vec![0u8, 0];
            let t = n - 4;
            b.extend_from_slice(&(t as u16).to_be_bytes());
            b.extend(std::iter::repeat(0xffu8).take(t));
            out.push(format!("decode_value {:02x} {}", tag, hex(&b)));
            let half = (n - 4) / 2;
            let mut b2 = (half as u16).to_be_bytes().to_vec();
            b2.extend(std::iter::repeat(0xc3u8).take(half));
            b2.extend_from_slice(&(half as u16).to_be_bytes());
            b2.extend(std::iter::repeat(0xe2u8).take(half));
            out.push(format!("decode_value {:02x} {}", tag, hex(&b2)));
            let mut m = vec![1u8, tag, 0, 1, b'a'];
            m.extend_from_slice(&(b.len() as u16).to_be_bytes());
            m.extend_from_slice(&b);
            m.push(3);
            out.push(with_header(&m));
        }
        // a long non-UTF-8 attribute name and member name
        let name = vec![0xfeu8; n.min(65535)];
        let mut m = vec![1u8, 0x21];
        m.extend_from_slice(&(name.len() as u16).to_be_bytes());
        m.extend_from_slice(&name);
        m.extend_from_slice(&[0, 4, 0, 0, 0, 1, 3]);
        out.push(with_header(&m));
    }
}

/// every inner length pair of the with-language syntaxes, against every total body length
pub fn lang_pairs(out: &mut Vec<String>) {
    let lens: Vec<u16> = (0..=6).chain([0xfffe, 0xffff, 0x8000, 0x100]).collect();
    for tag in [0x35u8, 0x36] {
        for l in &lens {
            for t in &lens {
                for total in 0..=16usize {
                    let mut b = vec![];
                    b.extend_from_slice(&l.to_be_bytes());
                    let ll = (*l as usize).min(6);
                    b.extend(std::iter::repeat(b'l').take(ll));
                    b.extend_from_slice(&t.to_be_bytes());
                    b.extend(std::iter::repeat(b't').take((*t as usize).min(6)));
                    b.resize(total, 0x00);
                    out.push(format!("decode_value {:02x} {}", tag, hex(&b)));
                }
            }
        }
    }
}

pub fn alphabet() -> Vec<Vec<u8>> {
    let tok = |tag: u8, name: &[u8], body: &[u8]| {
        let mut v = vec![tag];
        v.extend_from_slice(&(name.len() as u16).to_be_bytes());
        v.extend_from_slice(name);
        v.extend_from_slice(&(body.len() as u16).to_be_bytes());
        v.extend_from_slice(body);
        v
    };
    vec![
        vec![1],
        vec![2],
        vec![3],
        vec![4],
        vec![5],
        tok(0x21, b"a", &[0, 0, 0, 5]),
        tok(0x21, b"", &[0, 0, 0, 6]),
        tok(0x44, b"k", b"w"),
        tok(0x34, b"c", b""),
        tok(0x34, b"", b""),
        tok(0x4a, b"", b"m"),
        tok(0x4a, b"", b"n"),
        tok(0x37, b"", b""),
        tok(0x13, b"", b""),
        vec![0x00],
        tok(0x35, b"", &[0, 1, b'e']),
    ]
}

/// all sequences of up to k tokens over the 16-token alphabet
pub fn token_sequences(out: &mut Vec<String>, k: usize) {
    let al = alphabet();
    let mut idx: Vec<usize> = vec![];
    loop {
        let mut body = vec![];
        for i in &idx {
            body.extend_from_slice(&al[*i]);
        }
        out.push(with_header(&body));
        // next sequence in length-lexicographic order
        let mut pos = idx.len();
        loop {
            if pos == 0 {
                if idx.len() == k {
                    return;
                }
                idx = vec![0; idx.len() + 1];
                break;
            }
            pos -= 1;
            if idx[pos] + 1 < al.len() {
                idx[pos] += 1;
                for j in pos + 1..idx.len() {
                    idx[j] = 0;
                }
                break;
            }
        }
    }
}

/// positions of the fields of a well-formed message: (offset of tag, offsets of name len, value len, end)
pub fn field_offsets(bytes: &[u8]) -> Vec<(usize, usize, usize, usize)> {
    let mut out = vec![];
    let mut i = 8;
    while i < bytes.len() {
        let t = bytes[i];
        if t <= 0x0f {
            if t == 3 {
                break;
            }
            i += 1;
            continue;
        }
        if i + 3 > bytes.len() {
            break;
        }
        let nl = u16::from_be_bytes([bytes[i + 1], bytes[i + 2]]) as usize;
        let vo = i + 3 + nl;
        if vo + 2 > bytes.len() {
            break;
        }
        let vl = u16::from_be_bytes([bytes[vo], bytes[vo + 1]]) as usize;
        let end = vo + 2 + vl;
        if end > bytes.len() {
            break;
        }
        out.push((i, i + 1, vo, end));
        i = end;
    }
    out
}

/// grammar-aware mutations of a well-formed message
pub fn mutate(r: &mut Rng, bytes: &[u8]) -> Vec<u8> {
    let mut b = bytes.to_vec();
    let fields = field_offsets(&b);
    let nmut = r.range(1, 2);
    for _ in 0..nmut {
        if fields.is_empty() || b.len() < 10 {
            let p = r.below(b.len() as u64) as usize;
            b[p] = r.next() as u8;
            continue;
        }
        let (t, nlo, vlo, end) = *r.pick(&fields);
        if end > b.len() || vlo + 2 > b.len() {
            continue;
        }
        match r.below(9) {
            0 => {
                // length field +-1 / 0 / max
                let off = if r.chance(1, 2) { nlo } else { vlo };
                let cur = u16::from_be_bytes([b[off], b[off + 1]]);
                let nv = *r.pick(&[cur.wrapping_add(1), cur.wrapping_sub(1), 0, 0xffff, cur.wrapping_mul(2)]);
                b[off..off + 2].copy_from_slice(&nv.to_be_bytes());
            }
            1 => {
                let k = r.below(b.len() as u64 + 1) as usize;
                b.truncate(k);
            }
            2 => {
                // delete a field
                b.drain(t..end);
            }
            3 => {
                // duplicate a field
                let f = b[t..end].to_vec();
                let at = r.pick(&fields).0.min(b.len());
                for (i, x) in f.into_iter().enumerate() {
                    b.insert(at + i, x);
                }
            }
            4 => {
                // splice a field from elsewhere over this one
                let (t2, _, _, e2) = *r.pick(&fields);
                if e2 <= b.len() {
                    let f = b[t2..e2].to_vec();
                    b.splice(t..end.min(b.len()), f);
                }
            }
            5 => {
                // tag substitution
                b[t] = if r.chance(1, 2) { *r.pick(&[0x34u8, 0x37, 0x4a, 0x21, 0x35, 0x36, 0x31, 0x32, 0x33, 0x22, 0x13, 0x01, 0x03, 0x00, 0x0f, 0x4b, 0xff]) } else { r.next() as u8 };
            }
            6 => {
                // inner length of a with-language body or any body byte
                if vlo + 2 < end && end <= b.len() {
                    let p = vlo + 2 + r.below((end - vlo - 2) as u64) as usize;
                    b[p] = *r.pick(&[0u8, 0xff, 0x80, 1]);
                }
            }
            7 => {
                // insert a delimiter or garbage byte at a field boundary
                b.insert(t, *r.pick(&[1u8, 2, 3, 4, 5, 0, 6, 0x10, 0x7f]));
            }
            _ => {
                let p = r.below(b.len() as u64) as usize;
                b[p] = r.next() as u8;
            }
        }
        if b.len() < 8 {
            break;
        }
    }
    b
}

pub fn mutations(out: &mut Vec<String>, r: &mut Rng, n: usize) {
    let lim = Limits { max_depth: 3, boundary: false };
    let mut i = 0;
    while i < n {
        let mut rr = r.fork();
        let m = gen_msg(&mut rr, &lim);
        let req = match build(&m) {
            Some(q) => q,
            None => continue,
        };
        let mut bytes = req.to_bytes().to_vec();
        bytes.extend_from_slice(&gen_payload(&mut rr));
        for _ in 0..8 {
            let mb = mutate(&mut rr, &bytes);
            out.push(format!("parse {}", hex(&mb)));
            i += 1;
        }
    }
}

/// size-parameterised families (C02 bombs, C15 cost): bytes of family `kind` with parameter n
pub fn family(kind: &str, n: usize) -> Option<Vec<u8>> {
    let mut b = HEADER.to_vec();
    b.push(1);
    let tok = |b: &mut Vec<u8>, tag: u8, name: &[u8], body: &[u8]| {
        b.push(tag);
        b.extend_from_slice(&(name.len() as u16).to_be_bytes());
        b.extend_from_slice(name);
        b.extend_from_slice(&(body.len() as u16).to_be_bytes());
        b.extend_from_slice(body);
    };
    match kind {
        // nested collections: each level = begin (5 or 6 bytes) + member name (6) ... + end (5): 16 bytes per level
        "depth" => {
            tok(&mut b, 0x34, b"c", b"");
            for _ in 1..n {
                tok(&mut b, 0x4a, b"", b"m");
                tok(&mut b, 0x34, b"", b"");
            }
            tok(&mut b, 0x4a, b"", b"m");
            tok(&mut b, 0x21, b"", &[0, 0, 0, 1]);
            for _ in 0..n {
                tok(&mut b, 0x37, b"", b"");
            }
        }
        // one attribute with n additional values
        "width" => {
            tok(&mut b, 0x21, b"a", &[0, 0, 0, 0]);
            for i in 0..n {
                tok(&mut b, 0x21, b"", &(i as u32).to_be_bytes());
            }
        }
        // n distinct attributes
        "attrs" => {
            for i in 0..n {
                tok(&mut b, 0x21, format!("a{}", i).as_bytes(), &[0, 0, 0, 1]);
            }
        }
        // n times the same attribute name
        "dupattrs" => {
            for _ in 0..n {
                tok(&mut b, 0x21, b"a", &[0, 0, 0, 1]);
            }
        }
        // n groups
        "groups" => {
            for i in 0..n {
                b.push([1u8, 2, 4, 5][i % 4]);
            }
        }
        // one collection with n members
        "members" => {
            tok(&mut b, 0x34, b"c", b"");
            for i in 0..n {
                tok(&mut b, 0x4a, b"", format!("m{}", i).as_bytes());
                tok(&mut b, 0x21, b"", &[0, 0, 0, 1]);
            }
            tok(&mut b, 0x37, b"", b"");
        }
        // n unclosed collection begins (malformed)
        "unclosed" => {
            tok(&mut b, 0x34, b"c", b"");
            for _ in 1..n {
                tok(&mut b, 0x34, b"", b"");
            }
        }
        // n end-collection tokens without begins (malformed)
        "ends" => {
            tok(&mut b, 0x21, b"a", &[0, 0, 0, 1]);
            for _ in 0..n {
                tok(&mut b, 0x37, b"", b"");
            }
        }
        // values of maximal length, n / 65535 of them
        "bigvalues" => {
            let body = vec![0x61u8; 65535];
            for i in 0..(n / 65535).max(1) {
                tok(&mut b, 0x41, format!("t{}", i).as_bytes(), &body);
            }
        }
        // set of n collections
        "collset" => {
            tok(&mut b, 0x34, b"c", b"");
            tok(&mut b, 0x37, b"", b"");
            for _ in 0..n {
                tok(&mut b, 0x34, b"", b"");
                tok(&mut b, 0x4a, b"", b"m");
                tok(&mut b, 0x22, b"", &[1]);
                tok(&mut b, 0x37, b"", b"");
            }
        }
        // nested collections whose member on every level has two values (the child collection and an integer)
        "deepsets" => {
            tok(&mut b, 0x34, b"c", b"");
            for _ in 1..n {
                tok(&mut b, 0x4a, b"", b"m");
                tok(&mut b, 0x34, b"", b"");
            }
            tok(&mut b, 0x4a, b"", b"m");
            tok(&mut b, 0x21, b"", &[0, 0, 0, 1]);
            tok(&mut b, 0x21, b"", &[0, 0, 0, 2]);
            for i in 0..n {
                tok(&mut b, 0x37, b"", b"");
                if i + 1 < n {
                    tok(&mut b, 0x21, b"", &[0, 0, 0, 3]);
                }
            }
        }
        // one attribute with n values first, then n attributes with one value each (what one attribute needed must
        // not be provisioned for every later one)
        "widethenmany" => {
            tok(&mut b, 0x21, b"w", &[0, 0, 0, 0]);
            for i in 0..n {
                tok(&mut b, 0x21, b"", &(i as u32).to_be_bytes());
            }
            for i in 0..n {
                tok(&mut b, 0x21, format!("a{}", i).as_bytes(), &[0, 0, 0, 1]);
            }
        }
        // one group with n attributes, then n empty groups (what one group needed must not be provisioned for every
        // later one)
        "widegroupthenmany" => {
            for i in 0..n {
                tok(&mut b, 0x21, format!("a{}", i).as_bytes(), &[0, 0, 0, 1]);
            }
            for i in 0..n {
                b.push([2u8, 4, 5, 1][i % 4]);
            }
        }
        // n groups, each opening a collection it never closes (malformed): what is left open must not be walked again
        // at every later delimiter
        "opengroups" => {
            for i in 0..n {
                if i > 0 {
                    b.push([1u8, 2, 4, 5][i % 4]);
                }
                tok(&mut b, 0x34, b"c", b"");
                tok(&mut b, 0x4a, b"", b"m");
                tok(&mut b, 0x21, b"", &[0, 0, 0, 1]);
            }
        }
        // one long value first, then n small additional values (whatever was read earlier must not tax later reads)
        "longfirst" => {
            tok(&mut b, 0x41, b"t", &vec![0x61u8; 60000]);
            for i in 0..n {
                tok(&mut b, 0x21, b"", &(i as u32).to_be_bytes());
            }
        }
        // attributes whose names are long runs of bytes that are not UTF-8 (n = total bytes of such names)
        "badnames" => {
            let l = 16000usize.min(n.max(1));
            let name = vec![0xffu8; l];
            for _ in 0..(n / l).max(1) {
                tok(&mut b, 0x21, &name, &[0, 0, 0, 1]);
            }
        }
        // one long non-UTF-8 text value per attribute
        "badtext" => {
            let l = 60000usize.min(n.max(1));
            let body = vec![0xc3u8; l];
            for i in 0..(n / l).max(1) {
                tok(&mut b, 0x41, format!("t{}", i).as_bytes(), &body);
            }
        }
        _ => return None,
    }
    b.push(3);
    Some(b)
}

pub const FAMILIES: &[(&str, usize)] = &[
    ("depth", 16), ("width", 9), ("attrs", 11), ("dupattrs", 10), ("groups", 1), ("members", 15),
    ("unclosed", 5), ("ends", 5), ("bigvalues", 1), ("collset", 21), ("deepsets", 25), ("badnames", 1), ("badtext", 1), ("longfirst", 9), ("widethenmany", 20), ("opengroups", 23), ("widegroupthenmany", 13),
];
