//! Counting global allocator (C15): bytes requested and allocator calls.
use std::alloc::{GlobalAlloc, Layout, System};
use std::sync::atomic::{AtomicU64, Ordering};

pub static BYTES: AtomicU64 = AtomicU64::new(0);
pub static CALLS: AtomicU64 = AtomicU64::new(0);

pub struct Counting;

unsafe impl GlobalAlloc for Counting {
    unsafe fn alloc(&self, l: Layout) -> *mut u8 {
        BYTES.fetch_add(l.size() as u64, Ordering::Relaxed);
        CALLS.fetch_add(1, Ordering::Relaxed);
        System.alloc(l)
    }
    unsafe fn dealloc(&self, p: *mut u8, l: Layout) {
        System.dealloc(p, l)
    }
    unsafe fn alloc_zeroed(&self, l: Layout) -> *mut u8 {
        BYTES.fetch_add(l.size() as u64, Ordering::Relaxed);
        CALLS.fetch_add(1, Ordering::Relaxed);
        System.alloc_zeroed(l)
    }
    unsafe fn realloc(&self, p: *mut u8, l: Layout, new: usize) -> *mut u8 {
        BYTES.fetch_add(new as u64, Ordering::Relaxed);
        CALLS.fetch_add(1, Ordering::Relaxed);
        System.realloc(p, l, new)
    }
}

pub fn snapshot() -> (u64, u64) {
    (BYTES.load(Ordering::Relaxed), CALLS.load(Ordering::Relaxed))
}
