//! ippverif: runs case lines through the real ipp crate (built from /repo's working tree).
//!
//!   ippverif run <PROP> --tier quick|thorough --seed N --out DIR [--corpus DIR]
//!   ippverif exec <PROP>          (case lines on stdin; effective line, result and oracle on stdout)
mod exec;
mod exec2;
mod exec3;
mod exec4;
mod exec5;
mod exec6;
mod exec7;
mod exec8;
mod exec9;
mod httpd;
mod tls;
mod alloc;
mod sources;
mod gen;
mod gen2;
mod gen3;
mod malformed;
mod props;
mod registry;
mod rng;
mod text;
mod wiregen;

use std::collections::BTreeMap;
use std::io::{BufRead, Write};

#[global_allocator]
static GLOBAL: alloc::Counting = alloc::Counting;

fn main() {
    // panics are reported through the case results; the message of the last one is kept for the record
    std::panic::set_hook(Box::new(|info| {
        let msg = format!("{}", info);
        if let Ok(mut g) = LAST_PANIC.lock() {
            *g = msg.chars().take(400).collect();
        }
    }));
    let args: Vec<String> = std::env::args().collect();
    if args.len() < 3 {
        eprintln!("usage: ippverif run|exec <PROP> ...");
        std::process::exit(2);
    }
    if args[1] == "bombchild" {
        exec2::bomb_child(&args[2], args.get(3).and_then(|s| s.parse().ok()).unwrap_or(1));
        return;
    }
    let prop = args[2].clone();
    let mut tier = "quick".to_string();
    let mut seed = 0u64;
    let mut out = "work/out".to_string();
    let mut corpus: Option<String> = None;
    let mut i = 3;
    while i < args.len() {
        match args[i].as_str() {
            "--tier" => {
                tier = args[i + 1].clone();
                i += 2
            }
            "--seed" => {
                seed = args[i + 1].parse().unwrap_or(0);
                i += 2
            }
            "--out" => {
                out = args[i + 1].clone();
                i += 2
            }
            "--corpus" => {
                corpus = Some(args[i + 1].clone());
                i += 2
            }
            _ => i += 1,
        }
    }
    // watchdog: a case that does not terminate ends the process with a record of the case
    {
        let out_dir = out.clone();
        let mode = args[1].clone();
        std::thread::spawn(move || loop {
            std::thread::sleep(std::time::Duration::from_millis(200));
            let cur = exec::CURRENT.lock().unwrap().clone();
            if let Some((line, t0)) = cur {
                // bombs and the cost families run children / long parses with their own limits
                let limit = if line.starts_with("bomb ") || line.starts_with("cost ") || line.starts_with("cli ") || line.starts_with("send") { 300 } else { exec::HANG_SECS };
                if t0.elapsed().as_secs() > limit {
                    if mode == "exec" {
                        println!("{}\n(hang)\nFAIL no termination within {} s", line, limit);
                    } else {
                        let _ = std::fs::create_dir_all(&out_dir);
                        let _ = std::fs::write(format!("{}/hang.txt", out_dir), &line);
                    }
                    std::process::exit(3);
                }
            }
        });
    }
    match args[1].as_str() {
        "exec" => {
            let stdin = std::io::stdin();
            let stdout = std::io::stdout();
            let mut o = stdout.lock();
            for line in stdin.lock().lines() {
                let line = line.unwrap();
                if line.trim().is_empty() {
                    continue;
                }
                let r = exec::exec(&prop, &line);
                writeln!(o, "{}\n{}\n{}", r.line, r.result, r.oracle.map(|f| format!("FAIL {}", f)).unwrap_or_else(|| "ok".into())).unwrap();
            }
        }
        "run" => run(&prop, &tier, seed, &out, corpus.as_deref()),
        _ => {
            eprintln!("unknown mode");
            std::process::exit(2);
        }
    }
}

pub static LAST_PANIC: std::sync::Mutex<String> = std::sync::Mutex::new(String::new());

fn run(prop: &str, tier: &str, seed: u64, out: &str, corpus: Option<&str>) {
    std::fs::create_dir_all(out).unwrap();
    let mut lines: Vec<String> = vec![];
    let mut n_corpus = 0;
    if let Some(dir) = corpus {
        if let Ok(rd) = std::fs::read_dir(dir) {
            let mut files: Vec<_> = rd.filter_map(|e| e.ok()).map(|e| e.path()).collect();
            files.sort();
            for f in files {
                if let Ok(s) = std::fs::read_to_string(&f) {
                    for l in s.lines() {
                        let l = l.trim();
                        if !l.is_empty() && !l.starts_with('#') {
                            lines.push(l.to_string());
                            n_corpus += 1;
                        }
                    }
                }
            }
        }
    }
    let mut r = rng::Rng::new(seed);
    // the generators build their messages with the library itself (constructors, `to_bytes`): if it panics there, that is
    // recorded as the failing case instead of taking the run down without a trace
    let info = match std::panic::catch_unwind(std::panic::AssertUnwindSafe(|| props::generate(prop, tier, &mut r, &mut lines))) {
        Ok(i) => i,
        Err(_) => {
            let msg = LAST_PANIC.lock().map(|g| g.clone()).unwrap_or_default();
            // the message being built or encoded when it happened, as a case line that reproduces it under guard
            let last = text::LAST_BUILT.with(|c| c.borrow().clone());
            let case = match last {
                Some(m) => format!("roundtrip {} -", text::show_msg(&m)),
                None => format!("(while generating the cases of {} with seed {}, after {} lines) the library panicked: {}", prop, seed, lines.len(), msg),
            };
            let _ = std::fs::write(format!("{}/current.txt", out), case);
            let _ = std::fs::write(format!("{}/generation-panic.txt", out), msg);
            std::process::exit(101);
        }
    };
    let mut cases = std::io::BufWriter::new(std::fs::File::create(format!("{}/cases.txt", out)).unwrap());
    let mut implo = std::io::BufWriter::new(std::fs::File::create(format!("{}/impl.out", out)).unwrap());
    let mut oro = std::io::BufWriter::new(std::fs::File::create(format!("{}/oracle.out", out)).unwrap());
    let mut classes: BTreeMap<String, u64> = BTreeMap::new();
    let mut ops: BTreeMap<String, u64> = BTreeMap::new();
    let mut distinct = std::collections::HashSet::new();
    let mut nontrivial = 0u64;
    let mut failures = 0u64;
    let mut samples: Vec<String> = vec![];
    // the case being run, for the record if the process is killed by it (stack overflow, abort)
    let mut current = std::fs::File::create(format!("{}/current.txt", out)).unwrap();
    for (idx, l) in lines.iter().enumerate() {
        {
            use std::io::Seek;
            let _ = current.set_len(0);
            let _ = current.seek(std::io::SeekFrom::Start(0));
            let _ = current.write_all(l.as_bytes());
        }
        let cr = exec::exec(prop, l);
        writeln!(cases, "{}", cr.line).unwrap();
        writeln!(implo, "{}", cr.result).unwrap();
        match &cr.oracle {
            Some(f) => {
                failures += 1;
                writeln!(oro, "FAIL {}", f).unwrap()
            }
            None => writeln!(oro, "ok").unwrap(),
        }
        *classes.entry(cr.class.clone()).or_default() += 1;
        let op = cr.line.split(' ').next().unwrap_or("").to_string();
        *ops.entry(op).or_default() += 1;
        use std::hash::{Hash, Hasher};
        let mut h = std::collections::hash_map::DefaultHasher::new();
        cr.line.hash(&mut h);
        if distinct.insert(h.finish()) && props::nontrivial(prop, &cr) {
            nontrivial += 1;
        }
        if samples.len() < 5 && (idx % (lines.len() / 5 + 1) == 0) {
            samples.push(exec::clip(&cr.line));
        }
    }
    let _ = current.set_len(0);
    let mut stats = String::new();
    stats.push_str("{\n");
    stats.push_str(&format!("  \"cases\": {},\n  \"corpus_cases\": {},\n  \"distinct\": {},\n  \"distinct_nontrivial\": {},\n  \"oracle_failures\": {},\n", lines.len(), n_corpus, distinct.len(), nontrivial, failures));
    stats.push_str(&format!("  \"rule\": {},\n", json_str(&info.rule)));
    stats.push_str(&format!("  \"exhaustive\": {},\n", info.exhaustive));
    stats.push_str("  \"ops\": {");
    stats.push_str(&ops.iter().map(|(k, v)| format!("{}: {}", json_str(k), v)).collect::<Vec<_>>().join(", "));
    stats.push_str("},\n  \"classes\": {");
    stats.push_str(&classes.iter().map(|(k, v)| format!("{}: {}", json_str(k), v)).collect::<Vec<_>>().join(", "));
    stats.push_str("},\n  \"samples\": [");
    stats.push_str(&samples.iter().map(|s| json_str(s)).collect::<Vec<_>>().join(", "));
    stats.push_str("]\n}\n");
    std::fs::write(format!("{}/stats.json", out), stats).unwrap();
}

pub fn json_str(s: &str) -> String {
    let mut o = String::from("\"");
    for c in s.chars() {
        match c {
            '"' => o.push_str("\\\""),
            '\\' => o.push_str("\\\\"),
            '\n' => o.push_str("\\n"),
            c if (c as u32) < 0x20 => o.push_str(&format!("\\u{:04x}", c as u32)),
            c => o.push(c),
        }
    }
    o.push('"');
    o
}
