//! Registry tables (spec/registry.txt, written from the RFCs) and the C16 oracles.
use std::collections::HashMap;
use std::sync::OnceLock;

pub struct Registry {
    /// enum -> code -> library symbol of the registry entry
    pub by_code: HashMap<String, HashMap<u64, String>>,
    /// enum -> symbol -> code
    pub by_sym: HashMap<String, HashMap<String, u64>>,
}

pub fn registry() -> &'static Registry {
    static R: OnceLock<Registry> = OnceLock::new();
    R.get_or_init(|| {
        let mut by_code: HashMap<String, HashMap<u64, String>> = HashMap::new();
        let mut by_sym: HashMap<String, HashMap<String, u64>> = HashMap::new();
        for line in include_str!("../../spec/registry.txt").lines() {
            let line = line.trim();
            if line.is_empty() || line.starts_with('#') {
                continue;
            }
            let f: Vec<&str> = line.split_whitespace().collect();
            let code = if let Some(h) = f[2].strip_prefix("0x") { u64::from_str_radix(h, 16).unwrap() } else { f[2].parse().unwrap() };
            by_code.entry(f[0].into()).or_default().insert(code, f[1].into());
            by_sym.entry(f[0].into()).or_default().insert(f[1].into(), code);
        }
        Registry { by_code, by_sym }
    })
}

pub const ENUMS: &[(&str, u64)] = &[
    ("Operation", 0xffff),
    ("PrinterState", 300),
    ("Orientation", 300),
    ("PrintQuality", 300),
    ("Finishings", 300),
    ("JobState", 300),
    ("DelimiterTag", 255),
    ("ValueTag", 255),
];

/// a symbol reported for `code` must be the registry's symbol for it; for an unassigned code it must be
/// `none` or a symbol the registry does not use for another code
pub fn check_enum(name: &str, code: u64, got: &str) -> Option<String> {
    let r = registry();
    let bc = r.by_code.get(name)?;
    match bc.get(&code) {
        Some(sym) if sym != got => Some(format!("{}: code {:#x} is `{}` in the registry, library says `{}`", name, code, sym, got)),
        Some(_) => None,
        None => {
            if got == "none" {
                return None;
            }
            match r.by_sym.get(name).and_then(|m| m.get(got)) {
                Some(c) => Some(format!("{}: unassigned code {:#x} decodes to `{}`, which the registry assigns to {:#x}", name, code, got, c)),
                None => None,
            }
        }
    }
}

pub fn check_status(code: u16, got: &str, success: bool) -> Option<String> {
    let r = registry();
    let bc = &r.by_code["StatusCode"];
    match bc.get(&(code as u64)) {
        Some(sym) => {
            if sym != got {
                return Some(format!("status {:#06x} is `{}` in RFC 8011, library says `{}`", code, sym, got));
            }
        }
        None => {
            if got != "UnknownStatusCode" {
                if let Some(c) = r.by_sym["StatusCode"].get(got) {
                    return Some(format!("undefined status {:#06x} decodes to `{}` (the symbol of {:#06x})", code, got, c));
                }
            }
        }
    }
    if code <= 2 && !success {
        return Some(format!("RFC 8011 successful status {:#06x} is not reported as success", code));
    }
    if success && code > 0xff {
        return Some(format!("status {:#06x} outside the successful class is reported as success", code));
    }
    None
}
