//! Cost of parsing (C15); the HTTP clients are in their own modules.
use crate::exec::*;
use crate::text::*;

fn badarg(line: &str, why: &str) -> CaseResult {
    CaseResult { line: line.to_string(), result: format!("(bad-arg {})", why), oracle: None, class: "bad-arg".into() }
}

pub fn exec7(prop: &str, op: &str, line: &str, args: &[SExp]) -> Option<CaseResult> {
    Some(match op {
        "cost" => op_cost(line, args),
        _ => return crate::exec8::exec8(prop, op, line, args),
    })
}

/// CPU time of the calling thread: unlike the wall clock it does not grow when other processes take the cores
pub fn cpu_secs() -> f64 {
    let mut ts = libc::timespec { tv_sec: 0, tv_nsec: 0 };
    // SAFETY: plain libc call writing into a local struct
    let rc = unsafe { libc::clock_gettime(libc::CLOCK_THREAD_CPUTIME_ID, &mut ts) };
    if rc != 0 {
        return 0.0;
    }
    ts.tv_sec as f64 + ts.tv_nsec as f64 * 1e-9
}

pub struct Measured {
    pub len: usize,
    pub consumed: Option<usize>,
    pub bytes: u64,
    pub calls: u64,
    pub secs: f64,
    pub outcome: String,
}

/// parse `input` with the blocking parser from an in-memory reader; only the parse itself is measured and
/// the result is leaked (dropping very deep values is known finding K2 of C02, not this property)
pub fn measure(input: &[u8]) -> Measured {
    let data = input.to_vec();
    let (b0, c0) = crate::alloc::snapshot();
    let t0 = cpu_secs();
    let r = ipp::parser::IppParser::new(ipp::reader::IppReader::new(std::io::Cursor::new(data))).parse_parts();
    let secs = cpu_secs() - t0;
    let (b1, c1) = crate::alloc::snapshot();
    let (consumed, outcome) = match r {
        Ok((h, a, rd)) => {
            let cur = rd.into_inner();
            let pos = cur.position() as usize;
            std::mem::forget(a);
            std::mem::forget(h);
            (Some(pos), "ok".to_string())
        }
        Err(e) => (None, show_parse_err(&e)),
    };
    Measured { len: input.len(), consumed, bytes: b1 - b0, calls: c1 - c0, secs, outcome }
}

/// the input in pieces of at most `piece` bytes, never pending
struct Pieces {
    data: Vec<u8>,
    pos: usize,
    piece: usize,
}
impl futures_util::io::AsyncRead for Pieces {
    fn poll_read(mut self: std::pin::Pin<&mut Self>, _cx: &mut std::task::Context<'_>, buf: &mut [u8]) -> std::task::Poll<std::io::Result<usize>> {
        let n = buf.len().min(self.piece).min(self.data.len() - self.pos);
        let p = self.pos;
        buf[..n].copy_from_slice(&self.data[p..p + n]);
        self.pos += n;
        std::task::Poll::Ready(Ok(n))
    }
}

/// the async parser on `input` delivered in pieces of `piece` bytes (usize::MAX: whole)
pub fn measure_async(input: &[u8], piece: usize) -> Measured {
    let src = Pieces { data: input.to_vec(), pos: 0, piece };
    let (b0, c0) = crate::alloc::snapshot();
    let t0 = cpu_secs();
    let r = futures_executor::block_on(ipp::parser::AsyncIppParser::new(ipp::reader::AsyncIppReader::new(src)).parse_parts());
    let secs = cpu_secs() - t0;
    let (b1, c1) = crate::alloc::snapshot();
    let (consumed, outcome) = match r {
        Ok((h, a, rd)) => {
            let pos = rd.into_inner().pos;
            std::mem::forget(a);
            std::mem::forget(h);
            (Some(pos), "ok".to_string())
        }
        Err(e) => (None, show_parse_err(&e)),
    };
    Measured { len: input.len(), consumed, bytes: b1 - b0, calls: c1 - c0, secs, outcome }
}

/// `cost FAMILY N`
fn op_cost(line: &str, args: &[SExp]) -> CaseResult {
    let (kind, n) = match (args.first().and_then(|a| a.atom()), args.get(1).and_then(|a| a.atom()).and_then(|s| s.parse::<usize>().ok())) {
        (Some(k), Some(n)) => (k.to_string(), n),
        _ => return badarg(line, "cost"),
    };
    let input = match crate::malformed::family(&kind, n) {
        Some(b) => b,
        None => return badarg(line, "family"),
    };
    let m = measure(&input);
    let mut oracle = None;
    let per_byte = m.bytes as f64 / m.len as f64;
    let calls_per_byte = m.calls as f64 / m.len as f64;
    if m.bytes > 400 * m.len as u64 + 16384 {
        oracle = Some(format!("parsing {} bytes of family `{}` allocated {} bytes ({:.0} per input byte; ceiling 400)", m.len, kind, m.bytes, per_byte));
    } else if m.calls as f64 > 2.5 * m.len as f64 + 256.0 {
        oracle = Some(format!("parsing {} bytes of family `{}` made {} allocator calls ({:.2} per input byte; ceiling 2.5)", m.len, kind, m.calls, calls_per_byte));
    } else if m.secs > 20.0 {
        oracle = Some(format!("parsing {} bytes of family `{}` took {:.1} s", m.len, kind, m.secs));
    } else if m.secs > 0.25 && m.secs * 1e6 > 2.0 * m.len as f64 + 150_000.0 {
        // more than 2 microseconds per input byte (plus slack): the unchanged parser needs about 0.02
        oracle = Some(format!("parsing {} bytes of family `{}` took {:.0} ms ({:.1} microseconds per input byte)", m.len, kind, m.secs * 1e3, m.secs * 1e6 / m.len as f64));
    } else if n >= 512 {
        // doubling: the cost at n must not exceed 2.5 x the cost at n/2 (plus slack)
        if let Some(half) = crate::malformed::family(&kind, n / 2) {
            let h = measure(&half);
            // super-linear time: a quadratic algorithm quadruples its time on EVERY doubling, whereas caches, page
            // faults and hash-map growth give a single step.  Reported only when two consecutive doublings
            // (n/4 -> n/2 -> n) are both steeper than 3x / 2.8x in thread CPU time, the largest run takes at
            // least 100 ms, and three repetitions of the whole measurement agree.
            let steep = |a: f64, b: f64, c: f64| a > 0.1 && c > 0.002 && a > 3.0 * b && b > 2.8 * c;
            let quarter = crate::malformed::family(&kind, n / 4);
            let mut all = false;
            let (mut ms, mut hs, mut qs) = (m.secs, h.secs, 0.0);
            if let Some(q) = &quarter {
                qs = measure(q).secs;
                all = steep(ms, hs, qs);
                if all {
                    for _ in 0..3 {
                        let (a, b, c) = (measure(&input).secs, measure(&half).secs, measure(q).secs);
                        all = all && steep(a, b, c);
                        if a / b.max(1e-9) < ms / hs.max(1e-9) {
                            ms = a;
                            hs = b;
                            qs = c;
                        }
                    }
                }
            }
            if all {
                oracle = Some(format!("family `{}`: {:.0} ms of CPU time for {} input bytes, {:.0} ms for half of it and {:.0} ms for a quarter (time grows {:.1}x and {:.1}x on doubling; least of four measurements)", kind, ms * 1e3, m.len, hs * 1e3, qs * 1e3, ms / hs.max(1e-9), hs / qs.max(1e-9)));
            } else if m.bytes as f64 > 2.5 * h.bytes as f64 + 65536.0 {
                oracle = Some(format!("family `{}`: {} bytes allocated for {} input bytes but {} for {} (growth factor {:.1} on doubling)", kind, m.bytes, m.len, h.bytes, h.len, m.bytes as f64 / h.bytes.max(1) as f64));
            }
        }
    }
    // the async parser: whole input, then delivered in small pieces as a socket would
    if oracle.is_none() {
        let whole = measure_async(&input, usize::MAX);
        if whole.consumed != m.consumed || whole.outcome != m.outcome {
            oracle = Some(format!("family `{}` n={}: async parser consumed {:?} ({}), blocking parser {:?} ({})", kind, n, whole.consumed, whole.outcome, m.consumed, m.outcome));
        } else if whole.bytes > 400 * whole.len as u64 + 16384 {
            oracle = Some(format!("async parsing of {} bytes of family `{}` allocated {} bytes ({:.0} per input byte; ceiling 400)", whole.len, kind, whole.bytes, whole.bytes as f64 / whole.len as f64));
        } else if whole.secs > 0.25 && whole.secs * 1e6 > 2.0 * whole.len as f64 + 150_000.0 {
            oracle = Some(format!("async parsing of {} bytes of family `{}` took {:.0} ms ({:.1} microseconds per input byte)", whole.len, kind, whole.secs * 1e3, whole.secs * 1e6 / whole.len as f64));
        } else {
            for piece in [64usize, 536] {
                let f = measure_async(&input, piece);
                if f.consumed != m.consumed || f.outcome != m.outcome {
                    oracle = Some(format!("family `{}` n={}: async parser fed {}-byte pieces consumed {:?} ({}), blocking parser {:?} ({})", kind, n, piece, f.consumed, f.outcome, m.consumed, m.outcome));
                } else if f.bytes > 2 * whole.bytes + 65536 {
                    oracle = Some(format!("family `{}`: async parsing of {} input bytes allocated {} bytes when delivered in {}-byte pieces but {} when delivered whole (fragmentation multiplies the allocation)", kind, f.len, f.bytes, piece, whole.bytes));
                } else if f.secs > 0.5 && f.secs * 1e6 > 4.0 * f.len as f64 + 300_000.0 {
                    oracle = Some(format!("async parsing of {} bytes of family `{}` in {}-byte pieces took {:.0} ms ({:.1} microseconds per input byte)", f.len, kind, piece, f.secs * 1e3, f.secs * 1e6 / f.len as f64));
                }
                if oracle.is_some() {
                    break;
                }
            }
        }
    }
    let result = match m.consumed {
        Some(c) => format!("consumed={}", c),
        None => m.outcome.clone(),
    };
    CaseResult { line: line.into(), result, oracle, class: format!("{}: {:.0} B/B {:.2} calls/B", kind, per_byte, calls_per_byte) }
}
