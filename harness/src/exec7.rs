//! Further ops (cost, clients): added per property.
use crate::exec::CaseResult;
use crate::text::SExp;

pub fn exec7(_prop: &str, _op: &str, _line: &str, _args: &[SExp]) -> Option<CaseResult> {
    None
}
