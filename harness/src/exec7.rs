//! Cost of parsing (C15); the HTTP clients are in their own modules.
use crate::exec::*;
use crate::text::*;

fn badarg(line: &str, why: &str) -> CaseResult {
    CaseResult { line: line.to_string(), result: format!("(bad-arg {})", why), oracle: None, class: "bad-arg".into() }
}

pub fn exec7(prop: &str, op: &str, line: &str, args: &[SExp]) -> Option<CaseResult> {
    Some(match op {
        "cost" => op_cost(line, args),
        _ => return crate::exec8::exec8(prop, op, line, args),
    })
}

pub struct Measured {
    pub len: usize,
    pub consumed: Option<usize>,
    pub bytes: u64,
    pub calls: u64,
    pub secs: f64,
    pub outcome: String,
}

/// parse `input` with the blocking parser from an in-memory reader; only the parse itself is measured and
/// the result is leaked (dropping very deep values is known finding K2 of C02, not this property)
pub fn measure(input: &[u8]) -> Measured {
    let data = input.to_vec();
    let (b0, c0) = crate::alloc::snapshot();
    let t0 = std::time::Instant::now();
    let r = ipp::parser::IppParser::new(ipp::reader::IppReader::new(std::io::Cursor::new(data))).parse_parts();
    let secs = t0.elapsed().as_secs_f64();
    let (b1, c1) = crate::alloc::snapshot();
    let (consumed, outcome) = match r {
        Ok((h, a, rd)) => {
            let cur = rd.into_inner();
            let pos = cur.position() as usize;
            std::mem::forget(a);
            std::mem::forget(h);
            (Some(pos), "ok".to_string())
        }
        Err(e) => (None, show_parse_err(&e)),
    };
    Measured { len: input.len(), consumed, bytes: b1 - b0, calls: c1 - c0, secs, outcome }
}

/// `cost FAMILY N`
fn op_cost(line: &str, args: &[SExp]) -> CaseResult {
    let (kind, n) = match (args.first().and_then(|a| a.atom()), args.get(1).and_then(|a| a.atom()).and_then(|s| s.parse::<usize>().ok())) {
        (Some(k), Some(n)) => (k.to_string(), n),
        _ => return badarg(line, "cost"),
    };
    let input = match crate::malformed::family(&kind, n) {
        Some(b) => b,
        None => return badarg(line, "family"),
    };
    let m = measure(&input);
    let mut oracle = None;
    let per_byte = m.bytes as f64 / m.len as f64;
    let calls_per_byte = m.calls as f64 / m.len as f64;
    if m.bytes > 400 * m.len as u64 + 16384 {
        oracle = Some(format!("parsing {} bytes of family `{}` allocated {} bytes ({:.0} per input byte; ceiling 400)", m.len, kind, m.bytes, per_byte));
    } else if m.calls as f64 > 2.5 * m.len as f64 + 256.0 {
        oracle = Some(format!("parsing {} bytes of family `{}` made {} allocator calls ({:.2} per input byte; ceiling 2.5)", m.len, kind, m.calls, calls_per_byte));
    } else if m.secs > 20.0 {
        oracle = Some(format!("parsing {} bytes of family `{}` took {:.1} s", m.len, kind, m.secs));
    } else if m.secs > 0.25 && m.secs * 1e6 > 2.0 * m.len as f64 + 150_000.0 {
        // more than 2 microseconds per input byte (plus slack): the unchanged parser needs about 0.02
        oracle = Some(format!("parsing {} bytes of family `{}` took {:.0} ms ({:.1} microseconds per input byte)", m.len, kind, m.secs * 1e3, m.secs * 1e6 / m.len as f64));
    } else if n >= 512 {
        // doubling: the cost at n must not exceed 2.5 x the cost at n/2 (plus slack)
        if let Some(half) = crate::malformed::family(&kind, n / 2) {
            let h = measure(&half);
            if m.secs > 0.2 && m.secs > 5.0 * h.secs + 0.1 {
                oracle = Some(format!("family `{}`: {:.0} ms for {} input bytes but {:.0} ms for {} (time grows {:.1}x on doubling)", kind, m.secs * 1e3, m.len, h.secs * 1e3, h.len, m.secs / h.secs.max(1e-9)));
            } else if m.bytes as f64 > 2.5 * h.bytes as f64 + 65536.0 {
                oracle = Some(format!("family `{}`: {} bytes allocated for {} input bytes but {} for {} (growth factor {:.1} on doubling)", kind, m.bytes, m.len, h.bytes, h.len, m.bytes as f64 / h.bytes.max(1) as f64));
            }
        }
    }
    let result = match m.consumed {
        Some(c) => format!("consumed={}", c),
        None => m.outcome.clone(),
    };
    CaseResult { line: line.into(), result, oracle, class: format!("{}: {:.0} B/B {:.2} calls/B", kind, per_byte, calls_per_byte) }
}
