//! Generators: add histories (C19), readiness responses (C17), option texts (C18), URIs (C13/C14), builder calls (C10/C09).
use ipp::prelude::*;

use crate::gen::*;
use crate::rng::Rng;
use crate::text::*;

const NAMES: &[&str] = &["a", "b", "copies", "media", "sides", "printer-uri", "job-id", "attributes-charset", "é"];

pub fn gen_add_op(r: &mut Rng, lim: &Limits) -> String {
    let tag = *r.pick(&[1u8, 2, 4, 5, 1, 2, 4, 3]);
    let name = if r.chance(3, 4) { (*r.pick(NAMES)).to_string() } else { gen_name(r, lim) };
    let v = gen_value(r, lim, 0, false);
    format!("(op {:02x} {} {})", tag, hex(name.as_bytes()), value_str(&v))
}

pub fn gen_add_seq(r: &mut Rng) -> String {
    let lim = Limits { max_depth: 2, boundary: false };
    let start = match r.below(3) {
        0 => Msg { version: 0x0101, op: 2, id: 1, groups: vec![] },
        1 => gen_msg(r, &lim),
        _ => {
            // parser-like start state with repeated groups
            let mut m = gen_msg(r, &lim);
            let extra = m.groups.clone();
            m.groups.extend(extra);
            for g in &mut m.groups {
                if r.chance(1, 2) {
                    g.0 = *r.pick(&[1u8, 2, 4, 5]);
                }
            }
            m
        }
    };
    let n = r.below(13);
    let ops: Vec<String> = (0..n).map(|_| gen_add_op(r, &lim)).collect();
    format!("add_seq {} {}", show_msg(&start), ops.join(" "))
}

const BLOCKING: &[&str] = &[
    "media-jam", "toner-empty", "spool-area-full", "cover-open", "door-open", "input-tray-missing", "output-tray-missing",
    "marker-supply-empty", "paused", "shutdown",
];
const HARMLESS: &[&str] = &[
    "none", "media-low", "toner-low", "media-needed", "marker-supply-low", "connecting-to-device", "paused-report", "media-jam-warning",
    "Paused", "shutdown ", "moving-to-paused", "", "cups-waiting-for-job-completed", "media-empty",
];

pub fn gen_ready(r: &mut Rng) -> String {
    let lim = Limits { max_depth: 2, boundary: false };
    let status: u16 = match r.below(8) {
        0 => 0,
        1 => 1,
        2 => 2,
        3 => *r.pick(&[0x0400u16, 0x0401, 0x0406, 0x040b, 0x0500, 0x0503, 0x0507]),
        4 => r.next() as u16,
        5 => *r.pick(&[3u16, 0xff, 0x100, 0xffff]),
        _ => 0,
    };
    let mut groups: Vec<(u8, Vec<(String, IppValue)>)> = vec![(1, vec![("attributes-charset".into(), IppValue::Charset("utf-8".into()))])];
    if r.chance(1, 4) {
        groups.push((*r.pick(&[2u8, 5, 1]), gen_attrs(r, &lim, 3)));
    }
    let nprinter = match r.below(8) {
        0 => 0,
        1 => 2,
        _ => 1,
    };
    for _ in 0..nprinter {
        let mut attrs = if r.chance(1, 3) { gen_attrs(r, &lim, 3) } else { vec![] };
        attrs.retain(|a| a.0 != "printer-state" && a.0 != "printer-state-reasons");
        match r.below(9) {
            0 => {}
            1 => attrs.push(("printer-state".into(), IppValue::Enum(3))),
            2 => attrs.push(("printer-state".into(), IppValue::Enum(4))),
            3 | 4 => attrs.push(("printer-state".into(), IppValue::Enum(5))),
            5 => attrs.push(("printer-state".into(), IppValue::Enum(*r.pick(&[0, 6, -5, 2, i32::MIN, 5 + 256, -2147483643])))),
            6 => attrs.push(("printer-state".into(), IppValue::Integer(5))),
            7 => attrs.push(("printer-state".into(), IppValue::Keyword("stopped".into()))),
            _ => attrs.push(("printer-state".into(), IppValue::Array(vec![IppValue::Enum(5), IppValue::Enum(3)]))),
        }
        let word = |r: &mut Rng| -> String {
            if r.chance(1, 3) {
                (*r.pick(BLOCKING)).to_string()
            } else {
                (*r.pick(HARMLESS)).to_string()
            }
        };
        match r.below(9) {
            0 => {}
            1 | 2 => attrs.push(("printer-state-reasons".into(), IppValue::Keyword(word(r)))),
            3 | 4 | 5 => {
                let n = if r.chance(1, 5) { r.range(0, 1) } else { r.range(2, 6) };
                if n == 0 {
                    attrs.push(("printer-state-reasons".into(), IppValue::Array(vec![])));
                    groups.push((4, attrs));
                    continue;
                }
                let mut vs: Vec<IppValue> = (0..n).map(|_| IppValue::Keyword((*r.pick(HARMLESS)).to_string())).collect();
                if r.chance(1, 2) {
                    let pos = r.below(n) as usize;
                    vs[pos] = IppValue::Keyword((*r.pick(BLOCKING)).to_string());
                }
                if r.chance(1, 6) {
                    let pos = r.below(n) as usize;
                    vs[pos] = IppValue::TextWithoutLanguage("paused".into());
                }
                attrs.push(("printer-state-reasons".into(), IppValue::Array(vs)));
            }
            6 => attrs.push(("printer-state-reasons".into(), IppValue::TextWithoutLanguage(word(r)))),
            7 => {
                let mut m = std::collections::BTreeMap::new();
                m.insert("a".to_string(), IppValue::Keyword(word(r)));
                m.insert("b".to_string(), IppValue::Keyword(word(r)));
                attrs.push(("printer-state-reasons".into(), IppValue::Collection(m)));
            }
            _ => attrs.push(("printer-state-reasons".into(), IppValue::NameWithoutLanguage("shutdown".into()))),
        }
        groups.push((4, attrs));
    }
    if r.chance(1, 5) {
        groups.push((2, gen_attrs(r, &lim, 2)));
    }
    format!("ready {}", show_msg(&Msg { version: 0x0101, op: status, id: 7, groups }))
}

pub fn option_texts(out: &mut Vec<String>, r: &mut Rng, n: usize) {
    let fixed = [
        "true", "false", "True", "FALSE", " true", "true ", "tru", "", "0", "1", "-1", "+1", "+", "-", "+-1", "--1", "007", "-0", "+0",
        "2147483647", "2147483648", "-2147483648", "-2147483649", "4294967295", "99999999999999999999", "1e3", "0x10", "1_000", "1.0", "１２", "٣",
        "12a", "a12", " 12", "12 ", "two-sided-long-edge", "a=b", "=", "b=c", "é", "-", "−1", "1\u{0}",
    ];
    for s in fixed {
        out.push(format!("fromstr {}", hex(s.as_bytes())));
    }
    for _ in 0..n {
        let s = match r.below(5) {
            0 => format!("{}", r.next() as i32),
            1 => format!("{}{}", *r.pick(&["", "+", "-", "0", "00"]), r.next() % 10_000_000_000),
            2 => gen_string(r, &Limits { max_depth: 0, boundary: false }),
            3 => format!("{}", (r.next() as i64 % 6_000_000_000) - 3_000_000_000),
            _ => {
                let mut s = format!("{}", r.next() as u32);
                let pos = r.below(s.len() as u64 + 1) as usize;
                s.insert(pos, *r.pick(&['a', ' ', '-', '+', '.', '٣']));
                s
            }
        };
        out.push(format!("fromstr {}", hex(s.as_bytes())));
    }
}

pub struct GenUri {
    pub text: String,
    pub scheme: &'static str,
    pub userinfo: Option<String>,
    pub host: String,
    pub port: Option<u16>,
    pub path: String,
    pub query: Option<String>,
}

pub fn gen_uri(r: &mut Rng) -> GenUri {
    let scheme = *r.pick(&["http", "https", "ipp", "ipps", "ipp", "ipps"]);
    let userinfo = if r.chance(2, 5) {
        let mut u = String::from("uSeRmArK");
        for _ in 0..r.below(4) {
            u.push(*r.pick(&['a', 'Z', '0', '-', '.', '_', '~', '!', '$', '&', '\'', '(', ')', '*', '+', ',', ';', '=']));
        }
        if r.chance(1, 6) {
            u.push_str("%40");
        }
        if r.chance(2, 3) {
            u.push(':');
            u.push_str("pAsSmArK");
            if r.chance(1, 5) {
                u.push(':');
                u.push_str("x");
            }
            if r.chance(1, 8) {
                u.push('@');
                u.push_str("y");
            }
        }
        Some(u)
    } else {
        None
    };
    let host = match r.below(6) {
        0 => format!("{}.{}.{}.{}", r.below(256), r.below(256), r.below(256), r.below(256)),
        1 => (*r.pick(&["[::1]", "[fe80::1]", "[2001:db8::8a2e:370:7334]", "[::ffff:192.0.2.1]", "[2001:db8::1]"])).to_string(),
        _ => {
            let labels = r.range(1, 3);
            (0..labels)
                .map(|_| {
                    let n = r.range(1, 8);
                    (0..n).map(|i| if i > 0 && i < n - 1 && r.chance(1, 8) { '-' } else { *r.pick(&['a', 'b', 'p', 'r', 'n', 't', '1', '2', 'x', 'Z']) }).collect::<String>()
                })
                .collect::<Vec<_>>()
                .join(".")
        }
    };
    let port = if r.chance(1, 2) { Some(if r.chance(1, 3) { *r.pick(&[0u16, 1, 80, 443, 631, 8631, 65535]) } else { r.range(1, 65535) as u16 }) } else { None };
    let path = if r.chance(1, 5) {
        String::new()
    } else if r.chance(1, 6) {
        // the shapes printers and CUPS really use
        let base = *r.pick(&["/ipp/print", "/ipp", "/printers/laser", "/printers/", "/jobs/42", "/jobs/", "/jobs", "/classes/all", "/admin", "/admin/", "/ipp/print/queue1", "/JOBS/7", "/printers/jobs/3"]);
        base.to_string()
    } else if r.chance(1, 40) {
        // long paths: the canonical URI passes 255, 1023 / 1024 and 4096 octets
        let n = *r.pick(&[230usize, 250, 990, 1000, 1010, 1024, 1100, 4090, 5000]);
        let mut p = String::from("/");
        while p.len() < n {
            p.push_str(*r.pick(&["long", "%20", "seg/", "x", "Z9"]));
        }
        p
    } else {
        let segs = r.below(4);
        let mut p = String::from("/");
        for i in 0..segs {
            if i > 0 {
                p.push('/');
            }
            for _ in 0..r.range(0, 7) {
                match r.below(12) {
                    10 => p.push_str(*r.pick(&["ipp://x", "ipps://y.z", "http://h", "https://", "ipp:", "//"])),
                    0 => p.push_str(*r.pick(&["%20", "%2F", "%C3%A9", "%40", "%3F", "%25"])),
                    1 => p.push(*r.pick(&['-', '.', '_', '~', '!', '$', '&', '\'', '(', ')', '*', '+', ',', ';', '=', ':', '@'])),
                    _ => p.push(*r.pick(&['p', 'r', 'i', 'n', 't', 'e', 's', '1', '7', 'A'])),
                }
            }
        }
        p
    };
    let query = if r.chance(2, 5) {
        let mut q = String::from("qUeRyMaRk=");
        for _ in 0..r.below(5) {
            q.push(*r.pick(&['a', '1', '&', '=', '?', '/', ':', '@', '%']));
            if q.ends_with('%') {
                q.push_str("41");
            }
        }
        if r.chance(1, 6) {
            q.push_str(*r.pick(&["&device-uri=ipp://backend/q", "&u=ipps://a.b:1/c", "&next=http://h/"]));
        }
        Some(q)
    } else {
        None
    };
    let mut text = format!("{}://", scheme);
    if let Some(u) = &userinfo {
        text.push_str(u);
        text.push('@');
    }
    text.push_str(&host);
    if let Some(p) = port {
        text.push_str(&format!(":{}", p));
    }
    text.push_str(&path);
    if let Some(q) = &query {
        text.push('?');
        text.push_str(q);
    }
    GenUri { text, scheme, userinfo, host, port, path, query }
}

impl GenUri {
    /// the same target with one component changed (text rebuilt from the parts)
    pub fn with(&self, port: Option<Option<u16>>, path: Option<&str>, host: Option<&str>) -> GenUri {
        let mut v = GenUri { text: String::new(), scheme: self.scheme, userinfo: self.userinfo.clone(), host: self.host.clone(), port: self.port, path: self.path.clone(), query: self.query.clone() };
        if let Some(p) = port {
            v.port = p;
        }
        if let Some(p) = path {
            v.path = p.to_string();
        }
        if let Some(h) = host {
            v.host = h.to_string();
        }
        let mut text = format!("{}://", v.scheme);
        if let Some(u) = &v.userinfo {
            text.push_str(u);
            text.push('@');
        }
        text.push_str(&v.host);
        if let Some(p) = v.port {
            text.push_str(&format!(":{}", p));
        }
        text.push_str(&v.path);
        if let Some(q) = &v.query {
            text.push('?');
            text.push_str(q);
        }
        v.text = text;
        v
    }
}

pub fn canon_line(u: &GenUri) -> String {
    format!("canon {} {} {} {}", hex(u.text.as_bytes()), hex(u.host.as_bytes()), u.port.map(|p| p.to_string()).unwrap_or("-".into()), hex(u.path.as_bytes()))
}

/// what RFC 3510 / RFC 7472 / RFC 8010 prescribe for the transport URL
pub fn transport_expected(u: &GenUri) -> String {
    let original = || u.text.clone();
    let (scheme, default) = match u.scheme {
        "ipp" => ("http", 631),
        "ipps" => ("https", 631),
        _ => {
            // used as it is; the http crate prints an empty path as "/"
            let mut t = original();
            if u.path.is_empty() {
                let cut = t.find('?').unwrap_or(t.len());
                t.insert(cut, '/');
            }
            return t;
        }
    };
    let mut t = format!("{}://", scheme);
    if let Some(ui) = &u.userinfo {
        t.push_str(ui);
        t.push('@');
    }
    t.push_str(&u.host);
    t.push_str(&format!(":{}", u.port.unwrap_or(default)));
    t.push_str(if u.path.is_empty() { "/" } else { &u.path });
    if let Some(q) = &u.query {
        t.push('?');
        t.push_str(q);
    }
    t
}

pub fn transport_line(u: &GenUri) -> String {
    format!("transport {} {}", hex(u.text.as_bytes()), hex(transport_expected(u).as_bytes()))
}

fn gen_text_arg(r: &mut Rng) -> String {
    let lim = Limits { max_depth: 0, boundary: false };
    if r.chance(1, 25) {
        // long texts around the usual limits (255 / 1023 octets), ASCII and multi-byte
        let n = *r.pick(&[254usize, 255, 256, 257, 300, 1023, 1024, 2000]);
        let unit = *r.pick(&["a", "é", "日", "😀"]);
        let mut t = String::new();
        while t.len() + unit.len() <= n {
            t.push_str(unit);
        }
        while t.len() < n {
            t.push('z');
        }
        return hex(t.as_bytes());
    }
    hex(gen_string(r, &lim).as_bytes())
}

fn gen_job_attr(r: &mut Rng) -> String {
    let lim = Limits { max_depth: 2, boundary: false };
    let name = if r.chance(2, 3) { (*r.pick(&["copies", "sides", "media", "print-quality", "media-col", "x"])).to_string() } else { gen_name(r, &lim) };
    format!("(a {} {})", hex(name.as_bytes()), value_str(&gen_value(r, &lim, 0, false)))
}

pub const KINDS: &[&str] = &[
    "print_job", "get_printer_attributes", "create_job", "send_document", "purge_jobs", "cancel_job", "get_job_attributes", "get_jobs",
    "cups_get_printers", "cups_delete_printer", "new_request", "new_response",
];

/// `build …` (or the argument part of `order …`) for one kind with a random call sequence
pub fn gen_build_args(r: &mut Rng, kind: &str) -> String {
    let u = gen_uri(r);
    let uri = hex(u.text.as_bytes());
    match kind {
        "new_response" => {
            let st = *r.pick(&[0u16, 1, 2, 0x0400, 0x0406, 0x0500, 0x0507, 0xffff]);
            return format!("new_response {:04x} {:04x} {:08x}", if r.chance(1, 2) { 0x0101 } else { r.next() as u16 }, st, r.next() as u32);
        }
        "new_request" => {
            let op = *r.pick(&[2u16, 4, 5, 6, 8, 9, 0xa, 0xb, 0x12, 0x4002, 0x4004, 0x4028]);
            let ur = if r.chance(1, 5) { "~".to_string() } else { uri };
            return format!("new_request {} {:04x} {:04x}", ur, if r.chance(1, 2) { 0x0101 } else { r.next() as u16 }, op);
        }
        _ => {}
    }
    let job_id = if r.chance(1, 2) { r.range(1, 1000) as u32 } else { r.next() as u32 };
    let payload = {
        let n = r.below(40) as usize;
        r.bytes(n)
    };
    let ncalls = r.below(7);
    let mut calls: Vec<String> = vec![];
    for _ in 0..ncalls {
        let c = match kind {
            "print_job" => match r.below(5) {
                0 | 1 => format!("(user_name {})", gen_text_arg(r)),
                2 => format!("(job_title {})", gen_text_arg(r)),
                3 => format!("(attribute {})", gen_job_attr(r)),
                _ => format!("(attributes {})", (0..r.below(4)).map(|_| gen_job_attr(r)).collect::<Vec<_>>().join(" ")),
            },
            "create_job" => match r.below(4) {
                0 | 1 => format!("(job_name {})", gen_text_arg(r)),
                2 => format!("(attribute {})", gen_job_attr(r)),
                _ => format!("(attributes {})", (0..r.below(4)).map(|_| gen_job_attr(r)).collect::<Vec<_>>().join(" ")),
            },
            "get_printer_attributes" => match r.below(3) {
                0 | 1 => format!("(attribute {})", gen_text_arg(r)),
                _ => format!("(attributes {})", (0..r.below(4)).map(|_| gen_text_arg(r)).collect::<Vec<_>>().join(" ")),
            },
            "send_document" => match r.below(3) {
                0 => format!("(last {})", r.below(2)),
                _ => format!("(user_name {})", gen_text_arg(r)),
            },
            "purge_jobs" | "cancel_job" | "get_job_attributes" | "get_jobs" => format!("(user_name {})", gen_text_arg(r)),
            _ => continue,
        };
        calls.push(c);
    }
    format!("{} {} {:08x} {} (calls{}{})", kind, uri, job_id, hex(&payload), if calls.is_empty() { "" } else { " " }, calls.join(" "))
}

pub fn gen_adds(r: &mut Rng) -> String {
    let lim = Limits { max_depth: 1, boundary: false };
    let n = r.below(6);
    let names = ["job-uri", "job-id", "printer-uri", "attributes-charset", "attributes-natural-language", "requesting-user-name", "x", "document-format", "a",
        // names that extend the specially ordered ones, or that they extend
        "printer-uri-supported", "job-ids", "job-uri-x", "attributes-charset-supported", "attributes-natural-language-x", "job-id-attribute", "job", "printer", "attributes"];
    let ops: Vec<String> = (0..n)
        .map(|_| {
            let tag = *r.pick(&[1u8, 1, 1, 2, 4]);
            // the other operation attributes RFC 8011 registers (requests and responses): none of them has a fixed position
            let others = ["status-message", "detailed-status-message", "document-access-error", "job-name", "document-name", "compression",
                "ipp-attribute-fidelity", "last-document", "which-jobs", "limit", "my-jobs", "requested-attributes", "document-natural-language",
                "job-k-octets", "message", "purge-jobs", "printer-up-time", "job-impressions", "job-media-sheets", "document-uri", "first-job-id"];
            let name = if r.chance(1, 3) { *r.pick(&others) } else { *r.pick(&names) };
            format!("(op {:02x} {} {})", tag, hex(name.as_bytes()), value_str(&gen_scalar(r, &lim, false)))
        })
        .collect();
    format!("(adds{}{})", if ops.is_empty() { "" } else { " " }, ops.join(" "))
}
