//! One PRNG for every random choice (splitmix64); a case replays from (seed, index).
#[derive(Clone)]
pub struct Rng(pub u64);

impl Rng {
    pub fn new(seed: u64) -> Self {
        Rng(seed ^ 0x9e37_79b9_7f4a_7c15)
    }
    pub fn fork(&mut self) -> Rng {
        Rng(self.next())
    }
    pub fn next(&mut self) -> u64 {
        self.0 = self.0.wrapping_add(0x9e37_79b9_7f4a_7c15);
        let mut z = self.0;
        z = (z ^ (z >> 30)).wrapping_mul(0xbf58_476d_1ce4_e5b9);
        z = (z ^ (z >> 27)).wrapping_mul(0x94d0_49bb_1331_11eb);
        z ^ (z >> 31)
    }
    pub fn below(&mut self, n: u64) -> u64 {
        if n == 0 {
            0
        } else {
            self.next() % n
        }
    }
    pub fn range(&mut self, lo: u64, hi: u64) -> u64 {
        lo + self.below(hi - lo + 1)
    }
    pub fn chance(&mut self, num: u64, den: u64) -> bool {
        self.below(den) < num
    }
    pub fn pick<'a, T>(&mut self, xs: &'a [T]) -> &'a T {
        &xs[self.below(xs.len() as u64) as usize]
    }
    pub fn bytes(&mut self, n: usize) -> Vec<u8> {
        (0..n).map(|_| self.next() as u8).collect()
    }
    pub fn shuffle<T>(&mut self, xs: &mut [T]) {
        for i in (1..xs.len()).rev() {
            let j = self.below(i as u64 + 1) as usize;
            xs.swap(i, j);
        }
    }
}
