//! Text format of the line protocol (DESIGN Appendix B): S-expressions with hex byte strings.
//! Mirrors lean/Driver/Text.lean.

use std::collections::BTreeMap;
use std::fmt::Write;

use ipp::prelude::*;

#[derive(Clone, Debug, PartialEq)]
pub enum SExp {
    Atom(String),
    List(Vec<SExp>),
}

impl SExp {
    pub fn atom(&self) -> Option<&str> {
        match self {
            SExp::Atom(s) => Some(s),
            _ => None,
        }
    }
    pub fn list(&self) -> Option<&[SExp]> {
        match self {
            SExp::List(l) => Some(l),
            _ => None,
        }
    }
}

pub fn parse_line(line: &str) -> Result<Vec<SExp>, String> {
    let mut stack: Vec<Vec<SExp>> = vec![vec![]];
    let mut cur = String::new();
    let flush = |cur: &mut String, stack: &mut Vec<Vec<SExp>>| {
        if !cur.is_empty() {
            stack.last_mut().unwrap().push(SExp::Atom(std::mem::take(cur)));
        }
    };
    for c in line.chars() {
        match c {
            '(' => {
                flush(&mut cur, &mut stack);
                stack.push(vec![]);
            }
            ')' => {
                flush(&mut cur, &mut stack);
                if stack.len() < 2 {
                    return Err("unbalanced )".into());
                }
                let top = stack.pop().unwrap();
                stack.last_mut().unwrap().push(SExp::List(top));
            }
            ' ' | '\t' | '\n' | '\r' => flush(&mut cur, &mut stack),
            c => cur.push(c),
        }
    }
    flush(&mut cur, &mut stack);
    if stack.len() != 1 {
        return Err("unbalanced (".into());
    }
    Ok(stack.pop().unwrap())
}

pub fn hex(b: &[u8]) -> String {
    if b.is_empty() {
        return "-".into();
    }
    let mut s = String::with_capacity(b.len() * 2);
    for x in b {
        s.push(char::from_digit((*x >> 4) as u32, 16).unwrap());
        s.push(char::from_digit((*x & 15) as u32, 16).unwrap());
    }
    s
}

pub fn unhex(s: &str) -> Option<Vec<u8>> {
    if s == "-" {
        return Some(vec![]);
    }
    let b = s.as_bytes();
    if b.len() % 2 != 0 {
        return None;
    }
    let mut out = Vec::with_capacity(b.len() / 2);
    for i in (0..b.len()).step_by(2) {
        let hi = (b[i] as char).to_digit(16)?;
        let lo = (b[i + 1] as char).to_digit(16)?;
        out.push((hi * 16 + lo) as u8);
    }
    Some(out)
}

pub fn hexnum(s: &str) -> Option<u64> {
    u64::from_str_radix(s, 16).ok()
}

fn str_of(b: &[u8]) -> Option<String> {
    String::from_utf8(b.to_vec()).ok()
}

pub fn show_value(v: &IppValue, out: &mut String) {
    let kind = |k: &str, s: &str, out: &mut String| {
        let _ = write!(out, "(str {} {})", k, hex(s.as_bytes()));
    };
    match v {
        IppValue::Integer(i) => {
            let _ = write!(out, "(int {:08x})", *i as u32);
        }
        IppValue::Enum(i) => {
            let _ = write!(out, "(enum {:08x})", *i as u32);
        }
        IppValue::Boolean(b) => {
            let _ = write!(out, "(bool {})", *b as u8);
        }
        IppValue::OctetString(s) => kind("octet", s, out),
        IppValue::TextWithoutLanguage(s) => kind("text", s, out),
        IppValue::NameWithoutLanguage(s) => kind("name", s, out),
        IppValue::Charset(s) => kind("charset", s, out),
        IppValue::NaturalLanguage(s) => kind("lang", s, out),
        IppValue::Uri(s) => kind("uri", s, out),
        IppValue::UriScheme(s) => kind("scheme", s, out),
        IppValue::Keyword(s) => kind("keyword", s, out),
        IppValue::MimeMediaType(s) => kind("mime", s, out),
        IppValue::MemberAttrName(s) => kind("member", s, out),
        IppValue::TextWithLanguage { language, text } => {
            let _ = write!(out, "(lang text {} {})", hex(language.as_bytes()), hex(text.as_bytes()));
        }
        IppValue::NameWithLanguage { language, name } => {
            let _ = write!(out, "(lang name {} {})", hex(language.as_bytes()), hex(name.as_bytes()));
        }
        IppValue::RangeOfInteger { min, max } => {
            let _ = write!(out, "(range {:08x} {:08x})", *min as u32, *max as u32);
        }
        IppValue::DateTime {
            year,
            month,
            day,
            hour,
            minutes,
            seconds,
            deci_seconds,
            utc_dir,
            utc_hours,
            utc_mins,
        } => {
            let _ = write!(
                out,
                "(dt {:04x} {:02x} {:02x} {:02x} {:02x} {:02x} {:02x} {:06x} {:02x} {:02x})",
                year, month, day, hour, minutes, seconds, deci_seconds, *utc_dir as u32, utc_hours, utc_mins
            );
        }
        IppValue::Resolution { cross_feed, feed, units } => {
            let _ = write!(out, "(res {:08x} {:08x} {:02x})", *cross_feed as u32, *feed as u32, *units as u8);
        }
        IppValue::NoValue => out.push_str("(novalue)"),
        IppValue::Other { tag, data } => {
            let _ = write!(out, "(other {:02x} {})", tag, hex(data));
        }
        IppValue::Array(vs) => {
            out.push_str("(array");
            for v in vs {
                out.push(' ');
                show_value(v, out);
            }
            out.push(')');
        }
        IppValue::Collection(ms) => {
            out.push_str("(coll");
            for (k, v) in ms {
                let _ = write!(out, " ({} ", hex(k.as_bytes()));
                show_value(v, out);
                out.push(')');
            }
            out.push(')');
        }
    }
}

pub fn value_str(v: &IppValue) -> String {
    let mut s = String::new();
    show_value(v, &mut s);
    s
}

pub fn read_value(e: &SExp) -> Option<IppValue> {
    let l = e.list()?;
    let head = l.first()?.atom()?;
    let a = |i: usize| -> Option<&str> { l.get(i)?.atom() };
    let i32h = |i: usize| -> Option<i32> { Some(hexnum(a(i)?)? as u32 as i32) };
    let u8h = |i: usize| -> Option<u8> { Some(hexnum(a(i)?)? as u8) };
    let sh = |i: usize| -> Option<String> { str_of(&unhex(a(i)?)?) };
    Some(match head {
        "int" => IppValue::Integer(i32h(1)?),
        "enum" => IppValue::Enum(i32h(1)?),
        "bool" => IppValue::Boolean(a(1)? == "1"),
        "str" => {
            let s = sh(2)?;
            match a(1)? {
                "octet" => IppValue::OctetString(s),
                "text" => IppValue::TextWithoutLanguage(s),
                "name" => IppValue::NameWithoutLanguage(s),
                "charset" => IppValue::Charset(s),
                "lang" => IppValue::NaturalLanguage(s),
                "uri" => IppValue::Uri(s),
                "scheme" => IppValue::UriScheme(s),
                "keyword" => IppValue::Keyword(s),
                "mime" => IppValue::MimeMediaType(s),
                "member" => IppValue::MemberAttrName(s),
                _ => return None,
            }
        }
        "lang" => match a(1)? {
            "text" => IppValue::TextWithLanguage { language: sh(2)?, text: sh(3)? },
            "name" => IppValue::NameWithLanguage { language: sh(2)?, name: sh(3)? },
            _ => return None,
        },
        "range" => IppValue::RangeOfInteger { min: i32h(1)?, max: i32h(2)? },
        "dt" => IppValue::DateTime {
            year: hexnum(a(1)?)? as u16,
            month: u8h(2)?,
            day: u8h(3)?,
            hour: u8h(4)?,
            minutes: u8h(5)?,
            seconds: u8h(6)?,
            deci_seconds: u8h(7)?,
            utc_dir: char::from_u32(hexnum(a(8)?)? as u32)?,
            utc_hours: u8h(9)?,
            utc_mins: u8h(10)?,
        },
        "res" => IppValue::Resolution { cross_feed: i32h(1)?, feed: i32h(2)?, units: u8h(3)? as i8 },
        "novalue" => IppValue::NoValue,
        "other" => IppValue::Other { tag: u8h(1)?, data: unhex(a(2)?)?.into() },
        "array" => IppValue::Array(l[1..].iter().map(read_value).collect::<Option<Vec<_>>>()?),
        "coll" => {
            let mut m = BTreeMap::new();
            for e in &l[1..] {
                let p = e.list()?;
                if p.len() != 2 {
                    return None;
                }
                m.insert(str_of(&unhex(p[0].atom()?)?)?, read_value(&p[1])?);
            }
            IppValue::Collection(m)
        }
        _ => return None,
    })
}

/// A message as data: header fields and groups, each group a list of (name, value) in some order.
#[derive(Clone, Debug)]
pub struct Msg {
    pub version: u16,
    pub op: u16,
    pub id: u32,
    pub groups: Vec<(u8, Vec<(String, IppValue)>)>,
}

pub fn show_msg(m: &Msg) -> String {
    let mut s = String::new();
    let _ = write!(s, "(msg {:04x} {:04x} {:08x}", m.version, m.op, m.id);
    for (t, attrs) in &m.groups {
        let _ = write!(s, " (g {:02x}", t);
        for (n, v) in attrs {
            let _ = write!(s, " (a {} ", hex(n.as_bytes()));
            show_value(v, &mut s);
            s.push(')');
        }
        s.push(')');
    }
    s.push(')');
    s
}

pub fn read_msg(e: &SExp) -> Option<Msg> {
    let l = e.list()?;
    if l.first()?.atom()? != "msg" {
        return None;
    }
    let mut groups = vec![];
    for g in l.get(4..)? {
        let gl = g.list()?;
        if gl.first()?.atom()? != "g" {
            return None;
        }
        let tag = hexnum(gl.get(1)?.atom()?)? as u8;
        let mut attrs = vec![];
        for a in gl.get(2..)? {
            let al = a.list()?;
            if al.len() != 3 || al[0].atom()? != "a" {
                return None;
            }
            attrs.push((str_of(&unhex(al[1].atom()?)?)?, read_value(&al[2])?));
        }
        groups.push((tag, attrs));
    }
    Some(Msg {
        version: hexnum(l.get(1)?.atom()?)? as u16,
        op: hexnum(l.get(2)?.atom()?)? as u16,
        id: hexnum(l.get(3)?.atom()?)? as u32,
        groups,
    })
}

/// Build the real object from message data (fresh hash maps, attributes inserted in the given order).
thread_local! {
    /// the message most recently handed to `build` (kept so that a panic of the library while the harness is preparing
    /// its inputs can be reported with the message that caused it)
    pub static LAST_BUILT: std::cell::RefCell<Option<Msg>> = const { std::cell::RefCell::new(None) };
}

pub fn build(m: &Msg) -> Option<IppRequestResponse> {
    LAST_BUILT.with(|c| *c.borrow_mut() = Some(m.clone()));
    let mut r = IppRequestResponse::new_response(IppVersion(m.version), StatusCode::SuccessfulOk, m.id);
    r.header_mut().operation_or_status = m.op;
    let groups = r.attributes_mut().groups_mut();
    groups.clear();
    for (t, attrs) in &m.groups {
        let mut g = IppAttributeGroup::new(DelimiterTag::from_u8(*t)?);
        for (n, v) in attrs {
            g.attributes_mut().insert(n.clone(), IppAttribute::new(n, v.clone()));
        }
        groups.push(g);
    }
    Some(r)
}

/// Message data of a real object. `listing = true`: attributes in the instance's iteration order;
/// otherwise sorted by key (canonical).  Second component: some key differs from the stored name.
pub fn unbuild(h: &IppHeader, a: &IppAttributes, listing: bool) -> (Msg, bool) {
    let mut bad = false;
    let mut groups = vec![];
    for g in a.groups() {
        let mut attrs: Vec<(String, IppValue)> = vec![];
        for (k, at) in g.attributes() {
            if k != at.name() {
                bad = true;
            }
            attrs.push((k.clone(), at.value().clone()));
        }
        if !listing {
            attrs.sort_by(|x, y| x.0.as_bytes().cmp(y.0.as_bytes()));
        }
        groups.push((g.tag() as u8, attrs));
    }
    (
        Msg { version: h.version.0, op: h.operation_or_status, id: h.request_id, groups },
        bad,
    )
}

pub fn io_kind_name(k: std::io::ErrorKind) -> &'static str {
    use std::io::ErrorKind::*;
    match k {
        UnexpectedEof => "eof",
        InvalidData => "invalid-data",
        ConnectionReset => "reset",
        ConnectionAborted => "aborted",
        TimedOut => "timed-out",
        BrokenPipe => "broken-pipe",
        PermissionDenied => "denied",
        Other => "other",
        WouldBlock => "would-block",
        Interrupted => "interrupted",
        InvalidInput => "invalid-input",
        _ => "unmapped",
    }
}

pub fn io_kind_of(s: &str) -> Option<std::io::ErrorKind> {
    use std::io::ErrorKind::*;
    Some(match s {
        "eof" => UnexpectedEof,
        "invalid-data" => InvalidData,
        "reset" => ConnectionReset,
        "aborted" => ConnectionAborted,
        "timed-out" => TimedOut,
        "broken-pipe" => BrokenPipe,
        "denied" => PermissionDenied,
        "other" => Other,
        "would-block" => WouldBlock,
        "interrupted" => Interrupted,
        "invalid-input" => InvalidInput,
        _ => return None,
    })
}

pub fn show_parse_err(e: &ipp::parser::IppParseError) -> String {
    use ipp::parser::IppParseError::*;
    match e {
        InvalidTag(t) => format!("(err tag {:02x})", t),
        InvalidCollection => "(err coll)".into(),
        IoError(e) => format!("(err io {})", io_kind_name(e.kind())),
    }
}
