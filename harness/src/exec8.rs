//! HTTP clients against the scripted loopback server (C11).
use std::io::Read;
use std::time::Duration;

use ipp::prelude::*;

use crate::exec::*;
use crate::httpd::*;
use crate::text::*;

fn badarg(line: &str, why: &str) -> CaseResult {
    CaseResult { line: line.to_string(), result: format!("(bad-arg {})", why), oracle: None, class: "bad-arg".into() }
}

pub fn exec8(prop: &str, op: &str, line: &str, args: &[SExp]) -> Option<CaseResult> {
    Some(match op {
        "send" => op_send(line, args),
        "send_many" => op_send_many(line, args),
        _ => return crate::exec9::exec9(prop, op, line, args),
    })
}

pub fn runtime() -> &'static tokio::runtime::Runtime {
    static RT: std::sync::OnceLock<tokio::runtime::Runtime> = std::sync::OnceLock::new();
    RT.get_or_init(|| tokio::runtime::Builder::new_multi_thread().worker_threads(4).enable_all().build().unwrap())
}

pub struct Cfg {
    pub headers: Vec<(String, String)>,
    pub auth: Option<(String, String)>,
    pub timeout_ms: Option<u64>,
}

fn find_list<'a>(args: &'a [SExp], head: &str) -> Option<&'a [SExp]> {
    args.iter().filter_map(|a| a.list()).find(|l| l.first().and_then(|x| x.atom()) == Some(head))
}

fn hexs(e: Option<&SExp>) -> Option<String> {
    String::from_utf8(unhex(e?.atom()?)?).ok()
}

pub fn read_cfg(l: &[SExp]) -> Option<Cfg> {
    let mut cfg = Cfg { headers: vec![], auth: None, timeout_ms: None };
    for e in &l[1..] {
        let x = e.list()?;
        match x.first()?.atom()? {
            "h" => cfg.headers.push((hexs(x.get(1))?, hexs(x.get(2))?)),
            "auth" => cfg.auth = Some((hexs(x.get(1))?, hexs(x.get(2))?)),
            "timeout" => cfg.timeout_ms = x.get(1)?.atom()?.parse().ok(),
            _ => return None,
        }
    }
    Some(cfg)
}

pub fn read_reply(l: &[SExp]) -> Option<Reply> {
    let status: u16 = l.get(1)?.atom()?.parse().ok()?;
    let framing = match l.get(2)?.atom()? {
        "cl" => Framing::ContentLength,
        "chunked" => Framing::Chunked,
        "close" => Framing::Close,
        _ => return None,
    };
    let body = unhex(l.get(3)?.atom()?)?;
    let mut r = Reply { status, framing, body, fragments: vec![], cut_at: None, stall: None, drip: None };
    let mut takes: Option<u64> = None;
    for e in &l[4..] {
        let x = e.list()?;
        match x.first()?.atom()? {
            "frags" => r.fragments = x[1..].iter().map(|a| a.atom().and_then(|s| s.parse().ok())).collect::<Option<Vec<usize>>>()?,
            "cut" => r.cut_at = x.get(1)?.atom()?.parse().ok(),
            "stall" => r.stall = Some(Duration::from_millis(x.get(1)?.atom()?.parse().ok()?)),
            "drip" => r.drip = Some(Duration::from_millis(x.get(1)?.atom()?.parse().ok()?)),
            "takes" => takes = x.get(1)?.atom()?.parse().ok(),
            _ => return None,
        }
    }
    let _ = takes;
    Some(r)
}

pub enum SendOutcome {
    Ok(IppHeader, IppAttributes, Vec<u8>),
    Status(u16),
    Other(String),
}

fn classify(e: IppError) -> SendOutcome {
    match e {
        IppError::RequestError(c) => SendOutcome::Status(c),
        IppError::ClientError(ureq::Error::Status(c, _)) => SendOutcome::Status(c),
        e => SendOutcome::Other(format!("{}", e)),
    }
}

pub fn apply_cfg<T>(mut b: ipp::client::IppClientBuilder<T>, cfg: &Cfg) -> ipp::client::IppClientBuilder<T> {
    for (k, v) in &cfg.headers {
        b = b.http_header(k, v);
    }
    if let Some((u, p)) = &cfg.auth {
        b = b.basic_auth(u, p);
    }
    if let Some(t) = cfg.timeout_ms {
        b = b.request_timeout(Duration::from_millis(t));
    }
    b
}

pub fn send_blocking(uri: Uri, cfg: &Cfg, req: IppRequestResponse) -> SendOutcome {
    let client = apply_cfg(IppClient::builder(uri), cfg).build();
    match client.send(req) {
        Ok(resp) => {
            let h = resp.header().clone();
            let a = resp.attributes().clone();
            let mut rest = vec![];
            let mut p = resp.into_payload();
            match Read::read_to_end(&mut p, &mut rest) {
                Ok(_) => SendOutcome::Ok(h, a, rest),
                Err(e) => SendOutcome::Other(format!("payload: {}", e)),
            }
        }
        Err(e) => classify(e),
    }
}

pub fn send_async(uri: Uri, cfg: &Cfg, req: IppRequestResponse) -> SendOutcome {
    let client = apply_cfg(AsyncIppClient::builder(uri), cfg).build();
    runtime().block_on(async move {
        match client.send(req).await {
            Ok(resp) => {
                use futures_util::io::AsyncReadExt;
                let h = resp.header().clone();
                let a = resp.attributes().clone();
                let mut rest = vec![];
                let mut p = resp.into_payload();
                match AsyncReadExt::read_to_end(&mut p, &mut rest).await {
                    Ok(_) => SendOutcome::Ok(h, a, rest),
                    Err(e) => SendOutcome::Other(format!("payload: {}", e)),
                }
            }
            Err(e) => classify(e),
        }
    })
}

pub fn show_outcome(o: &SendOutcome) -> String {
    match o {
        SendOutcome::Ok(h, a, rest) => {
            let (m, _) = unbuild(h, a, false);
            format!("(ok {} rest={})", show_msg(&m), hex(rest))
        }
        SendOutcome::Status(c) => format!("(err status {})", c),
        SendOutcome::Other(_) => "(err other)".into(),
    }
}

pub fn show_captured(caps: &[Captured]) -> String {
    match caps.first() {
        None => format!("(none) n={}", caps.len()),
        Some(c) => {
            let get = |k: &str| c.headers.iter().filter(|h| h.0 == k).map(|h| h.1.clone()).collect::<Vec<_>>();
            let ct = get("content-type").join(",");
            let auth = get("authorization");
            let mut custom: Vec<(String, String)> = c.headers.iter().filter(|h| h.0.starts_with("x-")).cloned().collect();
            custom.sort();
            format!(
                "({} {} ct={} auth={} custom=({}) body={} complete={}) n={}",
                c.method,
                hex(c.target.as_bytes()),
                hex(ct.as_bytes()),
                if auth.is_empty() { "~".to_string() } else { hex(auth.join(",").as_bytes()) },
                custom.iter().map(|(k, v)| format!("({} {})", hex(k.as_bytes()), hex(v.as_bytes()))).collect::<Vec<_>>().join(" "),
                hex(&c.body),
                c.complete as u8,
                caps.len()
            )
        }
    }
}

/// `send CLIENT MSG PAYLOAD (cfg …) (target PATHQ) (srv STATUS FRAMING BODY …)`
fn op_send(line: &str, args: &[SExp]) -> CaseResult {
    let client = args.first().and_then(|a| a.atom()).unwrap_or("").to_string();
    let m = match args.get(1).and_then(read_msg) {
        Some(m) => m,
        None => return badarg(line, "msg"),
    };
    let payload = match args.get(2).and_then(|a| a.atom()).and_then(unhex) {
        Some(p) => p,
        None => return badarg(line, "payload"),
    };
    let cfg = match find_list(args, "cfg").and_then(read_cfg) {
        Some(c) => c,
        None => return badarg(line, "cfg"),
    };
    let pathq = match find_list(args, "target").and_then(|l| hexs(l.get(1))) {
        Some(p) => p,
        None => return badarg(line, "target"),
    };
    let reply = match find_list(args, "srv").and_then(read_reply) {
        Some(r) => r,
        None => return badarg(line, "srv"),
    };
    let mut req = match build(&m) {
        Some(r) => r,
        None => return badarg(line, "group-tag"),
    };
    let (listing, _) = unbuild(req.header(), req.attributes(), true);
    let want_body = {
        let mut b = req.to_bytes().to_vec();
        b.extend_from_slice(&payload);
        b
    };
    // payload delivered by a fragmenting blocking source
    let chunks: Vec<crate::sources::Ev> = payload.chunks(7).map(|c| crate::sources::Ev::Data(c.to_vec())).collect();
    *req.payload_mut() = IppPayload::new(crate::sources::Script::new(chunks, false));
    // history in this process first: a differently configured client of the same kind (no extra headers, no credentials,
    // a long timeout) makes one exchange with the same server; what it was configured with must not reach the real one
    let prime_reply = Reply::ok(IppRequestResponse::new_response(IppVersion::v1_1(), StatusCode::SuccessfulOk, 1).to_bytes().to_vec());
    let server = Server::start(vec![prime_reply, reply.clone()]);
    let uri: Uri = match format!("ipp://127.0.0.1:{}{}", server.port, pathq).parse() {
        Ok(u) => u,
        Err(_) => {
            server.finish();
            return badarg(line, "uri");
        }
    };
    {
        let prime_cfg = Cfg { headers: vec![], auth: None, timeout_ms: Some(20_000) };
        let prime_req = IppRequestResponse::new(IppVersion::v1_1(), Operation::GetPrinterAttributes, Some(uri.clone()));
        let primed = match client.as_str() {
            "blocking" => Some(send_blocking(uri.clone(), &prime_cfg, prime_req)),
            "async" => Some(send_async(uri.clone(), &prime_cfg, prime_req)),
            _ => None,
        };
        if let Some(o) = primed {
            if !matches!(o, SendOutcome::Ok(..)) {
                server.finish();
                return CaseResult { line: line.into(), result: "(priming-failed)".into(), oracle: Some(format!("the preceding plain exchange with the same server failed: {}", show_outcome(&o))), class: "priming".into() };
            }
        }
    }
    let t0 = std::time::Instant::now();
    let outcome = match client.as_str() {
        "blocking" => send_blocking(uri, &cfg, req),
        "async" => send_async(uri, &cfg, req),
        _ => {
            server.finish();
            return badarg(line, "client");
        }
    };
    let elapsed = t0.elapsed();
    let mut caps = server.finish();
    if !caps.is_empty() {
        caps.remove(0); // the priming exchange
    }
    // effective line: the request message with its listing
    let mut eff = format!("send {} {} {}", client, show_msg(&listing), hex(&payload));
    for a in &args[3..] {
        eff.push(' ');
        eff.push_str(&show_sexp(a));
    }
    let result = format!("req={} resp={}", show_captured(&caps), show_outcome(&outcome));
    // direct oracles
    let mut oracle = None;
    if caps.len() != 1 {
        oracle = Some(format!("the server saw {} requests, expected exactly one", caps.len()));
    } else {
        let c = &caps[0];
        if c.method != "POST" {
            oracle = Some(format!("HTTP method is {}", c.method));
        } else if c.target != pathq && !(pathq.is_empty() && c.target == "/") {
            oracle = Some(format!("request target `{}`, expected `{}`", c.target, pathq));
        } else if !c.headers.iter().any(|h| h.0 == "content-type" && h.1 == "application/ipp") {
            oracle = Some("Content-Type application/ipp missing".into());
        } else if c.body != want_body {
            oracle = Some(format!("request body has {} bytes, expected {} (encoded request {} + payload {})", c.body.len(), want_body.len(), want_body.len() - payload.len(), payload.len()));
        } else {
            // the builder keeps headers in a map: configuring a name again replaces the earlier value
            let mut last: std::collections::BTreeMap<String, String> = Default::default();
            for (k, v) in &cfg.headers {
                last.insert(k.to_ascii_lowercase(), v.clone());
            }
            for (k, v) in &last {
                if !c.headers.iter().any(|h| &h.0 == k && &h.1 == v) {
                    oracle = Some(format!("custom header {}: {} not on the wire", k, v));
                }
            }
            if let Some((u, p)) = &cfg.auth {
                let want = format!("Basic {}", b64(format!("{}:{}", u, p).as_bytes()));
                if !c.headers.iter().any(|h| h.0 == "authorization" && h.1 == want) {
                    oracle = Some("Basic credentials of the configured user and password not on the wire".into());
                }
            }
        }
    }
    if oracle.is_none() {
        let is_ok = matches!(outcome, SendOutcome::Ok(..));
        let total_ms = reply.stall.map(|s| s.as_millis() as u64).unwrap_or(0)
            + reply.drip.map(|d| {
                let frag = reply.fragments.first().cloned().unwrap_or(reply.body.len().max(1)).max(1);
                d.as_millis() as u64 * ((reply.body.len() + frag - 1) / frag) as u64
            }).unwrap_or(0);
        let timed_out = match cfg.timeout_ms {
            Some(t) => total_ms > 2 * t,
            None => false,
        };
        if (reply.status >= 400 || reply.cut_at.is_some() || timed_out) && is_ok {
            oracle = Some(format!("a {} was returned as a success", if reply.status >= 400 { format!("HTTP status {}", reply.status) } else if timed_out { "timed-out exchange".to_string() } else { "response cut before the end of the attributes".to_string() }));
        } else if timed_out && elapsed > Duration::from_secs(20) {
            oracle = Some(format!("request timeout of {:?} ms took {:?}", cfg.timeout_ms, elapsed));
        } else if reply.status < 300 && reply.cut_at.is_none() && !timed_out {
            // the value returned is exactly the server's response
            let expect = parsed_text(parse_flat(&reply.body)).0;
            let got = show_outcome(&outcome);
            if expect.starts_with("(ok") && got != expect {
                oracle = Some(format!("returned {} but the server sent {}", clip(&got), clip(&expect)));
            }
        }
    }
    let class = format!("{}-{}-{:?}{}{}", client, reply.status, reply.framing, if reply.cut_at.is_some() { "-cut" } else { "" }, if reply.stall.is_some() { "-stall" } else { "" });
    CaseResult { line: eff, result, oracle, class }
}

pub fn show_sexp(e: &SExp) -> String {
    match e {
        SExp::Atom(a) => a.clone(),
        SExp::List(l) => format!("({})", l.iter().map(show_sexp).collect::<Vec<_>>().join(" ")),
    }
}

pub fn b64(data: &[u8]) -> String {
    const T: &[u8; 64] = b"ABCDEFGHIJKLMNOPQRSTUVWXYZabcdefghijklmnopqrstuvwxyz0123456789+/";
    let mut out = String::new();
    for c in data.chunks(3) {
        let b = [c[0], *c.get(1).unwrap_or(&0), *c.get(2).unwrap_or(&0)];
        let n = ((b[0] as u32) << 16) | ((b[1] as u32) << 8) | b[2] as u32;
        out.push(T[(n >> 18) as usize & 63] as char);
        out.push(T[(n >> 12) as usize & 63] as char);
        out.push(if c.len() > 1 { T[(n >> 6) as usize & 63] as char } else { '=' });
        out.push(if c.len() > 2 { T[n as usize & 63] as char } else { '=' });
    }
    out
}

/// `send_many CLIENT N`: N concurrent sends through one client; the server echoes each request-id
fn op_send_many(line: &str, args: &[SExp]) -> CaseResult {
    let client = args.first().and_then(|a| a.atom()).unwrap_or("").to_string();
    let n: u32 = match args.get(1).and_then(|a| a.atom()).and_then(|s| s.parse().ok()) {
        Some(n) => n,
        None => return badarg(line, "n"),
    };
    let responder: std::sync::Arc<dyn Fn(&Captured) -> Reply + Send + Sync> = std::sync::Arc::new(|c: &Captured| {
        // request-id is bytes 4..8 of the body; answer with the same id and an attribute carrying it
        let id = if c.body.len() >= 8 { u32::from_be_bytes([c.body[4], c.body[5], c.body[6], c.body[7]]) } else { 0 };
        let mut r = IppRequestResponse::new_response(IppVersion::v1_1(), StatusCode::SuccessfulOk, id);
        r.attributes_mut().add(DelimiterTag::JobAttributes, IppAttribute::new("job-id", IppValue::Integer(id as i32)));
        let mut body = r.to_bytes().to_vec();
        body.extend_from_slice(format!("payload-{}", id).as_bytes());
        let mut rep = Reply::ok(body);
        rep.fragments = vec![5, 11, 3];
        rep.framing = if id % 2 == 0 { Framing::Chunked } else { Framing::ContentLength };
        rep
    });
    let server = Server::start_with(vec![], Some(responder));
    let uri: Uri = format!("ipp://127.0.0.1:{}/printers/p", server.port).parse().unwrap();
    let mk = |id: u32| {
        let mut r = IppRequestResponse::new(IppVersion::v1_1(), Operation::GetJobAttributes, Some(uri.clone()));
        r.header_mut().request_id = id;
        r
    };
    let check = |id: u32, o: SendOutcome| -> bool {
        match o {
            SendOutcome::Ok(h, a, rest) => {
                h.request_id == id
                    && rest == format!("payload-{}", id).as_bytes()
                    && a.groups_of(DelimiterTag::JobAttributes).next().and_then(|g| g.attributes().get("job-id")).map(|x| x.value() == &IppValue::Integer(id as i32)).unwrap_or(false)
            }
            _ => false,
        }
    };
    let cfg = Cfg { headers: vec![], auth: None, timeout_ms: Some(20_000) };
    let good: u32 = match client.as_str() {
        "blocking" => {
            let c = std::sync::Arc::new(apply_cfg(IppClient::builder(uri.clone()), &cfg).build());
            let hs: Vec<_> = (1..=n)
                .map(|id| {
                    let c = c.clone();
                    let req = mk(id);
                    std::thread::spawn(move || match c.send(req) {
                        Ok(resp) => {
                            let h = resp.header().clone();
                            let a = resp.attributes().clone();
                            let mut rest = vec![];
                            let mut p = resp.into_payload();
                            let _ = Read::read_to_end(&mut p, &mut rest);
                            SendOutcome::Ok(h, a, rest)
                        }
                        Err(e) => classify(e),
                    })
                })
                .collect();
            hs.into_iter().enumerate().map(|(i, h)| check(i as u32 + 1, h.join().unwrap_or(SendOutcome::Other("join".into()))) as u32).sum()
        }
        "async" => {
            let c = std::sync::Arc::new(apply_cfg(AsyncIppClient::builder(uri.clone()), &cfg).build());
            runtime().block_on(async {
                let mut hs = vec![];
                for id in 1..=n {
                    let c = c.clone();
                    let req = mk(id);
                    hs.push(tokio::spawn(async move {
                        match c.send(req).await {
                            Ok(resp) => {
                                use futures_util::io::AsyncReadExt;
                                let h = resp.header().clone();
                                let a = resp.attributes().clone();
                                let mut rest = vec![];
                                let mut p = resp.into_payload();
                                let _ = AsyncReadExt::read_to_end(&mut p, &mut rest).await;
                                SendOutcome::Ok(h, a, rest)
                            }
                            Err(e) => classify(e),
                        }
                    }));
                }
                let mut good = 0;
                for (i, h) in hs.into_iter().enumerate() {
                    if let Ok(o) = h.await {
                        good += check(i as u32 + 1, o) as u32;
                    }
                }
                good
            })
        }
        _ => {
            server.finish();
            return badarg(line, "client");
        }
    };
    let caps = server.finish();
    let oracle = if good != n || caps.len() != n as usize {
        Some(format!("{} of {} concurrent senders got their own response; the server saw {} requests", good, n, caps.len()))
    } else {
        None
    };
    CaseResult { line: line.into(), result: format!("own-response={} of {}", good, n), oracle, class: format!("{}-concurrent", client) }
}
