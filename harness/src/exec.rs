//! Execution of one case line on the real implementation.
use std::io::{Cursor, Read};
use std::panic::{catch_unwind, AssertUnwindSafe};

use ipp::parser::{IppParseError, IppParser};
use ipp::prelude::*;
use ipp::reader::IppReader;

use crate::text::*;

pub struct CaseResult {
    /// the line both sides are run on (may differ from the input line: listings are re-read from the instance)
    pub line: String,
    /// canonical result text of the implementation
    pub result: String,
    /// direct-oracle failure on the implementation, if any
    pub oracle: Option<String>,
    /// classification for the input-distribution statistics
    pub class: String,
}

fn bad(line: &str, why: &str) -> CaseResult {
    CaseResult { line: line.to_string(), result: format!("(bad-arg {})", why), oracle: None, class: "bad-arg".into() }
}

pub fn parsed_text(r: Result<(IppHeader, IppAttributes, Vec<u8>), IppParseError>) -> (String, bool) {
    match r {
        Ok((h, a, rest)) => {
            let (m, badkey) = unbuild(&h, &a, false);
            (format!("(ok {} rest={})", show_msg(&m), hex(&rest)), badkey)
        }
        Err(e) => (show_parse_err(&e), false),
    }
}

/// blocking parser on a fully available byte string; the rest of the reader is drained
pub fn parse_flat(bytes: &[u8]) -> Result<(IppHeader, IppAttributes, Vec<u8>), IppParseError> {
    let (h, a, rd) = IppParser::new(IppReader::new(Cursor::new(bytes.to_vec()))).parse_parts()?;
    let mut rest = vec![];
    rd.into_inner().read_to_end(&mut rest).map_err(IppParseError::IoError)?;
    Ok((h, a, rest))
}

pub fn parse_flat_async(bytes: &[u8]) -> Result<(IppHeader, IppAttributes, Vec<u8>), IppParseError> {
    use futures_util::io::AsyncReadExt;
    use ipp::parser::AsyncIppParser;
    use ipp::reader::AsyncIppReader;
    futures_executor::block_on(async {
        let (h, a, rd) = AsyncIppParser::new(AsyncIppReader::new(futures_util::io::Cursor::new(bytes.to_vec())))
            .parse_parts()
            .await?;
        let mut rest = vec![];
        rd.into_inner().read_to_end(&mut rest).await.map_err(IppParseError::IoError)?;
        Ok((h, a, rest))
    })
}

/// everything C02 lists as "then": display, re-encode, traverse, clone, drop
pub fn exercise_value(v: &IppValue) -> usize {
    let mut n = 0;
    n += format!("{}", v).len();
    n += v.to_bytes().len();
    n += v.to_tag() as usize;
    for e in v {
        n += e.to_tag() as usize;
    }
    let c = v.clone();
    n += (c == *v) as usize;
    drop(c);
    n
}

pub fn exercise_attrs(h: &IppHeader, a: &IppAttributes) -> usize {
    let mut n = h.to_bytes().len() + a.to_bytes().len();
    for g in a.groups() {
        for at in g.attributes().values() {
            n += exercise_value(at.value());
            n += at.to_bytes().len();
        }
    }
    let c = a.clone();
    n += c.groups().len();
    drop(c);
    n
}

pub fn guarded<F: FnOnce() -> CaseResult>(line: &str, f: F) -> CaseResult {
    match catch_unwind(AssertUnwindSafe(f)) {
        Ok(r) => r,
        Err(_) => CaseResult {
            line: line.to_string(),
            result: "(panic)".into(),
            oracle: Some("panic in the implementation".into()),
            class: "panic".into(),
        },
    }
}

pub fn outcome_class(result: &str) -> String {
    if result.starts_with("(ok") {
        "ok".into()
    } else if result.starts_with("(err io") {
        result.trim_end_matches(')').replace("(err io ", "io-")
    } else if result.starts_with("(err tag") {
        "invalid-tag".into()
    } else if result.starts_with("(err coll") {
        "invalid-collection".into()
    } else if result.starts_with("(panic") {
        "panic".into()
    } else {
        "other".into()
    }
}

/// the case being executed and when it started: a watchdog thread (main.rs) ends the process when one case
/// runs for more than `HANG_SECS` (C02: "never … loop forever")
pub static CURRENT: std::sync::Mutex<Option<(String, std::time::Instant)>> = std::sync::Mutex::new(None);
pub const HANG_SECS: u64 = 30;

pub fn exec(prop: &str, line: &str) -> CaseResult {
    *CURRENT.lock().unwrap() = Some((line.to_string(), std::time::Instant::now()));
    let r = exec_inner(prop, line);
    *CURRENT.lock().unwrap() = None;
    r
}

fn exec_inner(prop: &str, line: &str) -> CaseResult {
    let toks = match parse_line(line) {
        Ok(t) => t,
        Err(e) => return bad(line, &e),
    };
    let op = match toks.first().and_then(|t| t.atom()) {
        Some(o) => o.to_string(),
        None => return bad(line, "no-op"),
    };
    let args = &toks[1..];
    guarded(line, || match op.as_str() {
        "status" => op_status(line, args),
        "enum" => op_enum(line, args),
        "decode_value" => op_decode_value(line, args),
        "encode_value" => op_encode_value(line, args),
        "roundtrip" => op_roundtrip(prop, line, args),
        "parse" => op_parse(prop, line, args),
        "tagpos" => op_tagpos(line, args),
        _ => crate::exec2::exec2(prop, &op, line, args).unwrap_or_else(|| bad(line, "unknown-op")),
    })
}

fn op_status(line: &str, args: &[SExp]) -> CaseResult {
    let c = match args.first().and_then(|a| a.atom()).and_then(hexnum) {
        Some(c) => c as u16,
        None => return bad(line, "status"),
    };
    // optional: protocol version and request-id of the header the status word sits in
    let ver = args.get(1).and_then(|a| a.atom()).and_then(hexnum).map(|v| v as u16).unwrap_or(0x0101);
    let id = args.get(2).and_then(|a| a.atom()).and_then(hexnum).map(|v| v as u32).unwrap_or(1);
    let h = IppHeader::new(IppVersion(ver), c, id);
    let s = h.status_code();
    let result = format!("{:?} {}", s, s.is_success() as u8);
    let mut oracle = crate::registry::check_status(c, &format!("{:?}", s), s.is_success());
    if oracle.is_none() {
        // a header object that has been looked at before and is then given this status word (the field is public),
        // and a clone of it: the decoding follows the word the header holds now
        let mut reused = IppHeader::new(IppVersion(ver), if c == 0 { 0x0507 } else { 0 }, id);
        let _ = reused.status_code();
        let _ = reused.status_code().is_success();
        reused.operation_or_status = c;
        let rs = reused.status_code();
        let cl = reused.clone();
        let cs = cl.status_code();
        if format!("{:?} {}", rs, rs.is_success() as u8) != result {
            oracle = Some(format!("a header whose status word was changed to 0x{:04x} after it had been decoded once still decodes to {:?} (a fresh header gives {:?})", c, rs, s));
        } else if format!("{:?}", cs) != format!("{:?}", s) {
            oracle = Some(format!("the clone of a header with status 0x{:04x} decodes to {:?}, the header itself to {:?}", c, cs, s));
        }
    }
    if oracle.is_none() && args.len() > 1 {
        // the same word in a header that came out of the parser
        let mut wire = vec![];
        wire.extend_from_slice(&ver.to_be_bytes());
        wire.extend_from_slice(&c.to_be_bytes());
        wire.extend_from_slice(&id.to_be_bytes());
        wire.push(3);
        match parse_flat(&wire) {
            Ok((ph, _, _)) => {
                let ps = ph.status_code();
                if format!("{:?} {}", ps, ps.is_success() as u8) != result {
                    oracle = Some(format!("status 0x{:04x} decodes to {:?} on a constructed header but to {:?} on the parsed header (version {:04x}, request-id {})", c, s, ps, ver, id));
                }
            }
            Err(e) => oracle = Some(format!("a bare header with status 0x{:04x}, version {:04x} is not parsed: {}", c, ver, show_parse_err(&e))),
        }
    }
    CaseResult { line: line.into(), result, oracle, class: if s.is_success() { "success".into() } else { "not-success".into() } }
}

fn op_enum(line: &str, args: &[SExp]) -> CaseResult {
    let (name, n) = match (args.first().and_then(|a| a.atom()), args.get(1).and_then(|a| a.atom()).and_then(hexnum)) {
        (Some(n), Some(c)) => (n, c),
        _ => return bad(line, "enum"),
    };
    fn f<T: std::fmt::Debug>(x: Option<T>) -> String {
        x.map(|v| format!("{:?}", v)).unwrap_or_else(|| "none".into())
    }
    let result = match name {
        "Operation" => f(Operation::from_u64(n)),
        "PrinterState" => f(PrinterState::from_u64(n)),
        "Orientation" => f(Orientation::from_u64(n)),
        "PrintQuality" => f(PrintQuality::from_u64(n)),
        "Finishings" => f(Finishings::from_u64(n)),
        "JobState" => f(JobState::from_u64(n)),
        "DelimiterTag" => f(DelimiterTag::from_u64(n)),
        "ValueTag" => f(ValueTag::from_u64(n)),
        "StatusCode" => f(StatusCode::from_u64(n)),
        _ => return bad(line, "enum-name"),
    };
    let oracle = crate::registry::check_enum(name, n, &result);
    let class = if result == "none" { "undefined" } else { "defined" };
    CaseResult { line: line.into(), result, oracle, class: class.into() }
}

fn op_decode_value(line: &str, args: &[SExp]) -> CaseResult {
    let (tag, body) = match (
        args.first().and_then(|a| a.atom()).and_then(hexnum),
        args.get(1).and_then(|a| a.atom()).and_then(unhex),
    ) {
        (Some(t), Some(b)) => (t as u8, b),
        _ => return bad(line, "decode_value"),
    };
    let result = match IppValue::parse(tag, body.into()) {
        Ok(v) => {
            exercise_value(&v);
            format!("(ok {})", value_str(&v))
        }
        Err(e) => format!("(err io {})", io_kind_name(e.kind())),
    };
    let class = outcome_class(&result);
    CaseResult { line: line.into(), result, oracle: None, class }
}

fn op_encode_value(line: &str, args: &[SExp]) -> CaseResult {
    let v = match args.first().and_then(read_value) {
        Some(v) => v,
        None => return bad(line, "encode_value"),
    };
    let result = format!("{:02x} {}", v.to_tag(), hex(&v.to_bytes()));
    CaseResult { line: line.into(), result, oracle: None, class: "value".into() }
}

/// `roundtrip MSG payload`: encode the instance (its own iteration order), parse bytes ++ payload
fn op_roundtrip(prop: &str, line: &str, args: &[SExp]) -> CaseResult {
    let (m, payload) = match (args.first().and_then(read_msg), args.get(1).and_then(|a| a.atom()).and_then(unhex)) {
        (Some(m), Some(p)) => (m, p),
        _ => return bad(line, "roundtrip"),
    };
    let req = match build(&m) {
        Some(r) => r,
        None => return bad(line, "group-tag"),
    };
    let (listing, _) = unbuild(req.header(), req.attributes(), true);
    let eff = format!("roundtrip {} {}", show_msg(&listing), hex(&payload));
    let bytes = req.to_bytes();
    let mut all = bytes.to_vec();
    all.extend_from_slice(&payload);
    let (ptext, badkey) = parsed_text(parse_flat(&all));
    let expect = format!("(ok {} rest={})", show_msg(&crate::gen::wire_normal_form(&m)), hex(&payload));
    let mut oracle = None;
    if ptext != expect {
        oracle = Some(format!("round trip differs: parsed {} expected {}", clip(&ptext), clip(&expect)));
    } else if badkey {
        oracle = Some("map key differs from stored attribute name".into());
    }
    if oracle.is_none() && (prop == "C01" || prop == "C05") {
        let (atext, _) = parsed_text(parse_flat_async(&all));
        if atext != ptext {
            oracle = Some(format!("async parser differs: {} vs {}", clip(&atext), clip(&ptext)));
        }
    }
    let _ = prop;
    CaseResult { line: eff, result: format!("{} {}", hex(&bytes), ptext), oracle, class: "roundtrip".into() }
}

pub fn clip(s: &str) -> String {
    if s.len() > 400 {
        format!("{}…[{} chars]", &s[..s.char_indices().nth(400).map(|x| x.0).unwrap_or(s.len()).min(s.len())], s.len())
    } else {
        s.to_string()
    }
}

/// `tagpos OFFSET HEX`: the byte at OFFSET stands where a tag is expected (by construction of the case).  When it is
/// outside the delimiter range 0x01-0x05 and the value-tag range 0x10-0x4a both parsers must reject the message
/// naming that byte; a parser that accepts has skipped it.
fn op_tagpos(line: &str, args: &[SExp]) -> CaseResult {
    let (pos, bytes) = match (args.first().and_then(|a| a.atom()).and_then(|s| s.parse::<usize>().ok()), args.get(1).and_then(|a| a.atom()).and_then(unhex)) {
        (Some(p), Some(b)) if p < b.len() => (p, b),
        _ => return bad(line, "tagpos"),
    };
    let b = bytes[pos];
    let (ptext, _) = parsed_text(parse_flat(&bytes));
    let (atext, _) = parsed_text(parse_flat_async(&bytes));
    let mut oracle = None;
    let in_range = (0x01..=0x05).contains(&b) || (0x10..=0x4a).contains(&b);
    if !in_range {
        let want = format!("(err tag {:02x})", b);
        if ptext != want {
            oracle = Some(format!("byte 0x{:02x} at offset {} where a tag is expected: the blocking parser answers {} instead of rejecting it", b, pos, clip(&ptext)));
        } else if atext != want {
            oracle = Some(format!("byte 0x{:02x} at offset {} where a tag is expected: the async parser answers {} instead of rejecting it", b, pos, clip(&atext)));
        }
    } else if atext != ptext {
        oracle = Some(format!("async parser differs: {} vs {}", clip(&atext), clip(&ptext)));
    }
    let class = outcome_class(&ptext);
    CaseResult { line: line.into(), result: ptext, oracle, class }
}

fn op_parse(prop: &str, line: &str, args: &[SExp]) -> CaseResult {
    let bytes = match args.first().and_then(|a| a.atom()).and_then(unhex) {
        Some(b) => b,
        None => return bad(line, "parse"),
    };
    let r = parse_flat(&bytes);
    if let Ok((h, a, _)) = &r {
        exercise_attrs(h, a);
    }
    let (ptext, badkey) = parsed_text(r);
    let mut oracle = None;
    if badkey {
        oracle = Some("map key differs from stored attribute name".into());
    }
    {
        let (atext, _) = parsed_text(parse_flat_async(&bytes));
        if atext != ptext {
            oracle = Some(format!("async parser differs: {} vs {}", clip(&atext), clip(&ptext)));
        }
    }
    // the other public ways into the same parsers (a bare reader converted by `From`/`Into`; `parse()` instead of
    // `parse_parts()`): same header, attributes and trailing bytes, same errors.  Every third input.
    if oracle.is_none() && bytes.len() % 3 == 0 && bytes.len() <= 1 << 20 {
        let via_parse = |r: Result<IppRequestResponse, IppParseError>| -> String {
            match r {
                Ok(resp) => {
                    let (h, a) = (resp.header().clone(), resp.attributes().clone());
                    let rest = {
                        use std::io::Read;
                        let mut v = vec![];
                        let _ = resp.into_payload().read_to_end(&mut v);
                        v
                    };
                    parsed_text(Ok((h, a, rest))).0
                }
                Err(e) => parsed_text(Err(e)).0,
            }
        };
        let t1 = via_parse(ipp::parser::IppParser::new(std::io::Cursor::new(bytes.clone())).parse());
        let t2 = via_parse(ipp::parser::IppParser::new(ipp::reader::IppReader::from(std::io::Cursor::new(bytes.clone()))).parse());
        let t3 = via_parse(futures_executor::block_on(ipp::parser::AsyncIppParser::new(futures_util::io::Cursor::new(bytes.clone())).parse()));
        let t4 = via_parse(futures_executor::block_on(
            ipp::parser::AsyncIppParser::new(ipp::reader::AsyncIppReader::from(futures_util::io::Cursor::new(bytes.clone()))).parse(),
        ));
        for (name, t) in [("IppParser::new(reader).parse()", &t1), ("IppParser::new(IppReader::from(reader)).parse()", &t2),
                          ("AsyncIppParser::new(reader).parse()", &t3), ("AsyncIppParser::new(AsyncIppReader::from(reader)).parse()", &t4)] {
            if *t != ptext {
                oracle = Some(format!("{} gives {} but parse_parts() on an explicit reader gives {}", name, clip(t), clip(&ptext)));
                break;
            }
        }
    }
    let _ = prop;
    let class = outcome_class(&ptext);
    CaseResult { line: line.into(), result: ptext, oracle, class }
}
