//! Parsers over scripted sources (C05, C06, C07).
use std::io::Read;

use futures_util::io::AsyncReadExt;
use ipp::parser::{AsyncIppParser, IppParseError, IppParser};
use ipp::prelude::*;
use ipp::reader::{AsyncIppReader, IppReader};

use crate::exec::*;
use crate::sources::*;
use crate::text::*;

fn badarg(line: &str, why: &str) -> CaseResult {
    CaseResult { line: line.to_string(), result: format!("(bad-arg {})", why), oracle: None, class: "bad-arg".into() }
}

pub fn exec4(prop: &str, op: &str, line: &str, args: &[SExp]) -> Option<CaseResult> {
    Some(match op {
        "parse_src" => op_parse_src(prop, line, args),
        _ => return crate::exec5::exec5(prop, op, line, args),
    })
}

type Parsed = Result<(IppHeader, IppAttributes, Vec<u8>), IppParseError>;

pub fn parse_sync_script(evs: Vec<Ev>) -> Parsed {
    let (h, a, rd) = IppParser::new(IppReader::new(Script::new(evs, false))).parse_parts()?;
    let mut s = rd.into_inner();
    let mut rest = vec![];
    let mut buf = [0u8; 4096];
    loop {
        match Read::read(&mut s, &mut buf) {
            Ok(0) => break,
            Ok(n) => rest.extend_from_slice(&buf[..n]),
            Err(e) if e.kind() == std::io::ErrorKind::Interrupted => continue,
            Err(_) => break,
        }
    }
    Ok((h, a, rest))
}

pub fn parse_async_script(evs: Vec<Ev>, deferred: bool) -> Result<Parsed, String> {
    let script = Script::new(evs, deferred);
    let parked = script.parked.clone();
    let total: usize = script.events.iter().map(|e| if let Ev::Data(b) = e { b.len() } else { 1 }).sum::<usize>() + 16;
    let fut = async move {
        let (h, a, rd) = AsyncIppParser::new(AsyncIppReader::new(script)).parse_parts().await?;
        let mut s = rd.into_inner();
        let mut rest = vec![];
        let mut buf = [0u8; 4096];
        loop {
            match AsyncReadExt::read(&mut s, &mut buf).await {
                Ok(0) => break,
                Ok(n) => rest.extend_from_slice(&buf[..n]),
                Err(e) if e.kind() == std::io::ErrorKind::Interrupted => continue,
                Err(_) => break,
            }
        }
        Ok((h, a, rest))
    };
    match run(fut, &parked, total * 4 + 64) {
        Ok(r) => Ok(r),
        Err(Hang::NoWakeup(p)) => Err(format!("task suspended without a wake-up after {} polls", p)),
        Err(Hang::TooManyPolls(p)) => Err(format!("no completion after {} polls", p)),
    }
}

/// read an `IppPayload` to its end through the blocking interface, with a small buffer
fn drain_payload(mut p: IppPayload) -> Vec<u8> {
    let mut out = vec![];
    let mut buf = [0u8; 512];
    loop {
        match Read::read(&mut p, &mut buf) {
            Ok(0) => break,
            Ok(n) => out.extend_from_slice(&buf[..n]),
            Err(e) if e.kind() == std::io::ErrorKind::Interrupted => continue,
            Err(_) => break,
        }
    }
    out
}

/// the same script with the not-ready results removed (what a blocking source can express)
fn deliver(evs: &[Ev]) -> Vec<Ev> {
    evs.iter().filter(|e| !matches!(e, Ev::Pend)).cloned().collect()
}

fn flat(evs: &[Ev]) -> Option<Vec<u8>> {
    let mut out = vec![];
    for e in evs {
        match e {
            Ev::Data(b) => out.extend_from_slice(b),
            Ev::Pend | Ev::Intr => {}
            Ev::Fail(_) => return None,
        }
    }
    Some(out)
}

/// `parse_src MODE events…`, MODE = sync | async | async-deferred
fn op_parse_src(prop: &str, line: &str, args: &[SExp]) -> CaseResult {
    let mode = match args.first().and_then(|a| a.atom()) {
        Some(m) => m.to_string(),
        None => return badarg(line, "mode"),
    };
    let evs = match read_events(&args[1..]) {
        Some(e) => e,
        None => return badarg(line, "events"),
    };
    let has_intr = evs.iter().any(|e| matches!(e, Ev::Intr));
    let has_fail = evs.iter().any(|e| matches!(e, Ev::Fail(_)));
    let mut oracle: Option<String> = None;
    let (text, badkey) = match mode.as_str() {
        "sync" => parsed_text(parse_sync_script(evs.clone())),
        "async" | "async-deferred" => match parse_async_script(evs.clone(), mode == "async-deferred") {
            Ok(p) => parsed_text(p),
            Err(h) => {
                oracle = Some(h);
                ("(hang)".to_string(), false)
            }
        },
        _ => return badarg(line, "mode"),
    };
    if badkey {
        oracle = Some("map key differs from stored attribute name".into());
    }
    // C05: the async parser and the blocking parser agree on the same data and error events
    if oracle.is_none() && mode != "sync" && !has_intr {
        let (stext, _) = parsed_text(parse_sync_script(deliver(&evs)));
        if stext != text {
            oracle = Some(format!("async outcome {} differs from blocking outcome {}", clip(&text), clip(&stext)));
        }
    }
    // C06: fragmentation (and interruptions, for the blocking reader) never change the result
    if oracle.is_none() && !has_fail && (mode == "sync" || !has_intr) {
        if let Some(all) = flat(&evs) {
            let (ftext, _) = parsed_text(parse_flat(&all));
            if ftext != text {
                oracle = Some(format!("outcome {} differs from the outcome on the unfragmented bytes {}", clip(&text), clip(&ftext)));
            }
        }
    }
    // C06: the same bytes through `parse()` and the payload it hands back (`IppPayload`, read through std::io::Read):
    // the payload must be exactly what is left of the stream
    if prop == "C06" && oracle.is_none() && !has_fail && text.starts_with("(ok") {
        if let Some(all) = flat(&evs) {
            if let Ok((_, _, want_rest)) = parse_flat(&all) {
                let got = if mode == "sync" && all.len() % 2 == 1 {
                    // the payload of a blocking parse read through the async interface: interrupted reads of the
                    // source stay invisible there as well
                    ipp::parser::IppParser::new(ipp::reader::IppReader::new(Script::new(evs.clone(), false))).parse().ok().and_then(|r| {
                        let mut p = r.into_payload();
                        futures_executor::block_on(async move {
                            let mut out = vec![];
                            let mut buf = [0u8; 333];
                            loop {
                                match AsyncReadExt::read(&mut p, &mut buf).await {
                                    Ok(0) => break Some(out),
                                    Ok(n) => out.extend_from_slice(&buf[..n]),
                                    Err(_) => break Some(out),
                                }
                            }
                        })
                    })
                } else if mode == "sync" {
                    ipp::parser::IppParser::new(ipp::reader::IppReader::new(Script::new(evs.clone(), false))).parse().ok().map(|r| drain_payload(r.into_payload()))
                } else if !has_intr {
                    let script = Script::new(evs.clone(), false);
                    let parked = script.parked.clone();
                    match run(async move { AsyncIppParser::new(AsyncIppReader::new(script)).parse().await }, &parked, 10_000_000) {
                        Ok(Ok(r)) => {
                            // alternate between the blocking and the async side of the payload
                            if all.len() % 2 == 0 {
                                Some(drain_payload(r.into_payload()))
                            } else {
                                let mut p = r.into_payload();
                                let parked2 = std::sync::Arc::new(std::sync::Mutex::new(vec![]));
                                run(async move {
                                    let mut out = vec![];
                                    let mut buf = [0u8; 777];
                                    loop {
                                        match AsyncReadExt::read(&mut p, &mut buf).await {
                                            Ok(0) => break,
                                            Ok(n) => out.extend_from_slice(&buf[..n]),
                                            Err(e) if e.kind() == std::io::ErrorKind::Interrupted => continue,
                                            Err(_) => break,
                                        }
                                    }
                                    out
                                }, &parked2, 10_000_000).ok()
                            }
                        }
                        _ => None,
                    }
                } else {
                    Some(want_rest.clone())
                };
                match got {
                    Some(g) if g == want_rest => {}
                    Some(g) => {
                        let at = g.iter().zip(want_rest.iter()).position(|(a, b)| a != b).unwrap_or(g.len().min(want_rest.len()));
                        oracle = Some(format!("payload handed back by parse() has {} bytes, the stream had {} left; first difference at offset {}", g.len(), want_rest.len(), at));
                    }
                    None => oracle = Some("parse() failed where parse_parts() succeeded".into()),
                }
            }
        }
    }
    // C07: the scripts of this property cut or fail the stream before the end-of-attributes tag of a
    // well-formed message: never accepted, and a failure is reported with its own kind
    if prop == "C07" && oracle.is_none() {
        if text.starts_with("(ok") {
            oracle = Some(format!("a truncated or failing stream was accepted as a complete message: {}", clip(&text)));
        } else if let Some(Ev::Fail(k)) = evs.iter().find(|e| matches!(e, Ev::Fail(_))) {
            let want = format!("(err io {})", io_kind_name(*k));
            if text != want {
                oracle = Some(format!("the source failed with {} but parsing returned {}", want, clip(&text)));
            }
        } else if !text.starts_with("(err io") {
            oracle = Some(format!("a truncated stream gave {}", clip(&text)));
        }
    }
    let class = format!("{}-{}", mode, outcome_class(&text));
    CaseResult { line: line.into(), result: text, oracle, class }
}
