//! Schedules and fault injections over byte strings (C05, C06, C07).
use crate::gen::*;
use crate::rng::Rng;
use crate::sources::*;
use crate::text::*;

/// every composition of `bytes` into chunks (2^(n-1) of them), as event lists
pub fn all_compositions(bytes: &[u8], mut f: impl FnMut(Vec<Ev>)) {
    let n = bytes.len();
    if n == 0 {
        f(vec![]);
        return;
    }
    for mask in 0u64..(1u64 << (n - 1)) {
        let mut evs = vec![];
        let mut start = 0;
        for i in 0..n - 1 {
            if mask & (1 << i) != 0 {
                evs.push(Ev::Data(bytes[start..=i].to_vec()));
                start = i + 1;
            }
        }
        evs.push(Ev::Data(bytes[start..].to_vec()));
        f(evs);
    }
}

pub fn uniform(bytes: &[u8], k: usize) -> Vec<Ev> {
    bytes.chunks(k.max(1)).map(|c| Ev::Data(c.to_vec())).collect()
}

pub fn random_composition(r: &mut Rng, bytes: &[u8]) -> Vec<Ev> {
    let mut evs = vec![];
    let mut i = 0;
    while i < bytes.len() {
        let k = match r.below(4) {
            0 => 1,
            1 => r.range(1, 4) as usize,
            2 => r.range(1, 32) as usize,
            _ => r.range(1, 300) as usize,
        }
        .min(bytes.len() - i);
        evs.push(Ev::Data(bytes[i..i + k].to_vec()));
        i += k;
    }
    evs
}

/// 0-2 not-ready results before each chunk
pub fn with_pending(r: &mut Rng, evs: Vec<Ev>) -> Vec<Ev> {
    let mut out = vec![];
    for e in evs {
        for _ in 0..r.below(3) {
            out.push(Ev::Pend);
        }
        out.push(e);
    }
    for _ in 0..r.below(2) {
        out.push(Ev::Pend);
    }
    out
}

pub fn with_interrupts(r: &mut Rng, evs: Vec<Ev>) -> Vec<Ev> {
    let mut out = vec![];
    for e in evs {
        for _ in 0..r.below(3) {
            out.push(Ev::Intr);
        }
        out.push(e);
    }
    out
}

pub fn line(mode: &str, evs: &[Ev]) -> String {
    format!("parse_src {} {}", mode, show_events(evs))
}

pub fn short_messages() -> Vec<Vec<u8>> {
    let hdr = crate::malformed::HEADER.to_vec();
    let mut v = vec![];
    let mut m = hdr.clone();
    m.push(3);
    v.push(m); // 9 bytes
    let mut m = hdr.clone();
    m.extend_from_slice(&[1, 3]);
    v.push(m); // 10
    let mut m = hdr.clone();
    m.extend_from_slice(&[1, 0x13, 0, 1, b'a', 0, 0, 3]);
    v.push(m); // 16: one no-value attribute
    let mut m = hdr.clone();
    m.extend_from_slice(&[1, 0x22, 0, 1, b'b', 0, 1, 1, 3, 0xaa, 0xbb]);
    v.push(m); // 17 + 2 payload bytes: one boolean attribute
    let mut m = hdr.clone();
    m.extend_from_slice(&[1, 0x21, 0, 1, b'a', 0, 2, 0, 0, 3]);
    v.push(m); // malformed: short integer
    let mut m = hdr.clone();
    m.extend_from_slice(&[2, 0x09, 3]);
    v.push(m); // malformed: bad tag
    let mut m = hdr.clone();
    m.extend_from_slice(&[1, 0x34, 0, 1, b'c', 0, 0, 0x37, 0, 0, 0, 0, 3]);
    v.push(m); // 21: empty collection
    v
}

pub fn wellformed(r: &mut Rng) -> (Vec<u8>, Vec<u8>) {
    let lim = Limits { max_depth: 3, boundary: false };
    loop {
        let m = gen_msg(r, &lim);
        if let Some(req) = build(&m) {
            let payload = match r.below(6) {
                0 => vec![],
                1 => vec![3],
                2 => vec![1, 0x21, 0, 1, 0x61, 0, 4, 0, 0, 0, 1, 3],
                3 => {
                    let n = r.range(1, 2000) as usize;
                    r.bytes(n)
                }
                _ => gen_payload(r),
            };
            return (req.to_bytes().to_vec(), payload);
        }
    }
}

pub const FAULT_KINDS: &[&str] = &["reset", "aborted", "timed-out", "broken-pipe", "eof", "denied", "other"];
