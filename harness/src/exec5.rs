//! Messages read as streams (C08).
use std::io::Read;

use futures_util::io::AsyncReadExt;
use ipp::prelude::*;

use crate::exec::*;
use crate::sources::*;
use crate::text::*;

fn badarg(line: &str, why: &str) -> CaseResult {
    CaseResult { line: line.to_string(), result: format!("(bad-arg {})", why), oracle: None, class: "bad-arg".into() }
}

pub fn exec5(prop: &str, op: &str, line: &str, args: &[SExp]) -> Option<CaseResult> {
    Some(match op {
        "stream" => op_stream(line, args),
        _ => return crate::exec6::exec6(prop, op, line, args),
    })
}

/// `stream KIND CONSUMER MSG (pay events…) (sizes n…)`
fn op_stream(line: &str, args: &[SExp]) -> CaseResult {
    let kind = args.first().and_then(|a| a.atom()).unwrap_or("").to_string();
    let cons = args.get(1).and_then(|a| a.atom()).unwrap_or("").to_string();
    let m = match args.get(2).and_then(read_msg) {
        Some(m) => m,
        None => return badarg(line, "msg"),
    };
    let evs = match args.get(3).and_then(|a| a.list()).filter(|l| l.first().and_then(|x| x.atom()) == Some("pay")).and_then(|l| read_events(&l[1..])) {
        Some(e) => e,
        None => return badarg(line, "pay"),
    };
    let sizes: Vec<usize> = match args.get(4).and_then(|a| a.list()).filter(|l| l.first().and_then(|x| x.atom()) == Some("sizes")) {
        Some(l) => match l[1..].iter().map(|a| a.atom().and_then(|s| s.parse().ok())).collect::<Option<Vec<usize>>>() {
            Some(v) => v,
            None => return badarg(line, "sizes"),
        },
        None => return badarg(line, "sizes"),
    };
    let mut req = match build(&m) {
        Some(r) => r,
        None => return badarg(line, "group-tag"),
    };
    let (listing, _) = unbuild(req.header(), req.attributes(), true);
    let header_bytes = req.to_bytes();
    let mut script_parked = None;
    match kind.as_str() {
        "none" => {}
        "sync" => *req.payload_mut() = IppPayload::new(Script::new(evs.clone(), false)),
        // read through the async interface, an async payload source is also run with wake-ups that only the
        // executor delivers (deferred): the stream must suspend and resume, not wait inside poll_read
        "async" => {
            let script = Script::new(evs.clone(), cons == "aread" && evs.len() % 3 == 1);
            script_parked = Some(script.parked.clone());
            *req.payload_mut() = IppPayload::new_async(script);
        }
        _ => return badarg(line, "kind"),
    }
    // …and under the executor of the `futures` crate instead of the harness's own
    let futures_exec = cons == "aread" && kind == "async" && evs.len() % 3 == 2;
    let eff = format!("stream {} {} {} (pay{}{}) (sizes{}{})", kind, cons, show_msg(&listing),
        if evs.is_empty() { "" } else { " " }, show_events(&evs),
        if sizes.is_empty() { "" } else { " " }, sizes.iter().map(|n| n.to_string()).collect::<Vec<_>>().join(" "));
    let mut out: Vec<u8> = vec![];
    let mut ending = "end".to_string();
    let mut buf = vec![0u8; 65536];
    let mut it = sizes.iter();
    let mut hang = None;
    match cons.as_str() {
        "read" => {
            let mut rd = req.into_read();
            let mut n = *it.next().unwrap_or(&4096);
            loop {
                match rd.read(&mut buf[..n.min(65536)]) {
                    Ok(0) if n != 0 => break,
                    Ok(k) => {
                        out.extend_from_slice(&buf[..k]);
                        n = *it.next().unwrap_or(&4096);
                    }
                    Err(e) if e.kind() == std::io::ErrorKind::Interrupted => continue,
                    Err(e) => {
                        ending = format!("err {}", io_kind_name(e.kind()));
                        out.clear();
                        break;
                    }
                }
            }
        }
        "aread" => {
            let parked = script_parked.clone().unwrap_or_else(|| std::sync::Arc::new(std::sync::Mutex::new(vec![])));
            let sizes2 = sizes.clone();
            let fut = async move {
                let mut rd = Box::pin(req.into_async_read());
                let mut out: Vec<u8> = vec![];
                let mut buf = vec![0u8; 65536];
                let mut it = sizes2.iter();
                let mut n = *it.next().unwrap_or(&4096);
                loop {
                    match rd.read(&mut buf[..n.min(65536)]).await {
                        Ok(0) if n != 0 => return (out, "end".to_string()),
                        Ok(k) => {
                            out.extend_from_slice(&buf[..k]);
                            n = *it.next().unwrap_or(&4096);
                        }
                        Err(e) if e.kind() == std::io::ErrorKind::Interrupted => continue,
                        Err(e) => return (vec![], format!("err {}", io_kind_name(e.kind()))),
                    }
                }
            };
            if futures_exec {
                let (o, e) = futures_executor::block_on(fut);
                out = o;
                ending = e;
            } else {
                match run(fut, &parked, 10_000_000) {
                    Ok((o, e)) => {
                        out = o;
                        ending = e;
                    }
                    Err(_) => hang = Some("the stream suspended without a wake-up".to_string()),
                }
            }
        }
        _ => return badarg(line, "consumer"),
    }
    let mut oracle = hang;
    // direct oracle: header-and-attributes bytes, then exactly the payload, then end of stream
    if oracle.is_none() && !evs.iter().any(|e| matches!(e, Ev::Fail(_))) {
        let mut want = header_bytes.to_vec();
        if kind != "none" {
            for e in &evs {
                if let Ev::Data(b) = e {
                    want.extend_from_slice(b);
                }
            }
        }
        if ending != "end" {
            oracle = Some(format!("reading the stream ended with `{}` although the payload source never failed", ending));
        } else if out != want {
            let at = out.iter().zip(want.iter()).position(|(a, b)| a != b).unwrap_or(out.len().min(want.len()));
            oracle = Some(format!("stream delivers {} bytes, expected {} (header+attributes {} then payload); first difference at offset {}", out.len(), want.len(), header_bytes.len(), at));
        }
    }
    CaseResult { line: eff, result: format!("{} {}", hex(&out), ending), oracle, class: format!("{}-{}", kind, cons) }
}
