//! Further ops: serde (C20); cost and clients are added in their own modules.
use ipp::prelude::*;

use crate::exec::*;
use crate::text::*;

fn badarg(line: &str, why: &str) -> CaseResult {
    CaseResult { line: line.to_string(), result: format!("(bad-arg {})", why), oracle: None, class: "bad-arg".into() }
}

pub fn exec6(prop: &str, op: &str, line: &str, args: &[SExp]) -> Option<CaseResult> {
    Some(match op {
        "json" => op_json(line, args),
        _ => return crate::exec7::exec7(prop, op, line, args),
    })
}

fn show_json(v: &serde_json::Value, out: &mut String) {
    use serde_json::Value::*;
    match v {
        Null => out.push_str("(z)"),
        Bool(b) => out.push_str(&format!("(b {})", *b as u8)),
        Number(n) => {
            if let Some(i) = n.as_i64() {
                out.push_str(&format!("(n {})", i))
            } else if let Some(u) = n.as_u64() {
                out.push_str(&format!("(n {})", u))
            } else {
                out.push_str(&format!("(f {})", n))
            }
        }
        String(s) => out.push_str(&format!("(s {})", hex(s.as_bytes()))),
        Array(a) => {
            out.push_str("(a");
            for x in a {
                out.push(' ');
                show_json(x, out);
            }
            out.push(')');
        }
        Object(o) => {
            let mut ks: Vec<&std::string::String> = o.keys().collect();
            ks.sort_by(|a, b| a.as_bytes().cmp(b.as_bytes()));
            out.push_str("(o");
            for k in ks {
                out.push_str(&format!(" ({} ", hex(k.as_bytes())));
                show_json(&o[k], out);
                out.push(')');
            }
            out.push(')');
        }
    }
}

/// `json MSG`: serialise with the real derive, canonical rendering of the JSON value, deserialise, compare
fn op_json(line: &str, args: &[SExp]) -> CaseResult {
    let m = match args.first().and_then(read_msg) {
        Some(m) => m,
        None => return badarg(line, "json"),
    };
    let req = match build(&m) {
        Some(r) => r,
        None => return badarg(line, "group-tag"),
    };
    let text = match serde_json::to_string(&req) {
        Ok(t) => t,
        Err(e) => return CaseResult { line: line.into(), result: format!("(ser-error {})", e), oracle: Some(format!("serialisation failed: {}", e)), class: "ser-error".into() },
    };
    let val: serde_json::Value = match serde_json::from_str(&text) {
        Ok(v) => v,
        Err(e) => return CaseResult { line: line.into(), result: "(not-json)".into(), oracle: Some(format!("output is not JSON: {}", e)), class: "not-json".into() },
    };
    let mut s = String::new();
    show_json(&val, &mut s);
    let mut oracle = None;
    // history on this thread first: forty rejected documents (prefixes of this one, most of them cut inside nested values),
    // then the document itself - what was rejected before must not change how a valid document is read
    let mut accepted_prefix = None;
    if text.len() > 41 {
        for i in 1..=40usize {
            let mut cut = text.len() * i / 41;
            while !text.is_char_boundary(cut) {
                cut -= 1;
            }
            if serde_json::from_str::<IppRequestResponse>(&text[..cut]).is_ok() {
                accepted_prefix = Some(cut);
            }
        }
    }
    let back: Result<IppRequestResponse, _> = serde_json::from_str(&text);
    let rt = match back {
        Ok(b) => {
            let (got, badkey) = unbuild(b.header(), b.attributes(), false);
            let want = crate::gen::canonical(&m);
            if show_msg(&got) != show_msg(&want) {
                oracle = Some(format!("deserialised message differs: {} vs {}", clip(&show_msg(&got)), clip(&show_msg(&want))));
                "rt=DIFF"
            } else if badkey {
                oracle = Some("map key differs from stored attribute name after deserialisation".into());
                "rt=DIFF"
            } else {
                use std::io::Read;
                let mut p = vec![];
                let _ = b.into_payload().read_to_end(&mut p);
                if !p.is_empty() {
                    oracle = Some("payload not empty after deserialisation".into());
                }
                "rt=ok"
            }
        }
        Err(e) => {
            oracle = Some(format!("deserialisation failed: {}", e));
            "rt=NONE"
        }
    };
    if val.get("payload").is_some() {
        oracle = Some("the payload was serialised".into());
    }
    if let (None, Some(cut)) = (&oracle, accepted_prefix) {
        oracle = Some(format!("the first {} octets of the {}-octet JSON document were accepted as a complete message", cut, text.len()));
    }
    CaseResult { line: line.into(), result: format!("{} {}", s, rt), oracle, class: "json".into() }
}
