//! Wire-level message trees generated from the RFC 8010 grammar (domain of C04), the harness's own
//! serializer for them, and the malformed stream (domain of C02).
use std::fmt::Write;

use crate::rng::Rng;
use crate::text::hex;

#[derive(Clone, Debug)]
pub enum WVal {
    Plain(u8, Vec<u8>),
    Coll(Vec<(Vec<u8>, Vec<WVal>)>),
}
#[derive(Clone, Debug)]
pub struct WAttr {
    pub name: Vec<u8>,
    pub vals: Vec<WVal>,
}
#[derive(Clone, Debug)]
pub struct WGroup {
    pub tag: u8,
    pub attrs: Vec<WAttr>,
}
#[derive(Clone, Debug)]
pub struct WMsg {
    pub version: u16,
    pub op: u16,
    pub id: u32,
    pub groups: Vec<WGroup>,
}

fn put_lv(out: &mut Vec<u8>, b: &[u8]) {
    out.extend_from_slice(&(b.len() as u16).to_be_bytes());
    out.extend_from_slice(b);
}

fn ser_val(out: &mut Vec<u8>, name: &[u8], v: &WVal) {
    match v {
        WVal::Plain(t, b) => {
            out.push(*t);
            put_lv(out, name);
            put_lv(out, b);
        }
        WVal::Coll(ms) => {
            out.push(0x34);
            put_lv(out, name);
            put_lv(out, &[]);
            for (k, vs) in ms {
                out.push(0x4a);
                put_lv(out, &[]);
                put_lv(out, k);
                for v in vs {
                    ser_val(out, &[], v);
                }
            }
            out.push(0x37);
            put_lv(out, &[]);
            put_lv(out, &[]);
        }
    }
}

/// RFC 8010 section 3.1 layout, written independently of the library and of the Lean `Spec.ser`
pub fn ser(w: &WMsg) -> Vec<u8> {
    let mut out = vec![];
    out.extend_from_slice(&w.version.to_be_bytes());
    out.extend_from_slice(&w.op.to_be_bytes());
    out.extend_from_slice(&w.id.to_be_bytes());
    for g in &w.groups {
        out.push(g.tag);
        for a in &g.attrs {
            for (i, v) in a.vals.iter().enumerate() {
                ser_val(&mut out, if i == 0 { &a.name } else { &[] }, v);
            }
        }
    }
    out.push(3);
    out
}

fn show_wval(v: &WVal, s: &mut String) {
    match v {
        WVal::Plain(t, b) => {
            let _ = write!(s, "(p {:02x} {})", t, hex(b));
        }
        WVal::Coll(ms) => {
            s.push_str("(c");
            for (k, vs) in ms {
                let _ = write!(s, " ({}", hex(k));
                for v in vs {
                    s.push(' ');
                    show_wval(v, s);
                }
                s.push(')');
            }
            s.push(')');
        }
    }
}

pub fn show_wmsg(w: &WMsg) -> String {
    let mut s = String::new();
    let _ = write!(s, "(wmsg {:04x} {:04x} {:08x}", w.version, w.op, w.id);
    for g in &w.groups {
        let _ = write!(s, " (wg {:02x}", g.tag);
        for a in &g.attrs {
            let _ = write!(s, " (wa {}", hex(&a.name));
            for v in &a.vals {
                s.push(' ');
                show_wval(v, &mut s);
            }
            s.push(')');
        }
        s.push(')');
    }
    s.push(')');
    s
}

pub fn read_wval(e: &crate::text::SExp) -> Option<WVal> {
    let l = e.list()?;
    match l.first()?.atom()? {
        "p" => Some(WVal::Plain(crate::text::hexnum(l.get(1)?.atom()?)? as u8, crate::text::unhex(l.get(2)?.atom()?)?)),
        "c" => {
            let mut ms = vec![];
            for m in &l[1..] {
                let ml = m.list()?;
                let k = crate::text::unhex(ml.first()?.atom()?)?;
                let vs = ml[1..].iter().map(read_wval).collect::<Option<Vec<_>>>()?;
                ms.push((k, vs));
            }
            Some(WVal::Coll(ms))
        }
        _ => None,
    }
}

pub fn read_wmsg(e: &crate::text::SExp) -> Option<WMsg> {
    use crate::text::{hexnum, unhex};
    let l = e.list()?;
    if l.first()?.atom()? != "wmsg" {
        return None;
    }
    let mut groups = vec![];
    for g in l.get(4..)? {
        let gl = g.list()?;
        if gl.first()?.atom()? != "wg" {
            return None;
        }
        let mut attrs = vec![];
        for a in gl.get(2..)? {
            let al = a.list()?;
            if al.first()?.atom()? != "wa" {
                return None;
            }
            attrs.push(WAttr { name: unhex(al.get(1)?.atom()?)?, vals: al[2..].iter().map(read_wval).collect::<Option<Vec<_>>>()? });
        }
        groups.push(WGroup { tag: hexnum(gl.get(1)?.atom()?)? as u8, attrs });
    }
    Some(WMsg {
        version: hexnum(l.get(1)?.atom()?)? as u16,
        op: hexnum(l.get(2)?.atom()?)? as u16,
        id: hexnum(l.get(3)?.atom()?)? as u32,
        groups,
    })
}

// ---------------------------------------------------------------------------------------------
// generation from the grammar

/// text that is sometimes not valid UTF-8
pub fn gen_text(r: &mut Rng, max: u64) -> Vec<u8> {
    let n = match r.below(8) {
        0 => 0,
        1..=5 => r.range(1, 8.min(max)),
        _ => r.range(1, max),
    } as usize;
    match r.below(6) {
        0 => r.bytes(n), // arbitrary bytes: mostly invalid UTF-8
        1 => {
            // valid prefix, then a truncated multi-byte sequence
            let mut v: Vec<u8> = (0..n).map(|_| r.range(0x20, 0x7e) as u8).collect();
            v.extend_from_slice(*r.pick(&[&[0xe2u8, 0x82][..], &[0xf0, 0x9f, 0x98], &[0xc3], &[0xed, 0xa0, 0x80], &[0xc0, 0xaf], &[0xf4, 0x90, 0x80, 0x80]]));
            v
        }
        2 => "é日本😀ß".as_bytes()[..].iter().cycle().take(0).cloned().chain("é日😀".bytes()).collect(),
        _ => (0..n).map(|_| r.range(0x20, 0x7e) as u8).collect(),
    }
}

/// syntactically valid body for a tag (RFC 8010 section 3.9), `bad`: deliberately not fitting
pub fn gen_body(r: &mut Rng, tag: u8, bad: bool) -> Vec<u8> {
    let fixed = |n: usize, r: &mut Rng, bad: bool| -> Vec<u8> {
        let n = if bad { *r.pick(&[0usize, n - 1, n + 1, n + 7]) } else { n };
        r.bytes(n)
    };
    match tag {
        0x21 | 0x23 => fixed(4, r, bad),
        0x22 => {
            if bad {
                fixed(1, r, true)
            } else {
                vec![*r.pick(&[0u8, 1, 1, 0, 2, 0xff])]
            }
        }
        0x33 => fixed(8, r, bad),
        0x31 => fixed(11, r, bad),
        0x32 => fixed(9, r, bad),
        0x35 | 0x36 => {
            let l = gen_text(r, 12);
            let t = gen_text(r, 40);
            let mut b = vec![];
            let ll = if bad && r.chance(1, 2) { l.len() as u16 + *r.pick(&[1u16, 2, 1000, 0xff00]) } else { l.len() as u16 };
            b.extend_from_slice(&ll.to_be_bytes());
            b.extend_from_slice(&l);
            let tl = if bad { t.len() as u16 + *r.pick(&[1u16, 0xffff, 3]) } else { t.len() as u16 };
            b.extend_from_slice(&tl.to_be_bytes());
            b.extend_from_slice(&t);
            if bad && r.chance(1, 3) {
                b.truncate(r.below(b.len() as u64 + 1) as usize);
            }
            b
        }
        0x13 => {
            if bad {
                r.bytes(3)
            } else {
                vec![]
            }
        }
        _ => gen_text(r, 60),
    }
}

pub struct WLimits {
    pub max_depth: u32,
    pub malformed_per_mille: u64,
    pub boundary: bool,
}

fn gen_plain(r: &mut Rng, lim: &WLimits, in_coll: bool) -> WVal {
    loop {
        let tag = if r.chance(3, 4) {
            *r.pick(&[0x21u8, 0x22, 0x23, 0x30, 0x31, 0x32, 0x33, 0x35, 0x36, 0x41, 0x42, 0x44, 0x45, 0x46, 0x47, 0x48, 0x49, 0x4a, 0x10, 0x12, 0x13])
        } else {
            r.range(0x10, 0x4a) as u8
        };
        let bad = r.below(1000) < lim.malformed_per_mille;
        if (tag == 0x34 || tag == 0x37 || (in_coll && tag == 0x4a)) && !bad {
            continue;
        }
        let mut body = gen_body(r, tag, bad && tag != 0x34 && tag != 0x37 && tag != 0x4a);
        if lim.boundary && r.chance(1, 500) && !matches!(tag, 0x21 | 0x22 | 0x23 | 0x31 | 0x32 | 0x33 | 0x35 | 0x36 | 0x13 | 0x34 | 0x37) {
            body = vec![0x61; *r.pick(&[255usize, 256, 65535])];
        }
        return WVal::Plain(tag, body);
    }
}

pub fn gen_wval(r: &mut Rng, lim: &WLimits, depth: u32, in_coll: bool) -> WVal {
    if depth < lim.max_depth && r.chance(1, 5) {
        let n = r.below(4);
        let mut ms = vec![];
        for _ in 0..n {
            let k = gen_text(r, 10);
            let nv = if r.below(1000) < lim.malformed_per_mille { 0 } else { r.range(1, 3) };
            let vs = (0..nv).map(|_| gen_wval(r, lim, depth + 1, true)).collect();
            ms.push((k, vs));
        }
        if r.chance(1, 10) && !ms.is_empty() {
            // duplicate member name
            let k = ms[0].0.clone();
            ms.push((k, vec![gen_wval(r, lim, depth + 1, true)]));
        }
        WVal::Coll(ms)
    } else {
        gen_plain(r, lim, in_coll)
    }
}

pub fn gen_wmsg(r: &mut Rng, lim: &WLimits) -> WMsg {
    let ng = r.below(5);
    let mut groups = vec![];
    for _ in 0..ng {
        let tag = *r.pick(&[1u8, 2, 4, 5, 1, 2, 4]);
        let na = r.below(5);
        let mut attrs: Vec<WAttr> = vec![];
        for _ in 0..na {
            let mut name = gen_text(r, 24);
            if name.is_empty() && r.below(1000) >= lim.malformed_per_mille {
                name = b"n".to_vec();
            }
            if r.chance(1, 12) && !attrs.is_empty() {
                name = attrs[0].name.clone(); // duplicate attribute name
            }
            let nv = if r.chance(2, 3) { 1 } else { r.range(2, 4) };
            let vals = (0..nv).map(|_| gen_wval(r, lim, 0, false)).collect();
            attrs.push(WAttr { name, vals });
        }
        groups.push(WGroup { tag, attrs });
    }
    WMsg { version: r.next() as u16, op: r.next() as u16, id: r.next() as u32, groups }
}
