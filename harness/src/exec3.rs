//! Ops for the container/iterator (C19), readiness (C17), FromStr (C18), URIs (C13/C14), builders (C10/C09).
use ipp::prelude::*;

use crate::exec::*;
use crate::text::*;

fn badarg(line: &str, why: &str) -> CaseResult {
    CaseResult { line: line.to_string(), result: format!("(bad-arg {})", why), oracle: None, class: "bad-arg".into() }
}

pub fn exec3(prop: &str, op: &str, line: &str, args: &[SExp]) -> Option<CaseResult> {
    Some(match op {
        "add_seq" => op_add_seq(line, args),
        "iter" => op_iter(line, args),
        "ready" => op_ready(line, args),
        "fromstr" => op_fromstr(line, args),
        "canon" => op_canon(line, args),
        "transport" => op_transport(line, args),
        "build" => op_build(prop, line, args),
        "order" => op_order(line, args),
        "manyreq" => op_manyreq(line, args),
        _ => return crate::exec4::exec4(prop, op, line, args),
    })
}

fn delim(t: u8) -> Option<DelimiterTag> {
    DelimiterTag::from_u8(t)
}

fn groups_of_text(a: &IppAttributes) -> String {
    let mut s = String::new();
    for t in [1u8, 2, 3, 4, 5] {
        let tag = delim(t).unwrap();
        // identify the returned groups by position in the message (pointer identity)
        let idx: Vec<String> = a
            .groups_of(tag)
            .map(|g| a.groups().iter().position(|x| std::ptr::eq(x, g)).map(|i| i.to_string()).unwrap_or("?".into()))
            .collect();
        s.push_str(&format!(" of{:02x}={}", t, if idx.is_empty() { "-".to_string() } else { idx.join(",") }));
    }
    s
}

/// `add_seq MSG (op TAG NAME VALUE)*`
fn op_add_seq(line: &str, args: &[SExp]) -> CaseResult {
    let m = match args.first().and_then(read_msg) {
        Some(m) => m,
        None => return badarg(line, "add_seq"),
    };
    let mut req = match build(&m) {
        Some(r) => r,
        None => return badarg(line, "group-tag"),
    };
    for a in &args[1..] {
        let l = match a.list() {
            Some(l) if l.len() == 4 => l,
            _ => return badarg(line, "op"),
        };
        let (t, n, v) = match (
            l[1].atom().and_then(hexnum).and_then(|t| delim(t as u8)),
            l[2].atom().and_then(unhex).and_then(|b| String::from_utf8(b).ok()),
            read_value(&l[3]),
        ) {
            (Some(t), Some(n), Some(v)) => (t, n, v),
            _ => return badarg(line, "op-fields"),
        };
        req.attributes_mut().add(t, IppAttribute::new(&n, v));
    }
    let (c, badkey) = unbuild(req.header(), req.attributes(), false);
    let result = format!("{}{}", show_msg(&c), groups_of_text(req.attributes()));
    CaseResult {
        line: line.into(),
        result,
        oracle: if badkey { Some("map key differs from stored attribute name".into()) } else { None },
        class: format!("adds-{}", (args.len() - 1).min(9)),
    }
}

/// `iter VALUE`: everything `next` yields, then two more calls
fn op_iter(line: &str, args: &[SExp]) -> CaseResult {
    let v = match args.first().and_then(read_value) {
        Some(v) => v,
        None => return badarg(line, "iter"),
    };
    let mut it = (&v).into_iter();
    let mut s = String::from("[");
    let mut n = 0;
    while let Some(e) = it.next() {
        if n > 0 {
            s.push(' ');
        }
        show_value(e, &mut s);
        n += 1;
        if n > 100_000 {
            break;
        }
    }
    s.push(']');
    let after = it.next().is_some() || it.next().is_some();
    s.push_str(if after { " resumed" } else { " end" });
    let class = match &v {
        IppValue::Array(_) => "array",
        IppValue::Collection(_) => "collection",
        _ => "scalar",
    };
    // the traversal is one sequence, however it is consumed: the provided methods of `Iterator` (which an
    // implementation may override) must agree with repeated `next()`
    let show = |e: &IppValue| {
        let mut t = String::new();
        show_value(e, &mut t);
        t
    };
    let plain: Vec<String> = {
        let mut p = vec![];
        let mut it = (&v).into_iter();
        while let Some(e) = it.next() {
            p.push(show(e));
            if p.len() > 100_000 {
                break;
            }
        }
        p
    };
    let mut oracle = None;
    let len = plain.len();
    if len <= 100_000 {
        let lim = len + 3;
        let collected: Vec<String> = (&v).into_iter().take(lim).map(show).collect();
        if collected != plain {
            oracle = Some(format!("collect() yields {} elements, repeated next() {}", collected.len(), len));
        }
        for k in 0..=len.min(3) {
            for j in 0..3usize {
                let mut it = (&v).into_iter();
                for _ in 0..k {
                    it.next();
                }
                let got = it.nth(j).map(show);
                if got.as_ref() != plain.get(k + j) {
                    oracle = Some(format!("after {} next() calls, nth({}) yields {:?}, the traversal's element #{} is {:?}", k, j, got, k + j, plain.get(k + j)));
                }
                let rest: Vec<String> = it.take(lim).map(show).collect();
                let want: Vec<String> = plain.iter().skip(k + j + 1).cloned().collect();
                if oracle.is_none() && rest != want {
                    oracle = Some(format!("after {} next() calls and nth({}), {} elements remain, expected {}", k, j, rest.len(), want.len()));
                }
            }
        }
        {
            let mut it = (&v).into_iter();
            it.next();
            let got: Vec<String> = it.skip(1).take(lim).map(show).collect();
            let want: Vec<String> = plain.iter().skip(2).cloned().collect();
            if oracle.is_none() && got != want {
                oracle = Some(format!("next() then skip(1): {} elements, expected {}", got.len(), want.len()));
            }
            let mut it = (&v).into_iter();
            it.next();
            let got: Vec<String> = it.step_by(2).take(lim).map(show).collect();
            let want: Vec<String> = plain.iter().skip(1).step_by(2).cloned().collect();
            if oracle.is_none() && got != want {
                oracle = Some(format!("next() then step_by(2): {:?}…, expected {:?}…", got.iter().take(3).collect::<Vec<_>>(), want.iter().take(3).collect::<Vec<_>>()));
            }
            let cnt = (&v).into_iter().take(lim).count();
            if oracle.is_none() && cnt != len {
                oracle = Some(format!("count() = {}, the traversal has {} elements", cnt, len));
            }
            let last = (&v).into_iter().take(lim).last().map(show);
            if oracle.is_none() && last.as_ref() != plain.last() {
                oracle = Some("last() is not the last element of the traversal".into());
            }
            let (lo, hi) = (&v).into_iter().size_hint();
            if oracle.is_none() && (lo > len || hi.map(|h| h < len).unwrap_or(false)) {
                oracle = Some(format!("size_hint() = ({}, {:?}) excludes the actual length {}", lo, hi, len));
            }
        }
    }
    CaseResult { line: line.into(), result: s, oracle, class: class.into() }
}

/// `ready MSG`
fn op_ready(line: &str, args: &[SExp]) -> CaseResult {
    let m = match args.first().and_then(read_msg) {
        Some(m) => m,
        None => return badarg(line, "ready"),
    };
    let req = match build(&m) {
        Some(r) => r,
        None => return badarg(line, "group-tag"),
    };
    let result = match ipp::util::is_printer_ready(&req) {
        Ok(b) => format!("(ok {})", b as u8),
        Err(IppError::StatusError(s)) => format!("(err {:?})", s),
        Err(e) => format!("(err-other {})", e),
    };
    let class = result.clone();
    CaseResult { line: line.into(), result, oracle: None, class }
}

fn op_fromstr(line: &str, args: &[SExp]) -> CaseResult {
    let s = match args.first().and_then(|a| a.atom()).and_then(unhex).and_then(|b| String::from_utf8(b).ok()) {
        Some(s) => s,
        None => return badarg(line, "fromstr"),
    };
    let v: IppValue = s.parse().unwrap();
    let class = match &v {
        IppValue::Boolean(_) => "boolean",
        IppValue::Integer(_) => "integer",
        _ => "keyword",
    };
    CaseResult { line: line.into(), result: value_str(&v), oracle: None, class: class.into() }
}

pub fn opt_hex(o: Option<&str>) -> String {
    match o {
        Some(s) => hex(s.as_bytes()),
        None => "~".into(),
    }
}

/// the components the `http` crate reports for a URI: `(c SCHEME AUTH PATH QUERY)`
pub fn components(u: &Uri) -> String {
    format!(
        "(c {} {} {} {} {})",
        opt_hex(u.scheme_str()),
        opt_hex(u.authority().map(|a| a.as_str())),
        hex(u.path().as_bytes()),
        opt_hex(u.query()),
        opt_hex(u.path_and_query().map(|p| p.as_str()))
    )
}

fn parse_uri_arg(a: Option<&SExp>) -> Option<(String, Uri)> {
    let s = String::from_utf8(unhex(a?.atom()?)?).ok()?;
    let u: Uri = s.parse().ok()?;
    Some((s, u))
}

fn strip_components(line: &str) -> &str {
    match line.find(" (c ") {
        Some(i) => &line[..i],
        None => line,
    }
}

const MARKERS: &[&str] = &["uSeRmArK", "pAsSmArK", "qUeRyMaRk"];

/// `canon URI HOST PORT|- PATH`: ground truth of the generator for the oracle
fn op_canon(line: &str, args: &[SExp]) -> CaseResult {
    let (s, u) = match parse_uri_arg(args.first()) {
        Some(x) => x,
        None => return CaseResult { line: line.into(), result: "(invalid-uri)".into(), oracle: None, class: "invalid-uri".into() },
    };
    let gt_host = args.get(1).and_then(|a| a.atom()).and_then(unhex).and_then(|b| String::from_utf8(b).ok());
    let gt_port = args.get(2).and_then(|a| a.atom()).map(|s| s.to_string());
    let gt_path = args.get(3).and_then(|a| a.atom()).and_then(unhex).and_then(|b| String::from_utf8(b).ok());
    let c = ipp::util::canonicalize_uri(&u);
    let out = c.to_string();
    let result = format!(
        "R={} host={} port={}",
        hex(out.as_bytes()),
        opt_hex(u.authority().map(|a| a.host())),
        u.authority().and_then(|a| a.port_u16()).map(|p| p.to_string()).unwrap_or("-".into())
    );
    let mut oracle = None;
    for m in MARKERS {
        if out.contains(m) {
            oracle = Some(format!("canonical URI `{}` of `{}` contains `{}` (user-info or query leaked)", out, s, m));
        }
    }
    if let (Some(h), Some(p), Some(path)) = (gt_host, gt_port, gt_path) {
        let expect = format!("ipp://{}{}{}", h, if p == "-" { String::new() } else { format!(":{}", p) }, if path.is_empty() { "/".to_string() } else { path });
        let expect_s = expect.replacen("ipp://", "ipps://", 1);
        if out != expect && out != expect_s && oracle.is_none() {
            oracle = Some(format!("canonical URI of `{}` is `{}`, expected `{}`", s, out, expect));
        }
    }
    let again = ipp::util::canonicalize_uri(&c).to_string();
    if again != out && oracle.is_none() {
        oracle = Some(format!("canonicalising `{}` again gives `{}`", out, again));
    }
    let class = format!(
        "{}{}{}",
        u.scheme_str().unwrap_or("none"),
        if u.authority().map(|a| a.as_str().contains('@')).unwrap_or(false) { "+userinfo" } else { "" },
        if u.authority().and_then(|a| a.port_u16()).is_some() { "+port" } else { "" }
    );
    CaseResult { line: format!("{} {}", strip_components(line), components(&u)), result, oracle, class }
}

/// `transport URI EXPECTED`: EXPECTED = what RFC 3510 / RFC 7472 prescribe (hex), from the generator's ground truth
fn op_transport(line: &str, args: &[SExp]) -> CaseResult {
    let (s, u) = match parse_uri_arg(args.first()) {
        Some(x) => x,
        None => return CaseResult { line: line.into(), result: "(invalid-uri)".into(), oracle: None, class: "invalid-uri".into() },
    };
    let expect = args.get(1).and_then(|a| a.atom()).and_then(unhex).and_then(|b| String::from_utf8(b).ok());
    // history on this thread first: the same target under each of the other schemes is mapped before the target itself,
    // and the target is mapped twice - what was mapped before must not change the answer
    if let Some((sch, tail)) = s.split_once("://") {
        for other in ["ipp", "ipps", "http", "https"] {
            if !other.eq_ignore_ascii_case(sch) {
                if let Ok(sib) = format!("{}://{}", other, tail).parse::<http::Uri>() {
                    let _ = ipp::client::verif_transport_url(&sib);
                }
            }
        }
    }
    let out = ipp::client::verif_transport_url(&u);
    let mut oracle = None;
    let out2 = ipp::client::verif_transport_url(&u);
    if out2 != out {
        oracle = Some(format!("mapping `{}` twice gives `{}` and then `{}`", s, out, out2));
    }
    if let (Some(e), true) = (expect, oracle.is_none()) {
        // an empty path may be written as "" or "/" (RFC 3986 6.2.3): both spellings are the same URL
        let alt = if e.contains("/?") { e.replacen("/?", "?", 1) } else { e.clone() };
        if e != out && alt != out {
            let portless_ipps = u.scheme_str() == Some("ipps") && u.authority().map(|a| a.port_u16().is_none()).unwrap_or(false);
            if portless_ipps && (out == e.replacen(":631", ":443", 1) || out == alt.replacen(":631", ":443", 1)) {
                oracle = Some(format!("port-less ipps target `{}` maps to port 443 (`{}`), RFC 7472 assigns 631", s, out));
            } else {
                oracle = Some(format!("transport URL of `{}` is `{}`, expected `{}`", s, out, e));
            }
        }
    }
    let class = format!(
        "{}{}",
        u.scheme_str().unwrap_or("none"),
        if u.authority().and_then(|a| a.port_u16()).is_some() { "+port" } else { "" }
    );
    CaseResult { line: format!("{} {}", strip_components(line), components(&u)), result: hex(out.as_bytes()), oracle, class }
}

fn read_attr(e: &SExp) -> Option<IppAttribute> {
    let l = e.list()?;
    if l.len() != 3 || l[0].atom()? != "a" {
        return None;
    }
    let n = String::from_utf8(unhex(l[1].atom()?)?).ok()?;
    Some(IppAttribute::new(&n, read_value(&l[2])?))
}

fn hexstr(e: Option<&SExp>) -> Option<String> {
    String::from_utf8(unhex(e?.atom()?)?).ok()
}

/// `build KIND URI JOBID PAYLOAD (calls …)`; for the raw constructors
/// `build new_request URI|~ VERSION OPCODE` and `build new_response VERSION STATUS ID`
fn op_build(_prop: &str, line: &str, args: &[SExp]) -> CaseResult {
    match make_request(line, args) {
        Err(c) => c,
        Ok((eff, req, kind, payload)) => finish_build(eff, req, kind, payload),
    }
}

/// `manyreq N`: N requests created one after the other in this process, through the raw constructor and through
/// builders; every one must have a positive request-id (the property says so for every request, not for the first)
fn op_manyreq(line: &str, args: &[SExp]) -> CaseResult {
    let n = match args.first().and_then(|a| a.atom()).and_then(|s| s.parse::<usize>().ok()) {
        Some(n) => n,
        None => return badarg(line, "manyreq"),
    };
    let uri: Uri = "ipp://printer.local:631/ipp/print".parse().unwrap();
    let mut bad: Option<(usize, u32)> = None;
    for i in 0..n {
        let id = match i % 3 {
            0 => IppRequestResponse::new(IppVersion::v1_1(), Operation::GetPrinterAttributes, Some(uri.clone())).header().request_id,
            1 => ipp::operation::IppOperation::into_ipp_request(IppOperationBuilder::get_jobs(uri.clone()).build()).header().request_id,
            _ => ipp::operation::IppOperation::into_ipp_request(IppOperationBuilder::cancel_job(uri.clone(), 7).build()).header().request_id,
        };
        if id == 0 && bad.is_none() {
            bad = Some((i, id));
        }
    }
    let oracle = bad.map(|(i, id)| format!("request #{} created by this process has request-id {} (not positive)", i + 1, id));
    CaseResult { line: line.into(), result: "all-positive".into(), oracle, class: "manyreq".into() }
}

/// `order KIND URI JOBID PAYLOAD (calls …) (adds (op TAG NAME VALUE)…)`: the bytes up to the end of the RFC 8011 header attributes
fn op_order(line: &str, args: &[SExp]) -> CaseResult {
    let n = args.len();
    let adds = match args.last().and_then(|a| a.list()) {
        Some(l) if l.first().and_then(|x| x.atom()) == Some("adds") => l[1..].to_vec(),
        _ => return badarg(line, "adds"),
    };
    let (eff, mut req, kind, _) = match make_request(&line[..line.rfind(" (adds").unwrap_or(line.len())], &args[..n - 1]) {
        Err(c) => return c,
        Ok(x) => x,
    };
    for a in &adds {
        let l = match a.list() {
            Some(l) if l.len() == 4 => l,
            _ => return badarg(line, "op"),
        };
        let (t, nm, v) = match (
            l[1].atom().and_then(hexnum).and_then(|t| delim(t as u8)),
            l[2].atom().and_then(unhex).and_then(|b| String::from_utf8(b).ok()),
            read_value(&l[3]),
        ) {
            (Some(t), Some(n), Some(v)) => (t, n, v),
            _ => return badarg(line, "op-fields"),
        };
        req.attributes_mut().add(t, IppAttribute::new(&nm, v));
    }
    let added_job_uri = adds.iter().any(|a| {
        a.list().map(|l| l.len() == 4 && l[1].atom() == Some("01") && l[2].atom().and_then(unhex).map(|b| b == b"job-uri").unwrap_or(false)).unwrap_or(false)
    });
    let bytes = {
        let mut b = req.to_bytes().to_vec();
        // any positive request-id is as good as another (shown as 1)
        if kind != "new_response" && b.len() >= 8 && b[4..8] != [0, 0, 0, 0] {
            b[4..8].copy_from_slice(&[0, 0, 0, 1]);
        }
        b
    };
    let mut oracle = order_oracle(&bytes, req.attributes());
    if oracle.is_none() {
        // a request built for a target has its operation target attributes present by construction: printer-uri
        // third, and for the job operations addressed by printer-uri + job-id, job-id fourth
        let with_target = !matches!(kind.as_str(), "cups_get_printers" | "new_response") && !(kind == "new_request" && line.contains(" new_request ~ "));
        let with_job_id = matches!(kind.as_str(), "send_document" | "cancel_job" | "get_job_attributes");
        let names = wire_names(&bytes);
        if with_target && names.get(2).map(|s| s.as_str()) != Some("printer-uri") {
            oracle = Some(format!("a {} request for a target printer: operation attribute #3 on the wire is `{}`, RFC 8011 requires printer-uri (order seen: {:?})", kind, names.get(2).cloned().unwrap_or_default(), &names[..names.len().min(6)]));
        } else if with_job_id
            && names.get(3).map(|s| s.as_str()) != Some("job-id")
            // (a job-uri that the case itself added to the operation group goes in between)
            && !(added_job_uri && names.get(3).map(|s| s.as_str()) == Some("job-uri") && names.get(4).map(|s| s.as_str()) == Some("job-id"))
        {
            oracle = Some(format!("a {} request addressed by printer-uri + job-id: operation attribute #4 on the wire is `{}`, RFC 8011 requires job-id (order seen: {:?})", kind, names.get(3).cloned().unwrap_or_default(), &names[..names.len().min(6)]));
        }
    }
    // prefix: header, group tag, then attributes while their names are RFC 8011 header attributes
    let mut i = 9.min(bytes.len());
    while i < bytes.len() && bytes[i] >= 0x10 {
        let nl = u16::from_be_bytes([bytes[i + 1], bytes[i + 2]]) as usize;
        let name = &bytes[i + 3..i + 3 + nl];
        if !["attributes-charset", "attributes-natural-language", "printer-uri", "job-uri", "job-id"].iter().any(|h| h.as_bytes() == name) {
            break;
        }
        let vo = i + 3 + nl;
        let vl = u16::from_be_bytes([bytes[vo], bytes[vo + 1]]) as usize;
        i = vo + 2 + vl;
    }
    let adds_text = &line[line.rfind(" (adds").unwrap_or(line.len())..];
    let comps_at = eff.find(" (c ").unwrap_or(eff.len());
    let eff2 = format!("{}{}{}", &eff[..comps_at], adds_text, &eff[comps_at..]);
    CaseResult { line: eff2, result: hex(&bytes[..i]), oracle, class: format!("order-{}", kind) }
}

type Made = (String, IppRequestResponse, String, Vec<u8>);

fn make_request(line: &str, args: &[SExp]) -> Result<Made, CaseResult> {
    let kind = match args.first().and_then(|a| a.atom()) {
        Some(k) => k.to_string(),
        None => return Err(badarg(line, "build")),
    };
    if kind == "new_response" {
        let (v, st, id) = match (
            args.get(1).and_then(|a| a.atom()).and_then(hexnum),
            args.get(2).and_then(|a| a.atom()).and_then(hexnum).and_then(|c| StatusCode::from_u64(c)),
            args.get(3).and_then(|a| a.atom()).and_then(hexnum),
        ) {
            (Some(v), Some(s), Some(i)) => (v as u16, s, i as u32),
            _ => return Err(badarg(line, "new_response")),
        };
        let r = IppRequestResponse::new_response(IppVersion(v), st, id);
        return Ok((line.into(), r, kind, vec![]));
    }
    let uri_atom = args.get(1).and_then(|a| a.atom()).unwrap_or("~");
    let uri: Option<(String, Uri)> = if uri_atom == "~" { None } else { parse_uri_arg(args.get(1)) };
    if uri_atom != "~" && uri.is_none() {
        return Err(CaseResult { line: line.into(), result: "(invalid-uri)".into(), oracle: None, class: "invalid-uri".into() });
    }
    let comps = uri.as_ref().map(|(_, u)| components(u)).unwrap_or_else(|| "(c ~ ~ - ~ ~)".into());
    let eff = format!("{} {}", strip_components(line), comps);
    if kind == "new_request" {
        let (v, op) = match (
            args.get(2).and_then(|a| a.atom()).and_then(hexnum),
            args.get(3).and_then(|a| a.atom()).and_then(hexnum).and_then(|c| Operation::from_u64(c)),
        ) {
            (Some(v), Some(o)) => (v as u16, o),
            _ => return Err(badarg(line, "new_request")),
        };
        let r = IppRequestResponse::new(IppVersion(v), op, uri.map(|x| x.1));
        return Ok((eff, r, kind, vec![]));
    }
    let job_id = args.get(2).and_then(|a| a.atom()).and_then(hexnum).unwrap_or(0) as u32 as i32;
    let payload = args.get(3).and_then(|a| a.atom()).and_then(unhex).unwrap_or_default();
    let calls: Vec<&SExp> = args.get(4).and_then(|c| c.list()).map(|l| l.iter().skip(1).collect()).unwrap_or_default();
    let u = || uri.as_ref().map(|x| x.1.clone()).unwrap_or_else(|| "ipp://missing/".parse().unwrap());
    let pl = || IppPayload::new(std::io::Cursor::new(payload.clone()));
    macro_rules! apply {
        ($b:expr, $($name:literal => $f:expr),*) => {{
            let mut b = $b;
            for c in &calls {
                let l = match c.list() { Some(l) if !l.is_empty() => l, _ => return Err(badarg(line, "call")) };
                let which = l[0].atom().unwrap_or("");
                let mut done = false;
                $( if which == $name { b = match $f(b, l) { Some(x) => x, None => return Err(badarg(line, "call-arg")) }; done = true; } )*
                if !done { return Err(badarg(line, "call-not-available")); }
            }
            b
        }};
    }
    let req: IppRequestResponse = match kind.as_str() {
        "print_job" => apply!(IppOperationBuilder::print_job(u(), pl()),
            "user_name" => |b: ipp::operation::builder::PrintJobBuilder, l: &[SExp]| Some(b.user_name(hexstr(l.get(1))?)),
            "job_title" => |b: ipp::operation::builder::PrintJobBuilder, l: &[SExp]| Some(b.job_title(hexstr(l.get(1))?)),
            "attribute" => |b: ipp::operation::builder::PrintJobBuilder, l: &[SExp]| Some(b.attribute(read_attr(l.get(1)?)?)),
            "attributes" => |b: ipp::operation::builder::PrintJobBuilder, l: &[SExp]| Some(b.attributes(l[1..].iter().map(read_attr).collect::<Option<Vec<_>>>()?)))
        .build()
        .into(),
        "get_printer_attributes" => apply!(IppOperationBuilder::get_printer_attributes(u()),
            "attribute" => |b: ipp::operation::builder::GetPrinterAttributesBuilder, l: &[SExp]| Some(b.attribute(hexstr(l.get(1))?)),
            "attributes" => |b: ipp::operation::builder::GetPrinterAttributesBuilder, l: &[SExp]| Some(b.attributes(l[1..].iter().map(|e| hexstr(Some(e))).collect::<Option<Vec<_>>>()?)))
        .build()
        .into(),
        "create_job" => apply!(IppOperationBuilder::create_job(u()),
            "job_name" => |b: ipp::operation::builder::CreateJobBuilder, l: &[SExp]| Some(b.job_name(hexstr(l.get(1))?)),
            "attribute" => |b: ipp::operation::builder::CreateJobBuilder, l: &[SExp]| Some(b.attribute(read_attr(l.get(1)?)?)),
            "attributes" => |b: ipp::operation::builder::CreateJobBuilder, l: &[SExp]| Some(b.attributes(l[1..].iter().map(read_attr).collect::<Option<Vec<_>>>()?)))
        .build()
        .into(),
        "send_document" => apply!(IppOperationBuilder::send_document(u(), job_id, pl()),
            "user_name" => |b: ipp::operation::builder::SendDocumentBuilder, l: &[SExp]| Some(b.user_name(hexstr(l.get(1))?)),
            "last" => |b: ipp::operation::builder::SendDocumentBuilder, l: &[SExp]| Some(b.last(l.get(1)?.atom()? == "1")))
        .build()
        .into(),
        "purge_jobs" => apply!(IppOperationBuilder::purge_jobs(u()),
            "user_name" => |b: ipp::operation::builder::PurgeJobsBuilder, l: &[SExp]| Some(b.user_name(hexstr(l.get(1))?)))
        .build()
        .into(),
        "cancel_job" => apply!(IppOperationBuilder::cancel_job(u(), job_id),
            "user_name" => |b: ipp::operation::builder::CancelJobBuilder, l: &[SExp]| Some(b.user_name(hexstr(l.get(1))?)))
        .build()
        .into(),
        "get_job_attributes" => apply!(IppOperationBuilder::get_job_attributes(u(), job_id),
            "user_name" => |b: ipp::operation::builder::GetJobAttributesBuilder, l: &[SExp]| Some(b.user_name(hexstr(l.get(1))?)))
        .build()
        .into(),
        "get_jobs" => apply!(IppOperationBuilder::get_jobs(u()),
            "user_name" => |b: ipp::operation::builder::GetJobsBuilder, l: &[SExp]| Some(b.user_name(hexstr(l.get(1))?)))
        .build()
        .into(),
        "cups_get_printers" => IppOperationBuilder::cups().get_printers().into(),
        "cups_delete_printer" => IppOperationBuilder::cups().delete_printer(u()).into(),
        _ => return Err(badarg(line, "kind")),
    };
    Ok((eff, req, kind, payload))
}

fn finish_build(eff: String, req: IppRequestResponse, kind: String, payload: Vec<u8>) -> CaseResult {
    let (mut c, badkey) = unbuild(req.header(), req.attributes(), false);
    // the property asks for a positive request-id, not for a particular one: every positive id is shown as 1
    if kind != "new_response" && c.id > 0 {
        c.id = 1;
    }
    // C09 oracle on the real bytes of this instance: order of the first attributes of the first group
    let mut oracle = order_oracle(&req.to_bytes(), req.attributes());
    if badkey {
        oracle = Some("map key differs from stored attribute name".into());
    }
    // C13 through the constructors: the printer-uri written into the request carries no user-info or query
    if let Some(g) = req.attributes().groups_of(DelimiterTag::OperationAttributes).next() {
        if let Some(IppValue::Uri(u)) = g.attributes().get(IppAttribute::PRINTER_URI).map(|a| a.value()) {
            for m in MARKERS {
                if u.contains(m) && oracle.is_none() {
                    oracle = Some(format!("printer-uri `{}` written by the {} constructor contains `{}` (user-info or query leaked)", u, kind, m));
                }
            }
            if !(u.starts_with("ipp://") || u.starts_with("ipps://")) && oracle.is_none() {
                oracle = Some(format!("printer-uri `{}` does not have an IPP scheme", u));
            }
        }
    }
    let mut got = vec![];
    use std::io::Read;
    let mut p = req.into_payload();
    if let Err(e) = p.read_to_end(&mut got) {
        oracle = Some(format!("payload read error {}", e));
    }
    if got != payload && (kind == "print_job" || kind == "send_document") && oracle.is_none() {
        oracle = Some("payload bytes differ from what was attached".into());
    }
    CaseResult { line: eff, result: format!("{} payload={}", show_msg(&c), hex(&got)), oracle, class: kind }
}

/// RFC 8011 4.1.4-4.1.5 on the encoded bytes: names of the first attributes of the first group
/// names of the attributes of the first group on the wire, read with an independent little reader
pub fn wire_names(bytes: &[u8]) -> Vec<String> {
    let mut names: Vec<String> = vec![];
    if bytes.len() <= 8 || bytes[8] != 1 {
        return names;
    }
    let mut i = 9;
    while i + 2 < bytes.len() && bytes[i] >= 0x10 {
        let nl = u16::from_be_bytes([bytes[i + 1], bytes[i + 2]]) as usize;
        if i + 3 + nl + 2 > bytes.len() {
            break;
        }
        let name = String::from_utf8_lossy(&bytes[i + 3..i + 3 + nl]).to_string();
        let vo = i + 3 + nl;
        let vl = u16::from_be_bytes([bytes[vo], bytes[vo + 1]]) as usize;
        if nl > 0 {
            names.push(name);
        }
        i = vo + 2 + vl;
    }
    names
}

pub fn order_oracle(bytes: &[u8], attrs: &IppAttributes) -> Option<String> {
    // read the names of the attributes of the first group with an independent little reader
    let mut names: Vec<String> = vec![];
    let mut i = 8;
    if bytes.len() <= 8 || bytes[8] != 1 {
        return Some("the first group on the wire is not the operation-attributes group".into());
    }
    i += 1;
    while i < bytes.len() && bytes[i] >= 0x10 {
        let nl = u16::from_be_bytes([bytes[i + 1], bytes[i + 2]]) as usize;
        let name = String::from_utf8_lossy(&bytes[i + 3..i + 3 + nl]).to_string();
        let vo = i + 3 + nl;
        let vl = u16::from_be_bytes([bytes[vo], bytes[vo + 1]]) as usize;
        if nl > 0 {
            names.push(name);
        }
        i = vo + 2 + vl;
    }
    attrs.groups_of(DelimiterTag::OperationAttributes).next()?;
    // an operation attribute counts as present when any operation-attributes group of the message holds it
    let has = |n: &str| attrs.groups_of(DelimiterTag::OperationAttributes).any(|g| g.attributes().contains_key(n));
    let mut expect: Vec<&str> = vec![];
    if has("attributes-charset") {
        expect.push("attributes-charset");
    }
    if has("attributes-natural-language") {
        expect.push("attributes-natural-language");
    }
    if !(has("attributes-charset") && has("attributes-natural-language")) {
        return None; // outside the property's premise
    }
    if has("printer-uri") {
        expect.push("printer-uri");
    }
    if has("job-uri") {
        expect.push("job-uri");
    }
    if has("job-id") && (has("printer-uri")) {
        expect.push("job-id");
    }
    for (k, e) in expect.iter().enumerate() {
        if names.get(k).map(|s| s.as_str()) != Some(*e) {
            return Some(format!("operation attribute #{} on the wire is `{}`, RFC 8011 4.1.4-4.1.5 requires `{}` (order seen: {:?})", k + 1, names.get(k).cloned().unwrap_or_default(), e, &names[..names.len().min(6)]));
        }
    }
    None
}
