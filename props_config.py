"""Per-property configuration of run.py: harness feature set, trusted base, assumptions."""

COMMON_TB = [
    "Lean 4.33.0 kernel and elaborator; axioms limited to propext, Classical.choice, Quot.sound (audited with #print axioms on every run)",
    "gen/extract.py (translator: copies enum discriminants, attribute-name constants, HEADER_ATTRS, ERROR_STATES, loop tag ranges, scheme/port arms, operation tables from /repo into Generated/Source.lean on every run)",
    "the correspondence check: harness text printer (harness/src/text.rs), Driver/Text.lean parser/printer, line diff in run.py",
    "the hand-written Lean model is validated against the real code on the explored inputs only; universal claims are claims about the model",
]

PROPS = {
    "C16": {
        "features": None,
        "technique": "Lean 4 proof: decide over translated tables + lookup lemmas; exhaustive correspondence run",
        "level_text": "Machine-checked proof (Lean 4 kernel) on tables regenerated from the source on every run: every library table agrees with the registry table (decide), status decoding returns the registry symbol for every defined code and never the symbol of another code for any of the unboundedly many inputs (lookup lemma, not enumeration), success implies code <= 0xff. The tie to the code is the translator plus an exhaustive run of all 65536 status codes, all tags and all enum values through the real code compared with the model.",
        "level_note": "Trusts the Lean kernel, the translator gen/extract.py, spec/registry.txt as the transcription of the registries, and that derive(Primitive) maps a number to the variant with that discriminant (validated exhaustively on every run).",
        "design_ref": "DESIGN.md section 9, C16",
        "trusted_base": COMMON_TB + [
            "spec/registry.txt: the registry tables, typed from RFC 8010/8011, PWG 5100.1 and the CUPS operation list",
            "enum-primitive-derive from_uN/from_iN modelled as 'the variant whose discriminant equals n' (validated exhaustively by the run)",
        ],
        "assumptions": [
            "derive(Primitive) decodes a number to the variant with that discriminant (checked for all 65536 status codes, all operation ids 0..0xffff, all tag bytes and enum values 0..300 against the real code on every run)",
        ],
    },
}

ALL_IDS = ["C%02d" % i for i in range(1, 21)]

NOT_YET = "not claimed in this revision: the theorem/correspondence pair for this property is not built yet (see DESIGN.md section 13)"
