"""Per-property configuration of run.py: harness feature set, trusted base, assumptions."""

COMMON_TB = [
    "Lean 4.33.0 kernel and elaborator; axioms limited to propext, Classical.choice, Quot.sound (audited with #print axioms on every run)",
    "gen/extract.py (translator: copies enum discriminants, attribute-name constants, HEADER_ATTRS, ERROR_STATES, loop tag ranges, scheme/port arms, operation tables from /repo into Generated/Source.lean on every run)",
    "the correspondence check: harness text printer (harness/src/text.rs), Driver/Text.lean parser/printer, line diff in run.py",
    "the hand-written Lean model is validated against the real code on the explored inputs only; universal claims are claims about the model",
]

PROPS = {
    "C16": {
        "features": None,
        "technique": "Lean 4 proof: decide over translated tables + lookup lemmas; exhaustive correspondence run",
        "level_text": "Machine-checked proof (Lean 4 kernel) on tables regenerated from the source on every run: every library table agrees with the registry table (decide), status decoding returns the registry symbol for every defined code and never the symbol of another code for any of the unboundedly many inputs (lookup lemma, not enumeration), success implies code <= 0xff. The tie to the code is the translator plus an exhaustive run of all 65536 status codes, all tags and all enum values through the real code compared with the model.",
        "level_note": "Trusts the Lean kernel, the translator gen/extract.py, spec/registry.txt as the transcription of the registries, and that derive(Primitive) maps a number to the variant with that discriminant (validated exhaustively on every run).",
        "design_ref": "DESIGN.md section 9, C16",
        "trusted_base": COMMON_TB + [
            "spec/registry.txt: the registry tables, typed from RFC 8010/8011, PWG 5100.1 and the CUPS operation list",
            "enum-primitive-derive from_uN/from_iN modelled as 'the variant whose discriminant equals n' (validated exhaustively by the run)",
        ],
        "assumptions": [
            "derive(Primitive) decodes a number to the variant with that discriminant (checked for all 65536 status codes, all operation ids 0..0xffff, all tag bytes and enum values 0..300 against the real code on every run)",
        ],
    },
}

PROPS["C02"] = {
    "features": None,
    "technique": "Lean 4 proof: no model outcome is `panic`/`outOfFuel` (induction on fuel over reader laws); differential run on the malformed stream",
    "level_text": "Machine-checked proof that, in the model, the value decoder (all 256 tags, all bodies), the blocking parser on every byte string, and both parsers over every scripted source return a value or an error value: every place where the Rust would panic (bytes::Buf reads, slicing, advance) is an explicit `panic` outcome and is proved unreachable, and the loop provably finishes within fuel length+1. `depth_linear` / `depth_sum_linear` / `depth_linear_blocking` / `depth_linear_async`: on every accepted input the nesting depth of every returned value – indeed the sum of the depths of all returned values plus the 8 header octets – is at most the number of bytes consumed (potential argument over the collection stack), also through both stream readers under any fault-free fragmentation; with `depth_unbounded` / `nest_size` (depth n+1 from 16n+10 bytes of attribute data) this pins the growth of known finding K2 from both sides. The model is tied to the code by running the complete tag x length x fill grid, all short strings, all token sequences up to k, grammar-aware mutations, messages whose consecutive name / value lengths rise, fall or repeat across buffer-size thresholds, and 1 MiB structural bombs through the real decoder/parsers (blocking and async, each followed by display, re-encoding, traversal, clone, drop; bombs in a child process) and diffing with the model. Partial: stack exhaustion of the recursive Drop/Clone/Display on values nested >= ~16k levels is runtime behaviour the model cannot exhibit; it is observed by the harness and reported as known finding K2.",
    "level_note": "Trusts the Lean kernel, the translator, the correspondence check; `bytes::Buf` panics-when-short and `from_utf8_lossy` are modelled library behaviour (validated on every run). Stack depth, allocator and wall-clock are observed only.",
    "design_ref": "DESIGN.md section 9, C02",
    "trusted_base": COMMON_TB + [
        "bytes::Buf::get_u8/u16/i32/i8, slicing and advance modelled as 'panic when fewer bytes remain' (Model/Codec.lean)",
        "String::from_utf8_lossy modelled by Model/Utf8.lean (maximal-subpart replacement)",
        "std Read::read_exact / futures-util ReadExact modelled by readExactStd / readExactFut (Model/Loop.lean)",
    ],
    "assumptions": [
        "the model's `panic` outcomes are exactly the places where the Rust code can panic (validated by the differential run: the harness catches unwinds per case)",
        "recursion depth of compiler-generated Drop/Clone and of Display is not modelled (known finding K2)",
    ],
    "search_thorough": False,
}

CODEC_TB = COMMON_TB + [
    "bytes::Buf / BytesMut reads and writes modelled as big-endian list operations with truncating `as u16`/`as u8` casts (Model/Basic.lean, Model/Value.lean)",
    "String::from_utf8_lossy modelled by Model/Utf8.lean; Rust String = byte list with validUtf8",
    "HashMap<String, IppAttribute> modelled as a finite map with an arbitrary but fixed iteration order per instance (a listing); key = stored attribute name (maintained by add, constructors, builders, parser)",
    "BTreeMap<String, IppValue> modelled as a list sorted by byte-lexicographic key order (Model/SMap.lean)",
]

PROPS["C01"] = {
    "features": None,
    "technique": "Lean 4 proof: refinement (C04) composed with reference-encoding theorem (C03), for all listings; differential round trips",
    "level_text": "Machine-checked theorem `roundtrip`: for every header, every message of the public value model (all 22 kinds, mixed sets, collections of any depth with multi-valued members, repeated/empty groups, every name/value within the 16-bit wire length), every iteration order of every attribute map and every payload, the model parser applied to the model encoder's bytes followed by the payload returns exactly (header, groups, payload); `roundtrip_any` (the same for *every* list of groups, up to `opFirst`: the first operation group moved to the front, an empty one supplied when there is none – `opFirst_only_reorders`, `opFirst_without_operation_group`, `opFirst_id_of_wf`); plus `singleton_set`, `encode_injective` (two (message, payload) pairs with the same bytes under any two iteration orders are the same header, groups and payload: the encoding is unambiguous and the attribute/payload boundary is determined by the bytes) and `listing_irrelevant`. No size or depth bound; proved by structural induction over the value type and the loop's fuel. Tie to the code: on every run seeded random messages are built with fresh randomly keyed hash maps, encoded and parsed by the real code, and both the bytes and the parse result are diffed against the model; the round-trip oracle runs on the real code.",
    "level_note": "Trusts the Lean kernel, the translator, the correspondence check, and the modelled-library assumptions listed in the evidence (HashMap/BTreeMap/bytes/from_utf8_lossy). The theorem is about the model; the model is validated on the explored messages.",
    "design_ref": "DESIGN.md section 9, C01",
    "trusted_base": CODEC_TB,
    "assumptions": ["a group's map key equals the name stored in the attribute (the harness checks this on every instance it reads back)"],
}

PROPS["C03"] = {
    "features": None,
    "technique": "Lean 4 proof: encoder = Spec.ser of the reference wire tree for all listings; independent RFC 8010 reader (Spec.unser) run on the real bytes",
    "level_text": "Machine-checked theorems: for every message of the domain of C01 and every listing (iteration order) `encodeMsg h L = ser (toWireMsg h L)` (bytes identical to the reference encoding written from RFC 8010), `wfWire (toWireMsg h L)` (registered tags, lengths, empty names on additional values, bracketed collections, member names before their values, one end tag), `interp (toWireMsg h L) = (h, gs)` (the RFC reading of the bytes is the message), `tagOf v = registryTag v`; `any_message` (all three for every list of groups, with `opFirst`). `header_is_8`, `header_change` (the bytes depend on the header only through their first eight octets) and `no_groups` (header, empty operation group, end tag) are what the in-place-mutation history oracle expects. Tie to the code: the real encoder's bytes for seeded random messages built on fresh hash maps are compared with the model encoder's, and are read by an independent grammar-directed decoder (Spec.unser: no state machine, no stack) whose result must be well-formed, re-serialise to the same bytes, have unique names and interpret to the message; every encoded object is then encoded again unchanged, with its header changed through header_mut(), restored, with all groups removed through attributes_mut(), and through into_read(), against expectations taken from RFC 8010 alone.",
    "level_note": "Trusts the Lean kernel, the translator, the correspondence check, Spec/Wire.lean as the transcription of RFC 8010 section 3, and the modelled-library assumptions (HashMap iteration = arbitrary listing).",
    "design_ref": "DESIGN.md section 9, C03",
    "trusted_base": CODEC_TB + ["Spec/Wire.lean, Spec/ToWire.lean, Spec/Unser.lean: the RFC 8010 grammar, reference encoding and independent reader, written from the RFC"],
    "assumptions": ["a group's map key equals the name stored in the attribute"],
}

PROPS["C04"] = {
    "features": None,
    "technique": "Lean 4 proof: refinement of the RFC 8010 wire grammar by the parser's state machine (token framing + collection stack = tree interpretation)",
    "level_text": "Machine-checked refinement theorem `parse_wellformed`: for every well-formed wire tree w (any groups incl. repeated/empty, any tag 0x10-0x4a, out-of-band and unregistered syntaxes, mixed sets, multi-valued members, sets of collections, non-UTF-8 text, duplicate names, boundary lengths) and every payload p, `parseFlat (ser w ++ p) = ok (interp w, p)`; and `reject_bad_tag`: a byte outside both tag ranges at a tag position after any complete well-formed groups yields InvalidTag. Unbounded in size and nesting. Tie to the code: seeded wire trees from the grammar (with a malformed share) are serialised by the harness's own serializer, parsed by the real blocking and async parsers, and compared with the model parser (correspondence) and with Spec.interp (oracle).",
    "level_note": "Trusts the Lean kernel, the translator (tag ranges of the loop, bracket tags, ValueTag table), the correspondence check and Spec/Wire.lean as the transcription of RFC 8010. OctetString is held as a String by the library, so its non-UTF-8 bytes are replaced like text; the spec's reading says the same.",
    "design_ref": "DESIGN.md section 9, C04",
    "trusted_base": CODEC_TB + ["Spec/Wire.lean: grammar, ser, interp, wfWire written from RFC 8010"],
    "assumptions": ["std read_exact on a fully available byte string = take/drop (flatRd)"],
}

PROPS["C09"] = {
    "features": None,
    "technique": "Lean 4 proof: wire prefix fixed for every listing + invariant over add histories from every constructor/builder; order read off real bytes of many fresh instances",
    "level_text": "Machine-checked theorems: `header_attrs_pin` (the translated HEADER_ATTRS equals the RFC 8011 order charset, natural-language, printer-uri, job-uri, job-id), `wire_order` (shape of every encoded message whose first group is the operation group, for every listing), `prefix_order_independent` (the bytes up to the last header attribute are the same for every iteration order), `good_buildOp`/`good_adds`/`built_then_added_in_order` (every builder result followed by any sequence of additions starts with the operation group containing charset and language, hence is emitted in RFC order). Tie to the code: 12 request shapes x random arguments and additions, each built as several fresh instances; the real bytes up to the end of the header attributes are diffed against the model and an independent reader checks the names' order on the wire.",
    "level_note": "Trusts the Lean kernel, the translator (HEADER_ATTRS, attribute-name constants), the correspondence check; HashMap iteration order is an arbitrary listing.",
    "design_ref": "DESIGN.md section 9, C09",
    "trusted_base": CODEC_TB,
    "assumptions": ["job-id is required 4th only when printer-uri is present (RFC 8011 4.1.5); with job-uri both are emitted in the order job-uri, job-id"],
}

PROPS["C10"] = {
    "features": None,
    "technique": "Lean 4 proof: builder call sequences fold to a summary; buildOp = declarative Spec.request for all 10 operations; differential runs of the real builders",
    "level_text": "Machine-checked theorems: `build_eq_spec` (for each of the 10 operations, every target, job id, payload and every sequence of builder calls, the built request equals the declaratively specified one: version 1.1, the registry's operation code, request-id 1 (the correspondence accepts any positive request-id, as the property does), an operation group holding exactly charset, language, canonical printer-uri and the attributes the arguments imply, a job group with the extra job attributes last-wins, the payload unmodified, nothing else), `calls_fold_to_summary` (single-valued setters replace, accumulating setters keep everything in order), `new_request_spec`, `new_response_spec`, `op_codes_pin`, `names_pin`. Induction over call lists; no bound on their length. Tie to the code: the real builders and constructors are driven with seeded random call sequences, URIs, job ids and payloads and their requests (canonicalised) and payload bytes are diffed against the model.",
    "level_note": "Trusts the Lean kernel, the translator (operation codes, attribute names), the correspondence check, Spec/Requests.lean as the reading of RFC 8011 and of the property; the payload is modelled as an opaque byte string carried through; `http::Uri` splitting is a modelled library (see C13).",
    "design_ref": "DESIGN.md section 9, C10",
    "trusted_base": CODEC_TB + ["Spec/Requests.lean: declarative request descriptions", "http::Uri accessors (scheme, authority, path, query) as reported by the crate"],
    "assumptions": ["builder methods not offered by a builder type are not expressible (the harness cannot call them)"],
}

URI_TB = COMMON_TB + [
    "http::Uri: the split of a URI string into scheme / raw authority / path / query, `Display`, and `Uri::builder().build()` failing exactly for scheme-without-authority are modelled library behaviour; `Authority::host` and `port_u16` are transcribed (Model/Uri.lean) and compared with the crate's answers on every case",
    "u16::from_str and integer formatting modelled by parseU16 / natToDec",
]

PROPS["C13"] = {
    "features": None,
    "technique": "Lean 4 proof on the raw-authority model of http::Uri: host has no '@', canonical shape, idempotence, constructor lemma; differential runs with marker tokens",
    "level_text": "Machine-checked theorems on the model of canonicalize_uri: `host_has_no_at`/`canon_authority_clean` (whatever the authority text, no '@' – hence no user-info – reaches the result), `canon_shape` (scheme ipp, the same host, ':port' exactly when the authority carries a port, the same path, no query), `fallback_only_without_authority` (the copy-the-input branch needs a target with no authority, which has no user-info), `idempotent`, `parse_dec` (port text round trip), `host_of_structured(_v6)` (for [userinfo@]host[:port] the host component is recovered exactly, all three host forms), `ctor_printer_uri` (the request constructor writes render(canon(target))). Unbounded in all string arguments. Tie to the code: seeded structured URIs (4 schemes, 3 host forms, ports, percent-encoded paths, user-info with ':' and '@', queries, all carrying marker tokens) go through the real canonicalize_uri and the real constructors/builders; the crate's host()/port_u16() answers and the result string are diffed against the model; oracles: no marker in the output, output equals ipp://host[:port]path from the generator's ground truth, idempotent.",
    "level_note": "Partial at the library boundary: how a string is split into components and the builder's re-validation are the http crate's; they are validated, not proved.",
    "design_ref": "DESIGN.md section 9, C13",
    "trusted_base": URI_TB,
    "assumptions": ["authorities are bracket-balanced (validated by the http crate's parser) for idempotence"],
}

PROPS["C14"] = {
    "features": None,
    "technique": "Lean 4 proof: transportUrl = RFC mapping except for port-less ipps (partial theorem + proved counterexample = known finding K1); differential runs through the cfg-guarded hook",
    "level_text": "Machine-checked theorems: `arms_pin` (translated scheme/port arms), `transport_partial` (for every target except a port-less ipps one the URL is the one RFC 3510/7472 prescribe: ipp->http, ipps->https, explicit port kept, 631 appended outside the brackets of an IPv6 literal, user-info/host/path/query unchanged, other schemes untouched), `ipp_maps_to_http`, `ipps_with_port`, `other_schemes_unchanged`, and `portless_ipps_counterexample`/`portless_ipps_gets_443`: the model provably violates the property for port-less ipps targets exactly as the code does (443 instead of 631). That defect is pinned by the repository's own test test_ipps_uri_no_port and is recorded as known finding K1. Tie to the code: seeded structured URIs through verif_transport_url, result diffed against the model and compared with the RFC's expectation from the generator's ground truth.",
    "level_note": "The full property is false of the code (K1); the theorem is `_partial` and says exactly where. http::Uri component accessors are a modelled library.",
    "design_ref": "DESIGN.md section 9, C14",
    "trusted_base": URI_TB + ["hook: #[cfg(ancwrd1_ipp_rs_verif)] pub fn verif_transport_url wraps the private ipp_uri_to_string"],
    "assumptions": ["an empty path may be spelled '' or '/' in the URL (RFC 3986 6.2.3)"],
}

PROPS["C17"] = {
    "features": None,
    "technique": "Lean 4 proof: full characterisation (iff) of is_printer_ready on the model; ERROR_STATES pinned by decide; differential runs",
    "level_text": "Machine-checked theorem `ready_iff`: for every header and every attribute content, the helper returns Err(status) exactly when the status is not successful and otherwise Ok(not stopped and no blocking keyword among the reasons), where the reasons may be a single keyword, any position of a set, or member values of a collection; corollaries `error_iff_not_success`, `stopped_not_ready`, `blocked_not_ready`, `otherwise_ready`; `error_states_pin` (translated ERROR_STATES equals the property's ten words), `names_pin`. Tie to the code: seeded responses (every status class x printer-state variants incl. wrong syntaxes and negative enums x reasons variants with blocking words at random positions, near-miss spellings, collections x one/two/no printer groups) through the real helper, diffed with the model.",
    "level_note": "Trusts the Lean kernel, the translator (ERROR_STATES, attribute names, stopped state), the correspondence check; enum-as-inner accessors and FromPrimitive::from_i32 are modelled library behaviour.",
    "design_ref": "DESIGN.md section 9, C17",
    "trusted_base": CODEC_TB,
    "assumptions": ["as_enum()/as_keyword() return the payload exactly for that variant", "from_i32 maps negative numbers to None"],
}

PROPS["C19"] = {
    "features": None,
    "technique": "Lean 4 proof: add/groups_of refine an ordered abstract model over all histories (induction); iterator characterised; differential runs",
    "level_text": "Machine-checked theorems: `add_into_first`, `add_appends_new`, `add_lookup` (one step), `history_from_empty` (any sequence of additions from an empty message yields one group per kind in order of first use, each the last-wins map of its additions), `history_tags` (from any start state, e.g. a parsed message with repeated groups, existing groups keep kind and position and new kinds are appended in order of first use), `groups_of_order`, `traversal` (set elements in order, collection member values in member-name order, any other value once), `traversal_ends`, `traversal_exhausts`. Induction over histories of any length. Tie to the code: seeded histories (empty, builder-like and parser-like starts, 0-12 additions over a small name pool) and seeded values through the real add/groups_of/iterator, diffed with the model.",
    "level_note": "Trusts the Lean kernel, the correspondence check; HashMap::insert = replace-or-add on a finite map, BTreeMap iteration = key order are modelled library behaviour.",
    "design_ref": "DESIGN.md section 9, C19",
    "trusted_base": CODEC_TB,
    "assumptions": [],
}

STREAM_TB = CODEC_TB + [
    "std Read::read_exact (retries Interrupted, Ok(0) = UnexpectedEof, zero-length request performs no read) and futures-util ReadExact (no retry, Pending suspends) modelled by readExactStd / readExactFut (Model/Loop.lean); a scripted source is a list of events data/pending/interrupted/fail",
    "wake-up delivery of a real executor is modelled as 'polled again'; the harness's executor has a watchdog for a suspension without wake-up",
]

PROPS["C05"] = {
    "features": None,
    "technique": "Lean 4 proof: simulation between the two read_exact models lifts through the drive loop; tag ranges of both loops pinned equal (translator); scripted-source differential runs",
    "level_text": "Machine-checked theorems: `loops_pin` (the tag ranges and end tag extracted separately from the async and the blocking drive loop are equal), `async_eq_blocking` (for every script of data chunks, not-ready results and failures without Interrupted the async parser's outcome equals the blocking parser's: same header, groups, remaining stream, or the same error with the same tag / I/O kind), `async_eq_blocking_delivered` (the same against the blocking parser run on the script with not-ready results removed, which is how the real blocking parser is driven), `interrupted_differs` (the one designed difference, stated explicitly). For all scripts: any chunking, any number of not-ready results, unbounded length. Tie to the code: every composition of short messages (n<=16), uniform chunkings with 0-2 not-ready results per chunk under immediate and deferred wake-up, random compositions of generated, wire-tree and mutated messages incl. injected failures are run through the real AsyncIppParser (own executor with watchdog) and the real IppParser; outcomes are compared with each other and with the model.",
    "level_note": "Partial: a lost wake-up in a real executor would be a hang the model cannot show (watchdog in the harness). read_exact of std / futures-util are modelled libraries.",
    "design_ref": "DESIGN.md section 9, C05",
    "trusted_base": STREAM_TB,
    "assumptions": ["Interrupted is excluded from the equivalence (std retries it, futures-util returns it) and covered by interrupted_differs"],
}

PROPS["C06"] = {
    "features": None,
    "technique": "Lean 4 proof: reader simulation (fragmented source vs flat bytes) + exact-consumption lemma by induction on the loop; scripted-source differential runs",
    "level_text": "Machine-checked theorems: `fragmentation_blocking` / `fragmentation_async` (for every fault-free script – any fragmentation down to single bytes, Interrupted results for the blocking reader, not-ready results for the async one – the outcome equals the outcome on the unfragmented bytes and the remaining reader holds exactly the remaining bytes), `exact_consumption` (every accepted input splits into a consumed part ending with the end-of-attributes tag and an untouched rest, and the result is the same whatever follows: the parser never reads ahead, the payload is delivered unmodified). Tie to the code: every composition of short messages, byte-at-a-time, uniform and random fragmentations with Interrupted / not-ready insertions of generated messages with payloads (empty, one byte, tag-like, up to MiBs thorough) through the real parsers via parse_parts; the drained remaining reader must equal the payload.",
    "level_note": "read_exact and Cursor are modelled libraries; IppPayload wrapping of the remaining reader is covered by C08.",
    "design_ref": "DESIGN.md section 9, C06",
    "trusted_base": STREAM_TB,
    "assumptions": [],
}

PROPS["C07"] = {
    "features": None,
    "technique": "Lean 4 proof: prefix lemma on the flat reader generalised to a reader whose end-of-input error is e; lifted to scripted sources by simulation; exhaustive cut/fault enumeration per message",
    "level_text": "Machine-checked theorems: `prefix_rejected` (for every input the parser accepts, every proper prefix of the consumed part is rejected with UnexpectedEof), `prefix_rejected_streams` (the same through both parsers under any fragmentation), `fault_propagates` (if the source fails with kind e before the end-of-attributes tag has been delivered – after any fault-free fragmentation, whatever follows – both parsers return an error carrying e). Tie to the code: for each fixed and generated well-formed message every cut point and a single injected failure at every offset (all kinds for short messages, WouldBlock for the blocking reader) through both real parsers; the outcome must be an error of that kind and must equal the model's.",
    "level_note": "Interrupted is excluded for the blocking reader (std retries it by design).",
    "design_ref": "DESIGN.md section 9, C07",
    "trusted_base": STREAM_TB,
    "assumptions": [],
}

PROPS["C08"] = {
    "features": None,
    "technique": "Lean 4 proof: drain of the modelled Cursor.chain(payload) = header bytes ++ payload for every payload kind, consumer and buffer-size sequence (measure induction); differential runs of into_read / into_async_read",
    "level_text": "Machine-checked theorems on the model of into_read/into_async_read: `stream_is_header_then_payload` (for every message and listing, payload source kind none/blocking/async with any fragmentation, not-ready and Interrupted results, both consumption interfaces and every sequence of positive read-buffer sizes, the drained stream is exactly to_bytes() followed by exactly the payload's bytes, then end of stream), `bridges_agree` (a blocking payload through the async interface and an async payload through the blocking interface deliver the same bytes), `empty_payload`. Tie to the code: seeded messages x payload kinds x fragmented/not-ready/interrupted payload scripts (0 B to 70 KB, MiBs thorough) x both real interfaces x buffer-size sequences 1 B-64 KiB; drained bytes and end status diffed against the model and checked against header+payload directly.",
    "level_note": "Partial: io::Cursor, std io::Chain / futures Chain, AllowStdIo and futures_executor::block_on are modelled libraries (their logic is transcribed in Model/Stream.lean); the ipp code contributes the chaining order and the three-way payload dispatch.",
    "design_ref": "DESIGN.md section 9, C08",
    "trusted_base": STREAM_TB + ["io::Cursor, io::Chain, futures Chain, AllowStdIo, block_on transcribed in Model/Stream.lean"],
    "assumptions": ["read buffers are non-empty (1 B to 64 KiB)"],
}

PROPS["C20"] = {
    "features": None,
    "technique": "Lean 4 proof: fromJson(toJson m) = m on the model of the serde derive (field/variant names regenerated from the Rust types); differential runs through real serde_json",
    "level_text": "Machine-checked theorems on the model of #[derive(Serialize, Deserialize)]: `message_roundtrip` (for every header and every message whose maps are canonical – in particular every message of C01's domain, `domain_of_C01` – deserialising the serialised JSON value reproduces header, groups, names and values), `value_roundtrip` (all 22 kinds incl. raw-octet values and nested collections), `payload_not_serialised`, `skipped_pin`. Field and variant identifiers, the skipped field and the absence of serde renames are extracted from the Rust sources on every run. Tie to the code: seeded messages are serialised by the real derive with serde_json; the JSON value (canonically rendered) is diffed against the model's; real from_str must give back the message with an empty payload.",
    "level_note": "Partial: serde's derive conventions (externally tagged enums, maps as objects, Bytes as number arrays, char as a one-character string – kept atomic in the model) and serde_json are modelled libraries.",
    "design_ref": "DESIGN.md section 9, C20",
    "trusted_base": CODEC_TB + ["serde derive conventions and serde_json, Model/Json.lean"],
    "assumptions": ["a group's map key equals the name stored in the attribute"],
}

PROPS["C15"] = {
    "features": None,
    "technique": "Lean 4 proof: potential-function argument on a cost-annotated run of the same drive loop (cost <= 8*consumed+8), erasure lemma (cost parser = parser); real allocations measured by a counting allocator on size-parameterised families",
    "level_text": "Machine-checked theorems: `cost_model_is_the_parser` (the cost-annotated machine projects onto the parser: same results, rests and errors on every input) and `linear` (for every input – any nesting depth, set width, number of attributes, members or groups, well-formed or malformed – the modelled work (bytes allocated per token, pushes, items moved when a collection closes, name hashing/copying on insert) is at most 8 per byte consumed plus 8; amortised by a potential function over the collection stack). Tie to the code: sixteen input families with n doubling to 1 MiB (2 MiB thorough) are parsed by the real blocking parser, by the async parser, and by the async parser fed 64- and 536-octet pieces, under a counting global allocator: allocated bytes and allocator calls per input byte against absolute ceilings (400 B, 2.5 calls), growth factor <= 2.5 on doubling, wall-clock backstop; consumed bytes diffed against the model (up to 4096 elements).",
    "level_note": "Partial: the cost semantics of Vec / HashMap / BTreeMap / the allocator are constants of the model; comparisons inside BTreeMap::insert (n log n) are outside it. The real allocator is observed, not proved.",
    "design_ref": "DESIGN.md section 9, C15",
    "trusted_base": CODEC_TB + ["Model/Cost.lean: per-token work of the implementation as counted by hand from parser.rs/reader.rs", "counting GlobalAlloc wrapper in the harness (harness/src/alloc.rs)"],
    "assumptions": ["Vec::push, HashMap::insert are amortised O(1); moving a Vec is O(1)"],
}

PROPS["C11"] = {
    "features": None,
    "technique": "Lean 4 proof on the decision logic of send (request assembly, Basic credential = base64 round trip, status gate, parse of delivered body) composed with C01/C04/C07; both real clients against a scripted loopback HTTP/1.1 server",
    "level_text": "Machine-checked theorems on Model/Http.lean: `one_post` (exactly one POST to the mapped path+query with Content-Type application/ipp), `body_decodes_to_request` (by C01: the body parses to exactly the request and its payload), `custom_header_last_wins`, `basic_credentials` + `basic_header_on_wire` (base64 round trip proved: the Authorization value decodes to user:password), `error_status_is_error`, `timeout_is_error`, `exact_response` (by C04: for every well-formed response and payload the returned value is exactly header, attributes and trailing data), `cut_is_error` (by C07: a connection cut anywhere before the end of the attributes never yields a success), `sends_are_independent`. Tie to the code: both real clients (ureq, reqwest on a tokio runtime) against the harness's loopback server: content-length / chunked / close-delimited framing with random write fragmentation, every status 400-599, cuts at every offset inside header+attributes under each framing, a stalled server against request_timeout, 16 concurrent senders; the captured request line, headers and de-chunked body and the returned value are diffed against the model and checked by direct oracles.",
    "level_note": "Partial: the HTTP stacks, sockets, timers and thread scheduling are parameters; timeouts and concurrency are observed, not proved. reqwest adds its own Authorization header when the target URI carries user-info (library behaviour, outside the property: C11 targets carry none).",
    "design_ref": "DESIGN.md section 9, C11",
    "trusted_base": CODEC_TB + ["reqwest 0.12, ureq 2.12, hyper, tokio, the OS loopback stack (parameters of the model)", "harness/src/httpd.rs: the scripted HTTP/1.1 server and its request parser"],
    "assumptions": ["the HTTP stack delivers the de-framed body bytes up to the cut point and signals the cut as end of stream or error"],
}

PROPS["C18"] = {
    "features": None,
    "needs_ipputil": True,
    "technique": "Lean 4 proof: exhaustive/exclusive text classification of option values and control-flow theorems of do_print_job over the builder (C10) and readiness (C17) models; the real ipputil binary against a scripted loopback printer",
    "level_text": "Machine-checked theorems: `classification` (every option value text is exactly one of true / false / decimal 32-bit integer (optional sign, digits, in range) / keyword-unchanged; with `true_is_boolean`, `false_is_boolean`, `integer_text`, `keyword_text` and boundary examples), `no_check_submits` (with -n exactly the Print-Job is sent), `not_ready_submits_nothing` (stopped, blocked, unsuccessful status or unreachable printer: only the query is sent, exit status non-zero), `ready_submits` (query, then one Print-Job whose payload is the document), `exit_zero_iff` (exit status 0 exactly when every exchange produced a response with a successful status and, with the check on, the printer was ready), `print_job_is_a_builder_result` (job name, user name and typed options reach the request as C10 describes). Tie to the code: the real ipputil binary, built from /repo, is run against the harness's loopback printer with files and standard input of 0 B to hundreds of KB (MiBs thorough), option texts of every class incl. 'a=b=c' and options without '=', -n, scripted printer states, reasons, IPP statuses and HTTP errors; the requests the printer received (parsed) and the exit status are diffed against the model; the document must arrive byte-identical.",
    "level_note": "Partial: clap, file reading, chunked transfer and process exit are observed, not proved.",
    "design_ref": "DESIGN.md section 9, C18",
    "trusted_base": CODEC_TB + ["clap argument parsing, std::fs, std::process exit codes, ureq (parameters)", "harness/src/httpd.rs"],
    "assumptions": ["`Err` returned from main gives exit status 1"],
}

PROPS["C12"] = {
    "features": None,
    "multi_features": ["native-tls", "rustls"],
    "technique": "Lean 4 proof: accept/reject of the modelled flag-and-root plumbing = the property's rule over the whole finite matrix (case analysis); the matrix (1440 cells quick, 3840 thorough: setter-call sequences, one or two ca_cert calls, host as name or IP literal, ipps or https) run with real handshakes on both backends",
    "level_text": "Machine-checked theorems on Model/Tls.lean (what each of the four backend blocks hands to its TLS library, incl. how each library's PEM/DER decoders treat the supplied root): `matrix` (for every client, backend, every *sequence* of ignore_tls_errors calls, every list of ca_cert calls of the model, host kind and server certificate the exchange is accepted exactly when the most recent setter call opted out or the certificate is valid and chains to a supplied root in either encoding), `flag_is_last_call`, `opt_out_can_be_revoked`, `plumbing` (without opt-out no verification is relaxed, no accept-all verifier is installed and every supplied root reaches the trust store), `default_verifies`, `bad_certificates_rejected`, `valid_with_root_accepted`, `old_async_rustls_lost_der_root` (the defect repaired by the DER fix). Tie to the code: the matrix {blocking, async} x {native-tls, rustls} x {eight sequences of ignore_tls_errors calls} x {none, PEM, DER (ending in a white-space octet), unrelated, same-named decoy before / after the correct root} x {valid, wrong name, expired, self-signed, unknown CA} x {host as DNS name, as IP literal} x {ipps, https} (720 cells per backend in the quick tier, 1920 thorough) is executed on every check with real handshakes against an in-process rustls server using certificates generated at run time by the openssl CLI (two harness builds, one per backend); outcome compared with the model and the property; a rejected cell must leave zero application bytes at the server.",
    "level_note": "Partial: the TLS libraries' verification is a parameter (`verify`) with stated behaviour; almost all assurance is the exhaustive real run, the theorem covers the plumbing.",
    "design_ref": "DESIGN.md section 9, C12",
    "trusted_base": COMMON_TB + ["native-tls/OpenSSL, rustls + webpki, reqwest, ureq (parameters)", "openssl CLI for test certificates", "harness/src/tls.rs: rustls test server counting application bytes after the handshake"],
    "assumptions": ["the system trust store contains none of the test CAs", "localhost resolves to 127.0.0.1"],
}

ALL_IDS = ["C%02d" % i for i in range(1, 21)]

NOT_YET = "not claimed in this revision: the theorem/correspondence pair for this property is not built yet (see DESIGN.md section 13)"
