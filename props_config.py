"""Per-property configuration of run.py: harness feature set, trusted base, assumptions."""

COMMON_TB = [
    "Lean 4.33.0 kernel and elaborator; axioms limited to propext, Classical.choice, Quot.sound (audited with #print axioms on every run)",
    "gen/extract.py (translator: copies enum discriminants, attribute-name constants, HEADER_ATTRS, ERROR_STATES, loop tag ranges, scheme/port arms, operation tables from /repo into Generated/Source.lean on every run)",
    "the correspondence check: harness text printer (harness/src/text.rs), Driver/Text.lean parser/printer, line diff in run.py",
    "the hand-written Lean model is validated against the real code on the explored inputs only; universal claims are claims about the model",
]

PROPS = {
    "C16": {
        "features": None,
        "technique": "Lean 4 proof: decide over translated tables + lookup lemmas; exhaustive correspondence run",
        "level_text": "Machine-checked proof (Lean 4 kernel) on tables regenerated from the source on every run: every library table agrees with the registry table (decide), status decoding returns the registry symbol for every defined code and never the symbol of another code for any of the unboundedly many inputs (lookup lemma, not enumeration), success implies code <= 0xff. The tie to the code is the translator plus an exhaustive run of all 65536 status codes, all tags and all enum values through the real code compared with the model.",
        "level_note": "Trusts the Lean kernel, the translator gen/extract.py, spec/registry.txt as the transcription of the registries, and that derive(Primitive) maps a number to the variant with that discriminant (validated exhaustively on every run).",
        "design_ref": "DESIGN.md section 9, C16",
        "trusted_base": COMMON_TB + [
            "spec/registry.txt: the registry tables, typed from RFC 8010/8011, PWG 5100.1 and the CUPS operation list",
            "enum-primitive-derive from_uN/from_iN modelled as 'the variant whose discriminant equals n' (validated exhaustively by the run)",
        ],
        "assumptions": [
            "derive(Primitive) decodes a number to the variant with that discriminant (checked for all 65536 status codes, all operation ids 0..0xffff, all tag bytes and enum values 0..300 against the real code on every run)",
        ],
    },
}

PROPS["C02"] = {
    "features": None,
    "technique": "Lean 4 proof: no model outcome is `panic`/`outOfFuel` (induction on fuel over reader laws); differential run on the malformed stream",
    "level_text": "Machine-checked proof that, in the model, the value decoder (all 256 tags, all bodies), the blocking parser on every byte string, and both parsers over every scripted source return a value or an error value: every place where the Rust would panic (bytes::Buf reads, slicing, advance) is an explicit `panic` outcome and is proved unreachable, and the loop provably finishes within fuel length+1. The model is tied to the code by running the complete tag x length x fill grid, all short strings, all token sequences up to k, grammar-aware mutations and 1 MiB structural bombs through the real decoder/parsers (blocking and async, each followed by display, re-encoding, traversal, clone, drop; bombs in a child process) and diffing with the model. Partial: stack exhaustion of the recursive Drop/Clone/Display on values nested >= ~16k levels is runtime behaviour the model cannot exhibit; it is observed by the harness and reported as known finding K2.",
    "level_note": "Trusts the Lean kernel, the translator, the correspondence check; `bytes::Buf` panics-when-short and `from_utf8_lossy` are modelled library behaviour (validated on every run). Stack depth, allocator and wall-clock are observed only.",
    "design_ref": "DESIGN.md section 9, C02",
    "trusted_base": COMMON_TB + [
        "bytes::Buf::get_u8/u16/i32/i8, slicing and advance modelled as 'panic when fewer bytes remain' (Model/Codec.lean)",
        "String::from_utf8_lossy modelled by Model/Utf8.lean (maximal-subpart replacement)",
        "std Read::read_exact / futures-util ReadExact modelled by readExactStd / readExactFut (Model/Loop.lean)",
    ],
    "assumptions": [
        "the model's `panic` outcomes are exactly the places where the Rust code can panic (validated by the differential run: the harness catches unwinds per case)",
        "recursion depth of compiler-generated Drop/Clone and of Display is not modelled (known finding K2)",
    ],
    "search_thorough": False,
}

ALL_IDS = ["C%02d" % i for i in range(1, 21)]

NOT_YET = "not claimed in this revision: the theorem/correspondence pair for this property is not built yet (see DESIGN.md section 13)"
