#!/usr/bin/env python3
"""Orchestrator of the /verif machinery (python3, stdlib only).

  run.py setup                      build everything from files on disk (offline)
  run.py check Cxx [--tier quick|thorough]
  run.py replay <replay.json>

A check, in order: translator -> Lean build of the model driver and of the property's theorems
(+ axiom audit) -> harness build against /repo's working tree (hook cfg on) -> cases through the
real code -> same cases through the Lean model -> diff, oracles, search, evidence, verdict.
Exit 0: property held on everything explored.  Exit 1: a line `VIOLATION property=<id> replay=<path>`.
"""
import fcntl
import json
import os
import re
import subprocess
import sys
import time

ROOT = os.path.dirname(os.path.abspath(__file__))
REPO = os.environ.get("REPO", "/repo")
LEAN = os.path.join(ROOT, "lean")
HARNESS = os.path.join(ROOT, "harness")
WORK = os.path.join(ROOT, "work")
ALLOWED_AXIOMS = {"propext", "Classical.choice", "Quot.sound"}
FORBIDDEN = re.compile(r"\b(sorry|admit|native_decide|bv_decide|implemented_by|unsafe)\b|^\s*axiom\s|maxHeartbeats\s+0")

sys.path.insert(0, ROOT)
from props_config import PROPS  # noqa: E402


def sh(cmd, cwd=None, env=None, timeout=None, stdin=None, stdout=None):
    e = dict(os.environ)
    e.update({"CARGO_NET_OFFLINE": "true", "GOPROXY": "off", "PIP_NO_INDEX": "1"})
    if env:
        e.update(env)
    return subprocess.run(cmd, cwd=cwd, env=e, timeout=timeout, stdin=stdin,
                          stdout=stdout if stdout is not None else subprocess.PIPE,
                          stderr=subprocess.STDOUT if stdout is None else subprocess.PIPE, text=True)


class Lock:
    def __enter__(self):
        os.makedirs(WORK, exist_ok=True)
        self.f = open(os.path.join(WORK, ".lock"), "w")
        fcntl.flock(self.f, fcntl.LOCK_EX)
        return self

    def __exit__(self, *a):
        fcntl.flock(self.f, fcntl.LOCK_UN)
        self.f.close()


def translate():
    """regenerate Generated/Source.lean from /repo and Spec/Registry.lean from spec/registry.txt"""
    r1 = sh([sys.executable, os.path.join(ROOT, "gen", "extract.py"), REPO,
             os.path.join(LEAN, "IppModel", "Generated", "Source.lean")])
    r2 = sh([sys.executable, os.path.join(ROOT, "gen", "registry.py"), os.path.join(ROOT, "spec", "registry.txt"),
             os.path.join(LEAN, "IppModel", "Spec", "Registry.lean")])
    r3 = sh([sys.executable, os.path.join(ROOT, "gen", "names.py"), os.path.join(ROOT, "spec", "names.txt"),
             os.path.join(LEAN, "IppModel", "Spec", "Names.lean")])
    return (r1.stdout or "") + (r2.stdout or "") + (r3.stdout or "")


def lake(target):
    return sh(["lake", "build", target], cwd=LEAN, timeout=3600)


def theorems_of(pid):
    """(names, source text) of the property theorems in Props/<pid>.lean"""
    import glob
    paths = [os.path.join(LEAN, "IppModel", "Props", pid + ".lean")] + sorted(glob.glob(os.path.join(LEAN, "IppModel", "Props", pid + "?.lean")))
    src = ""
    for path in paths:
        try:
            src += open(path, encoding="utf-8").read() + "\n"
        except OSError:
            if path == paths[0]:
                return [], ""
    names = re.findall(r"^theorem\s+([\w.]+)", src, re.M)
    return names, src


def strip_lean_comments(src):
    src = re.sub(r"/-.*?-/", "", src, flags=re.S)
    return re.sub(r"--[^\n]*", "", src)


def imported_files(pid):
    """transitive project-local imports of Props/<pid>.lean"""
    seen, todo = set(), ["IppModel.Props." + pid]
    while todo:
        mod = todo.pop()
        if mod in seen:
            continue
        path = os.path.join(LEAN, mod.replace(".", "/") + ".lean")
        if not os.path.exists(path):
            continue
        seen.add(mod)
        for m in re.findall(r"^import\s+([\w.]+)", open(path, encoding="utf-8").read(), re.M):
            if m.startswith("IppModel"):
                todo.append(m)
    return sorted(seen)


def audit(pid, names, thorough):
    """`#print axioms` for every property theorem; forbidden-construct grep over everything it imports"""
    res = {"axioms": {}, "bad": [], "forbidden": [], "leanchecker": None}
    if not names:
        return res
    ns = "Ipp.Props." + pid + "."
    path = os.path.join(LEAN, "IppModel", "Audit", pid + ".lean")
    os.makedirs(os.path.dirname(path), exist_ok=True)
    body = f"import IppModel.Props.{pid}\n" + "".join(f"#print axioms {ns}{n}\n" for n in names)
    open(path, "w").write(body)
    r = sh(["lake", "env", "lean", path], cwd=LEAN, timeout=1800)
    out = r.stdout or ""
    for n in names:
        m = re.search(r"'" + re.escape(ns + n) + r"' (does not depend on any axioms|depends on axioms: \[([^\]]*)\])", out)
        if not m:
            res["bad"].append(f"{n}: no axiom report ({out.strip()[:200]})")
            continue
        axs = [] if m.group(2) is None else [a.strip() for a in m.group(2).replace("\n", " ").split(",") if a.strip()]
        res["axioms"][n] = axs
        extra = [a for a in axs if a not in ALLOWED_AXIOMS]
        if extra:
            res["bad"].append(f"{n}: depends on {extra}")
    for mod in imported_files(pid):
        if mod.startswith("IppModel.Generated") or mod.startswith("IppModel.Spec.Registry") or mod.startswith("IppModel.Spec.Names"):
            continue
        src = strip_lean_comments(open(os.path.join(LEAN, mod.replace(".", "/") + ".lean"), encoding="utf-8").read())
        for i, line in enumerate(src.splitlines(), 1):
            if FORBIDDEN.search(line):
                res["forbidden"].append(f"{mod}:{i}: {line.strip()[:100]}")
    if thorough:
        rc = sh(["lake", "env", "leanchecker", "IppModel.Props." + pid], cwd=LEAN, timeout=3600)
        res["leanchecker"] = rc.returncode
        if rc.returncode != 0:
            res["bad"].append("leanchecker failed: " + (rc.stdout or "")[-300:])
    return res


def build_harness(features):
    args = ["cargo", "build", "--release", "--offline"]
    target = os.path.join(HARNESS, "target")
    if features:
        args += ["--no-default-features", "--features", features]
        target = os.path.join(HARNESS, "target-" + features.replace(",", "-"))
    env = {"CARGO_TARGET_DIR": target}
    if REPO != "/repo":
        env["CARGO_TARGET_DIR"] = target + "-alt"
    r = sh(args, cwd=HARNESS, env=env, timeout=3600)
    return r, os.path.join(env["CARGO_TARGET_DIR"], "release", "ippverif")


def load_known():
    try:
        return json.load(open(os.path.join(ROOT, "known_findings.json")))
    except OSError:
        return {"open": [], "fixed": []}


def match_known(pid, case_line, failure, known):
    for k in known.get("open", []):
        if k["property"] != pid:
            continue
        if re.search(k["failure_regex"], failure) and re.search(k["case_regex"], case_line):
            return k
    return None


def write_replay(rundir, pid, n, payload):
    d = os.path.join(WORK, "replay")
    os.makedirs(d, exist_ok=True)
    p = os.path.join(d, f"{pid}-{os.path.basename(rundir)}-{n}.json")
    json.dump(payload, open(p, "w"), indent=1)
    return p


UTIL_TARGET = os.path.join(WORK, "util-target")


def build_ipputil():
    """the real `ipputil` binary from /repo's working tree (C18), outside /repo"""
    r = sh(["cargo", "build", "-p", "ipp-util", "--release", "--offline"], cwd=REPO, env={"CARGO_TARGET_DIR": UTIL_TARGET}, timeout=3600)
    return r, os.path.join(UTIL_TARGET, "release", "ipputil")


def run_cases(binary, pid, tier, seed, outdir, corpus=True):
    if isinstance(binary, list):
        # several harness builds (TLS backends): run each into its own directory and merge
        os.makedirs(outdir, exist_ok=True)
        merged = {"cases.txt": [], "impl.out": [], "oracle.out": [], "model.out": []}
        stats_all = None
        last = (None, None)
        for i, b in enumerate(binary):
            sub = os.path.join(outdir, f"part{i}")
            r, m = run_cases(b, pid, tier, seed, sub, corpus)
            last = (r, m)
            if r.returncode != 0:
                return r, m
            for k in merged:
                merged[k] += open(os.path.join(sub, k), encoding="utf-8", errors="replace").read().splitlines()
            st = json.load(open(os.path.join(sub, "stats.json")))
            if stats_all is None:
                stats_all = st
            else:
                for k in ("cases", "corpus_cases", "distinct", "distinct_nontrivial", "oracle_failures"):
                    stats_all[k] = stats_all.get(k, 0) + st.get(k, 0)
                for k in ("ops", "classes"):
                    for kk, vv in st.get(k, {}).items():
                        stats_all[k][kk] = stats_all[k].get(kk, 0) + vv
                stats_all["samples"] = (stats_all.get("samples", []) + st.get("samples", []))[:6]
        for k, v in merged.items():
            open(os.path.join(outdir, k), "w").write("\n".join(v) + "\n")
        json.dump(stats_all, open(os.path.join(outdir, "stats.json"), "w"))
        return last
    os.makedirs(outdir, exist_ok=True)
    args = [binary, "run", pid, "--tier", tier, "--seed", str(seed), "--out", outdir]
    if corpus:
        args += ["--corpus", os.path.join(ROOT, "corpus", pid)]
    r = sh(args, cwd=ROOT, timeout=6 * 3600, env={"IPPUTIL_BIN": os.path.join(UTIL_TARGET, "release", "ipputil")})
    if r.returncode != 0:
        return r, None
    model_bin = os.path.join(LEAN, ".lake", "build", "bin", "ippmodel")
    with open(os.path.join(outdir, "cases.txt")) as fi, open(os.path.join(outdir, "model.out"), "w") as fo:
        m = subprocess.run([model_bin], stdin=fi, stdout=fo, stderr=subprocess.PIPE, text=True, timeout=6 * 3600,
                           preexec_fn=unlimited_stack)
    return r, m


def compare(outdir):
    """-> (disagreements, oracle failures, spec failures): lists of (index, case, impl, model, text)"""
    rd = lambda n: open(os.path.join(outdir, n), encoding="utf-8", errors="replace").read().split("\n")
    cases, impl, model, oracle = rd("cases.txt"), rd("impl.out"), rd("model.out"), rd("oracle.out")
    n = len(cases) - 1 if cases and cases[-1] == "" else len(cases)
    dis, ofail, sfail = [], [], []
    skipped = [0]
    compare.skipped = 0
    for i in range(n):
        im = impl[i] if i < len(impl) else "<missing>"
        mo = model[i] if i < len(model) else "<missing>"
        spec = None
        if " ## " in mo:
            mo, spec = mo.split(" ## ", 1)
        if mo == "(model-skipped)":
            skipped[0] += 1
        elif im != mo:
            dis.append((i, cases[i], im, mo, "model and implementation disagree"))
        if spec is not None and spec != "-" and im != spec:
            sfail.append((i, cases[i], im, spec, "implementation differs from the specification's answer"))
        orc = oracle[i] if i < len(oracle) else "ok"
        if orc.startswith("FAIL"):
            ofail.append((i, cases[i], im, mo, orc[5:]))
    compare.skipped = skipped[0]
    return n, dis, ofail, sfail


def shape_histogram(outdir):
    """What the generated cases look like: size, nesting, which constructors and wire tags occur (for the evidence)."""
    sizes, depths, heads, tags = {}, {}, {}, {}
    def bump(d, k): d[k] = d.get(k, 0) + 1
    try:
        f = open(os.path.join(outdir, "cases.txt"), encoding="utf-8", errors="replace")
    except OSError:
        return {}
    with f:
        for line in f:
            line = line.rstrip("\n")
            if not line:
                continue
            n = len(line)
            bump(sizes, "<64" if n < 64 else "<256" if n < 256 else "<1Ki" if n < 1024 else "<4Ki" if n < 4096
                 else "<16Ki" if n < 16384 else "<256Ki" if n < 262144 else ">=256Ki")
            if n <= 262144:
                d = m = 0
                for ch in line:
                    if ch == "(":
                        d += 1
                        if d > m: m = d
                    elif ch == ")":
                        d -= 1
                bump(depths, str(m) if m < 8 else "8-15" if m < 16 else "16-63" if m < 64 else ">=64")
                for h in re.findall(r"\(([A-Za-z_][A-Za-z0-9_-]*)", line):
                    if not re.fullmatch(r"[0-9a-f]{2,}", h):   # member names are printed as hex after "("
                        bump(heads, h)
                for t in re.findall(r"\(p ([0-9a-f]{2}) ", line):
                    bump(tags, t)
    top = lambda d, k: dict(sorted(d.items(), key=lambda kv: -kv[1])[:k])
    return {"case_line_size": sizes, "max_nesting_of_case": depths, "constructors_seen": top(heads, 40),
            "wire_value_tags_seen": len(tags), "wire_value_tags_top": top(tags, 12)}


def unlimited_stack():
    import resource
    try:
        resource.setrlimit(resource.RLIMIT_STACK, (resource.RLIM_INFINITY, resource.RLIM_INFINITY))
    except Exception:
        pass


# ---------------------------------------------------------------------------------------------------------
# shrinking of failing cases: structure-agnostic deletion on the S-expression of the case line


def _sx_parse(line):
    toks = re.findall(r"\(|\)|[^\s()]+", line)
    stack = [[]]
    for t in toks:
        if t == "(":
            stack.append([])
        elif t == ")":
            if len(stack) < 2:
                return None
            top = stack.pop()
            stack[-1].append(top)
        else:
            stack[-1].append(t)
    return stack[0] if len(stack) == 1 else None


def _sx_show(x):
    return x if isinstance(x, str) else "(" + " ".join(_sx_show(c) for c in x) + ")"


def _sx_paths(x, path=()):
    """paths of all nodes that may be deleted or simplified (not the head atom of a list)"""
    out = []
    if isinstance(x, list):
        for i, c in enumerate(x):
            if i == 0 and isinstance(c, str) and path:
                continue
            out.append(path + (i,))
            out += _sx_paths(c, path + (i,))
    return out


def _sx_edit(x, path, fn):
    if not path:
        return fn(x)
    y = list(x)
    r = _sx_edit(x[path[0]], path[1:], fn)
    if r is None:
        del y[path[0]]
    else:
        y[path[0]] = r
    return y


def case_fails(binary, pid, case, env, want=None, need_dis=False):
    """does the case still fail an oracle (harness-side) or the specification (Lean side)?  `want`: the
    beginning of the original failure text – a shrunk case must fail the same way; `need_dis`: the case must
    also make the implementation differ from the verified model (keeps the shrinker inside the property's
    domain: outside it the model fails the harness oracle too)"""
    try:
        r = subprocess.run([binary, "exec", pid], input=case + "\n", capture_output=True, text=True, env=env, timeout=60)
    except Exception:
        return False
    lines = r.stdout.split("\n")
    if len(lines) < 3 or lines[1].startswith("(bad-arg"):
        return False
    try:
        m = subprocess.run([os.path.join(LEAN, ".lake", "build", "bin", "ippmodel")], input=lines[0] + "\n", capture_output=True, text=True, timeout=60)
    except Exception:
        return False
    mo = m.stdout.strip()
    spec = None
    if " ## " in mo:
        mo, spec = mo.split(" ## ", 1)
    if mo.startswith("(bad"):
        return False
    dis = mo != lines[1] and mo != "(model-skipped)"
    if need_dis and not dis:
        return False
    if lines[2].startswith("FAIL"):
        return want is None or lines[2][5:].startswith(want)
    if want is not None and not want.startswith("implementation differs"):
        return False
    return spec is not None and spec != "-" and not spec.startswith("(bad") and spec != lines[1]


def shrink_case(binary, pid, case, budget_s=45, max_tries=400, want=None):
    """greedy deletion / truncation; returns a smaller case that still fails (or the original)"""
    if isinstance(binary, list):
        binary = binary[0]
    env = dict(os.environ, IPPUTIL_BIN=os.path.join(UTIL_TARGET, "release", "ipputil"))
    top = _sx_parse(case)
    need_dis = case_fails(binary, pid, case, env, want, True)
    if top is None or not case_fails(binary, pid, case, env, want):
        return case
    t0 = time.time()
    tries = 0
    progress = True
    while progress and time.time() - t0 < budget_s and tries < max_tries:
        progress = False
        for path in sorted(_sx_paths(top), key=lambda p: (len(p), p)):
            if time.time() - t0 > budget_s or tries >= max_tries:
                break
            if len(path) == 1 and path[0] == 0:
                continue   # the op name

            def node_at(x, p):
                for i in p:
                    if not isinstance(x, list) or i >= len(x):
                        return None
                    x = x[i]
                return x
            node = node_at(top, path)
            if node is None:
                continue
            cands = [_sx_edit(top, path, lambda _: None)]
            if isinstance(node, str) and len(node) > 8 and re.fullmatch(r"[0-9a-f]+", node):
                cands.append(_sx_edit(top, path, lambda n: n[: (len(n) // 4) * 2] or "-"))
            for cand in cands:
                tries += 1
                line = " ".join(_sx_show(c) for c in cand)
                if len(line) < len(" ".join(_sx_show(c) for c in top)) and case_fails(binary, pid, line, env, want, need_dis):
                    top = cand
                    progress = True
                    break
            if progress:
                break
    return " ".join(_sx_show(c) for c in top)


def clip(s, n=600):
    return s if len(s) <= n else s[:n] + f"…[{len(s)} chars]"


def check(pid, tier):
    t0 = time.time()
    cfg = PROPS[pid]
    seed = int(os.environ.get("VERIF_SEED", "1") or "1")
    rundir = os.path.join(WORK, "run", f"{pid}-{tier}-{os.getpid()}")
    os.makedirs(rundir, exist_ok=True)
    known = load_known()
    violations = []   # (replay path, suffix)
    known_hits = {}
    notes = []
    P = []            # broken proof obligations
    with Lock():
        tr = translate()
        fallbacks_used = []
        for ln in tr.splitlines():
            ln = ln.strip()
            if not ln:
                continue
            if ln.startswith("extract-fallback:"):
                # the source no longer has the shape the translator's pattern expects for this constant: the
                # committed snapshot value is the (hand-written) model of it and the correspondence check is its tie
                fallbacks_used.append(ln[len("extract-fallback:"):].strip())
                continue
            tag = re.match(r"extract: \[([C0-9, ]+)\]", ln)
            if tag and pid not in [x.strip() for x in tag.group(1).split(",")]:
                continue
            P.append("translator: " + ln[:300])
        if fallbacks_used:
            notes.append("translator could not re-derive from the source (snapshot value used, tie = correspondence check): "
                         + "; ".join(fallbacks_used))
        rd = lake("ippmodel")
        driver_ok = rd.returncode == 0
        if not driver_ok:
            P.append("model driver does not build: " + (rd.stdout or "")[-1500:])
        names, src = theorems_of(pid)
        rp = lake("IppModel.Props." + pid)
        proofs_ok = rp.returncode == 0
        failed_thms = []
        if not proofs_ok:
            log = rp.stdout or ""
            # map error lines of Props/<pid>.lean to theorem names
            lines = src.splitlines()
            for m in re.finditer(r"Props/" + pid + r"\.lean:(\d+):\d+", log):
                ln = int(m.group(1))
                for j in range(min(ln, len(lines)) - 1, -1, -1):
                    tm = re.match(r"theorem\s+([\w.]+)", lines[j])
                    if tm:
                        if tm.group(1) not in failed_thms:
                            failed_thms.append(tm.group(1))
                        break
            P.append("proof obligations no longer check: " + (", ".join(failed_thms) or "see log") + "\n" + log[-2500:])
        aud = audit(pid, names, tier == "thorough") if proofs_ok else {"axioms": {}, "bad": [], "forbidden": [], "leanchecker": None}
        for b in aud["bad"]:
            P.append("axiom audit: " + b)
        for b in aud["forbidden"]:
            P.append("forbidden construct: " + b)
        binaries = []
        if cfg.get("multi_features"):
            harness_ok = True
            for f in cfg["multi_features"]:
                rb, b = build_harness(f)
                binaries.append(b)
                harness_ok = harness_ok and rb.returncode == 0
                if rb.returncode != 0:
                    break
            binary = binaries
        else:
            rb, binary = build_harness(cfg.get("features"))
            harness_ok = rb.returncode == 0
        if harness_ok and cfg.get("needs_ipputil"):
            rb, _ = build_ipputil()
            harness_ok = rb.returncode == 0
    stats = {}
    shape = {}
    n = 0
    dis = ofail = sfail = []
    if not harness_ok:
        p = write_replay(rundir, pid, 0, {"property": pid, "kind": "harness-build-failure",
                                          "what": "the harness no longer builds against /repo's working tree",
                                          "compiler_output": (rb.stdout or "")[-4000:]})
        violations.append((p, " no-failing-input-found"))
    elif not driver_ok:
        p = write_replay(rundir, pid, 0, {"property": pid, "kind": "model-build-failure", "what": P})
        # still run the implementation-side oracles
        r, _ = run_cases(binary, pid, tier, seed, rundir)
        try:
            n, dis, ofail, sfail = compare(rundir)
        except Exception:
            pass
        dis = []
        if not ofail:
            violations.append((p, " no-failing-input-found"))
    else:
        r, m = run_cases(binary, pid, tier, seed, rundir)
        if r.returncode != 0:
            # the harness itself died: a case that did not terminate (watchdog, exit 3) or an abort / stack overflow
            hang = None
            for root_, _, files_ in os.walk(rundir):
                if "hang.txt" in files_:
                    hang = open(os.path.join(root_, "hang.txt")).read()
            crashed_on = None
            for root_, _, files_ in os.walk(rundir):
                if "current.txt" in files_:
                    try:
                        txt = open(os.path.join(root_, "current.txt"), encoding="utf-8", errors="replace").read().strip()
                    except OSError:
                        txt = ""
                    if txt:
                        crashed_on = txt
            if hang:
                p = write_replay(rundir, pid, 0, {"property": pid, "kind": "oracle-failure", "case": hang,
                                                  "what": "the implementation did not terminate on this case within the watchdog limit (hang)"})
            elif crashed_on:
                how = f"was killed by signal {-r.returncode}" if r.returncode < 0 else f"died with exit status {r.returncode}"
                p = write_replay(rundir, pid, 0, {"property": pid, "kind": "oracle-failure", "case": crashed_on,
                                                  "what": f"the process running the implementation {how} while executing this case (stack overflow, abort or a panic outside the guarded call, inside the library)",
                                                  "output": (r.stdout or "")[-1500:]})
            else:
                p = write_replay(rundir, pid, 0, {"property": pid, "kind": "harness-crash", "returncode": r.returncode,
                                                  "output": (r.stdout or "")[-3000:]})
            violations.append((p, ""))
        else:
            n, dis, ofail, sfail = compare(rundir)
            shape = shape_histogram(rundir)
            try:
                stats = json.load(open(os.path.join(rundir, "stats.json")))
            except Exception as e:
                notes.append(f"stats.json unreadable: {e}")
    # --- oracle failures on the implementation (O) ---------------------------------------------------
    new_o = []
    for (i, case, im, mo, text) in list(ofail) + list(sfail):
        k = match_known(pid, case, text, known)
        if k:
            known_hits.setdefault(k["id"], [k, 0])[1] += 1
        else:
            new_o.append((i, case, im, mo, text))
    for j, (i, case, im, mo, text) in enumerate(new_o[:5]):
        small = case
        if j == 0 and harness_ok and driver_ok:
            try:
                small = shrink_case(binary, pid, case, want=text[:24])
            except Exception as e:
                notes.append(f"shrinking failed: {e}")
        p = write_replay(rundir, pid, f"o{j}", {"property": pid, "kind": "oracle-failure", "case_index": i, "case": small,
                                                "case_as_generated": case if small != case else None,
                                                "implementation": im, "model_or_spec": mo, "what": text, "seed": seed,
                                                "tier": tier, "replay_cmd": f"python3 run.py replay <this file>"})
        violations.append((p, ""))
    # --- P / D without O: widen the search ---------------------------------------------------------------
    if (P or dis) and not new_o and harness_ok:
        found = None
        budget = cfg.get("search_budget_s", 240 if tier == "quick" else 900)
        if driver_ok or True:
            for extra in range(1, 4):
                if extra > 1 and time.time() - t0 > budget:
                    break
                sd = seed * 1000 + extra
                d2 = os.path.join(rundir, f"search{extra}")
                try:
                    r2, _ = run_cases(binary, pid, "thorough" if cfg.get("search_thorough", True) else tier, sd, d2, corpus=False) if driver_ok else (None, None)
                    if r2 is None or r2.returncode != 0:
                        break
                    _, d_dis, d_o, d_s = compare(d2)
                    cand = [x for x in list(d_o) + list(d_s) if not match_known(pid, x[1], x[4], known)]
                    if cand:
                        found = (sd, cand[0])
                        break
                except subprocess.TimeoutExpired:
                    break
                if time.time() - t0 > budget:
                    break
        if found:
            sd, (i, case, im, mo, text) = found
            p = write_replay(rundir, pid, "s0", {"property": pid, "kind": "oracle-failure-found-by-search", "case": case,
                                                 "implementation": im, "model_or_spec": mo, "what": text, "seed": sd,
                                                 "broken": P, "disagreements": [clip(x[1]) for x in dis[:3]]})
            violations.append((p, ""))
        else:
            payload = {"property": pid, "kind": "no-longer-shown",
                       "broken_proof_obligations": P,
                       "correspondence_disagreements": [{"case": clip(c, 4000), "implementation": clip(im), "model": clip(mo)}
                                                        for (_, c, im, mo, _) in dis[:5]],
                       "disagreement_count": len(dis),
                       "what": "a theorem or the model/implementation correspondence no longer checks; the widened search found no input on which the property itself fails"}
            p = write_replay(rundir, pid, "p0", payload)
            violations.append((p, " no-failing-input-found"))
    # --- evidence ------------------------------------------------------------------------------------------------
    obligations = len(names)
    discharged = len([x for x in names if x in aud["axioms"] and all(a in ALLOWED_AXIOMS for a in aud["axioms"][x])]) if proofs_ok else 0
    axioms_used = sorted({a for v in aud["axioms"].values() for a in v})
    cov = {
        "obligations": max(obligations, 1),
        "discharged": discharged,
        "checker_cmd": f"cd lean && lake build IppModel.Props.{pid} && lake env lean IppModel/Audit/{pid}.lean   # #print axioms of every theorem"
                       + ("; lake env leanchecker IppModel.Props." + pid if tier == "thorough" else ""),
        "trusted_base": cfg["trusted_base"],
        "theorems": {k: v for k, v in aud["axioms"].items()},
        "axioms_used": axioms_used,
        "evaluations": int(stats.get("cases", n) or n),
        "distinct_nontrivial": int(stats.get("distinct_nontrivial", 0)),
        "rule": stats.get("rule", ""),
        "samples": stats.get("samples", [])[:5] or [clip(c) for (_, c, _, _, _) in (dis + ofail)[:2]] or ["(no cases run)"],
        "exhaustive": bool(stats.get("exhaustive", False)),
        "input_distribution": {"ops": stats.get("ops", {}), "classes": stats.get("classes", {}), "corpus_cases": stats.get("corpus_cases", 0), "shape": shape},
        "translator_fallbacks": fallbacks_used,
        "correspondence": {"cases_compared": n - getattr(compare, "skipped", 0), "cases_model_skipped": getattr(compare, "skipped", 0), "model_vs_implementation_disagreements": len(dis),
                           "implementation_oracle_failures": len(ofail), "implementation_vs_spec_failures": len(sfail)},
        "known_findings_seen": {k: v[1] for k, v in known_hits.items()},
        "leanchecker_rc": aud.get("leanchecker"),
        "notes": notes,
    }
    ev = {"property_id": pid, "tier": tier, "seed": seed, "level": "proof", "coverage": cov,
          "assumptions": cfg["assumptions"], "wall_s": round(time.time() - t0, 2), "violations": len(violations)}
    os.makedirs(os.path.join(ROOT, "evidence"), exist_ok=True)
    json.dump(ev, open(os.path.join(ROOT, "evidence", pid + ".json"), "w"), indent=1)
    for kid, (k, cnt) in sorted(known_hits.items()):
        print(f"KNOWN-FINDING: property={pid} {k['what']} [{kid}, {cnt} case(s)]")
    for (p, suffix) in violations:
        print(f"VIOLATION property={pid} replay={p}{suffix}")
    if not os.environ.get("VERIF_KEEP"):
        import shutil
        shutil.rmtree(rundir, ignore_errors=True)   # replays live in work/replay; the case files can be GBs
    print(f"{pid} {tier}: theorems {discharged}/{obligations}, cases {n}, disagreements {len(dis)}, oracle failures {len(ofail) + len(sfail)}, "
          f"known {sum(v[1] for v in known_hits.values())}, {round(time.time() - t0, 1)}s")
    return 1 if violations else 0


def setup():
    with Lock():
        print(translate())
        for t in ["ippmodel", "IppModel"]:
            r = lake(t)
            print((r.stdout or "")[-2000:])
            if r.returncode != 0:
                return 1
        r, _ = build_ipputil()
        print((r.stdout or "")[-800:])
        if r.returncode != 0:
            return 1
        feats = sorted({c.get("features") or "" for c in PROPS.values()} | {f for c in PROPS.values() for f in c.get("multi_features", [])})
        for f in feats:
            r, _ = build_harness(f or None)
            print((r.stdout or "")[-1500:])
            if r.returncode != 0:
                return 1
    return 0


def replay(path):
    d = json.load(open(path))
    pid = d["property"]
    case = d.get("case")
    if not case:
        print(json.dumps(d, indent=1))
        return 0
    cfg = PROPS[pid]
    with Lock():
        translate()
        lake("ippmodel")
        _, binary = build_harness(cfg.get("features") or (cfg.get("multi_features") or [None])[0])
        if cfg.get("multi_features") and d.get("case", "").startswith("tlscase rustls"):
            _, binary = build_harness("rustls")
        if cfg.get("needs_ipputil"):
            build_ipputil()
    r = subprocess.run([binary, "exec", pid], input=case + "\n", capture_output=True, text=True,
                       env=dict(os.environ, IPPUTIL_BIN=os.path.join(UTIL_TARGET, "release", "ipputil")))
    lines = r.stdout.split("\n")
    print("case:          ", clip(lines[0] if lines else "", 2000))
    print("implementation:", clip(lines[1] if len(lines) > 1 else "", 2000))
    print("oracle:        ", lines[2] if len(lines) > 2 else "")
    m = subprocess.run([os.path.join(LEAN, ".lake", "build", "bin", "ippmodel")], input=(lines[0] if lines else case) + "\n",
                       capture_output=True, text=True)
    print("model:         ", clip(m.stdout.strip(), 2000))
    return 0


def manifest():
    from props_config import ALL_IDS, NOT_YET
    checks = []
    for pid in ALL_IDS:
        if pid not in PROPS:
            continue
        c = PROPS[pid]
        checks.append({
            "property_id": pid,
            "quick_cmd": f"python3 run.py check {pid} --tier quick",
            "thorough_cmd": f"python3 run.py check {pid} --tier thorough",
            "evidence_file": f"/verif/evidence/{pid}.json",
            "replay_cmd_template": "python3 run.py replay {path}",
            "engine": "lean4-proof+correspondence",
            "level_claimed": {"category": "proof", "text": c["level_text"], "design_ref": c.get("design_ref", "DESIGN.md section 9")},
            "level_note": c["level_note"],
            "technique": c["technique"],
        })
    m = {
        "version": 1,
        "setup_cmd": "python3 run.py setup",
        "hooks": {
            "guard": "ancwrd1_ipp_rs_verif",
            "enable": "rustc --cfg ancwrd1_ipp_rs_verif, set through build.rustflags in harness/.cargo/config.toml (the harness is a separate crate with a path dependency on /repo/ipp)",
            "baseline_off_cmd": "cd /repo && cargo test --workspace --no-fail-fast --offline",
            "source_commits": HOOK_COMMITS,
            "add_only": True,
        },
        "engines": [{
            "name": "lean4-proof+correspondence",
            "path": "/verif/run.py",
            "serves_properties": [c["property_id"] for c in checks],
            "kind_free_text": "Lean 4 theorems about an executable model (lean/IppModel), model tied to /repo by a translator (gen/extract.py) and a differential correspondence check (harness/ vs lean/Driver) on every run",
        }],
        "checks": checks,
        "not_applicable": [{"property_id": pid, "reason": NOT_YET} for pid in ALL_IDS if pid not in PROPS],
        "notes": "All checks rebuild the harness from /repo's working tree and regenerate Generated/Source.lean from it. VERIF_SEED seeds every random choice. known_findings.json lists genuine defects that are recorded rather than repaired.",
    }
    json.dump(m, open(os.path.join(ROOT, "MANIFEST.json"), "w"), indent=1)
    return 0


HOOK_COMMITS = []
try:
    HOOK_COMMITS = subprocess.run(["git", "-C", "/repo", "log", "--format=%H", "--grep=verif hook"], capture_output=True, text=True).stdout.split()
except Exception:
    pass


def main():
    if len(sys.argv) < 2:
        print(__doc__)
        return 2
    if sys.argv[1] == "setup":
        return setup()
    if sys.argv[1] == "manifest":
        return manifest()
    if sys.argv[1] == "replay":
        return replay(sys.argv[2])
    if sys.argv[1] == "check":
        pid = sys.argv[2]
        tier = os.environ.get("VERIF_TIER") or "quick"
        if "--tier" in sys.argv:
            tier = sys.argv[sys.argv.index("--tier") + 1]
        if pid not in PROPS:
            print(f"unknown property {pid}")
            return 2
        return check(pid, tier)
    return 2


if __name__ == "__main__":
    sys.exit(main())
