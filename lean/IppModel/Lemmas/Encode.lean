/-
  The encoder produces the reference encoding (the development behind C03, C01).
  TO BE PROVED: the theorems below.  Helper lemmas may be added here or in new files under IppModel/Lemmas/.
-/
import IppModel.Lemmas.Total
import IppModel.Spec.ToWire
namespace Ipp
open Gen Spec

/-- the translated header-attribute list is the RFC 8011 order -/
theorem headerAttrs_pin : Gen.headerAttrs = rfc8011Order := by decide

theorem encodeMsg_eq_ser (h : Header) (gs L : List Group) (hwf : wfMsg gs = true) (hL : ListingOf gs L) :
    encodeMsg h L = ser (toWireMsg h L) := by
  sorry

theorem toWireMsg_wf (h : Header) (gs L : List Group) (hwf : wfMsg gs = true) (hL : ListingOf gs L) :
    wfWire (toWireMsg h L) = true := by
  sorry

theorem interp_toWireMsg (h : Header) (gs L : List Group) (hwf : wfMsg gs = true) (hL : ListingOf gs L) :
    interp (toWireMsg h L) = (h, gs) := by
  sorry

/-- every value on the wire carries the registered tag of its syntax -/
theorem tagOf_registry (v : Value) (inColl : Bool) (hv : wfVal inColl false v = true) : tagOf v = registryTag v := by
  sorry

/-- "a one-element set is identified with its element": both encode to the same bytes -/
theorem encAttr_singleton (n : Bytes) (v : Value) : encAttr n (.array [v]) = encAttr n v := by
  sorry

end Ipp
