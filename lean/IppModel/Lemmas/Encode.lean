/-
  The encoder produces the reference encoding (the development behind C03, C01).
  Helper lemmas live here and in IppModel/Lemmas/{Bytes,Utf8,SMap}.lean.
-/
import IppModel.Lemmas.Total
import IppModel.Spec.ToWire
import IppModel.Lemmas.Bytes
import IppModel.Lemmas.Utf8
import IppModel.Lemmas.SMap
namespace Ipp
open Gen Spec

/-- the translated header-attribute list is the RFC 8011 order -/
theorem headerAttrs_pin : Gen.headerAttrs = rfc8011Order := by decide

/-! ## 1. syntactic level: `to_bytes` writes the token stream of the wire tree -/

theorem tagOf_registry' (v : Value) (inColl : Bool) (hv : wfVal inColl false v = true) : tagOf v = registryTag v := by
  cases v with
  | int k _ => cases k <;> rfl
  | str k _ => cases k <;> rfl
  | lang k _ _ => cases k <;> rfl
  | array vs => simp [wfVal] at hv
  | _ => rfl

theorem toksBytes_append (a b : List Tok) : toksBytes (a ++ b) = toksBytes a ++ toksBytes b := by
  induction a with
  | nil => rfl
  | cons t ts ih => simp [toksBytes, ih]

def isArray : Value → Bool
  | .array _ => true
  | _ => false

theorem toWVs_nonarray (v : Value) (h : isArray v = false) : toWVs v = [toWV v] := by
  cases v <;> first | rfl | simp [isArray] at h

theorem wfVal_nonarray (c : Bool) (v : Value) (h : isArray v = false) : wfVal c true v = wfVal c false v := by
  cases v <;> first | rfl | simp [isArray] at h

/-- the value field written by `to_bytes` for a scalar is the length-prefixed RFC body -/
theorem encValue_scalar (v : Value) (ha : isArray v = false) (hc : ∀ ms, v ≠ .coll ms) :
    encValue v = be16 (scalarBody v).length ++ scalarBody v := by
  cases v with
  | array vs => simp [isArray] at ha
  | coll ms => exact absurd rfl (hc ms)
  | lang k l t =>
    simp only [encValue, scalarBody]
    congr 2
    simp [be16]; omega
  | bool b => cases b <;> rfl
  | _ => rfl



theorem toksBytes_plain (t : UInt8) (name body : Bytes) :
    toksBytes [⟨t, name, body⟩] = t :: (be16 name.length ++ (name ++ (be16 body.length ++ body))) := by
  simp [toksBytes, tokBytes]

theorem toksAttr_cons (n : Bytes) (v : WVal) (vs : List WVal) :
    toksAttr ⟨n, v :: vs⟩ = toksV n v ++ toksVs vs := rfl

theorem toksVs_eq_toksAttr (vs : List WVal) : toksVs vs = toksAttr ⟨[], vs⟩ := by
  cases vs <;> rfl

theorem enc_Vs_array (name : Bytes) (v0 : Value) (vs : List Value)
    (h1 : tagOf v0 :: (be16 name.length ++ (name ++ encValue v0)) = toksBytes (toksV name (toWV v0)))
    (h2 : encElems vs false = toksBytes (toksVs (toWVl vs))) :
    tagOf (.array (v0 :: vs)) :: (be16 name.length ++ (name ++ encValue (.array (v0 :: vs)))) =
      toksBytes (toksAttr ⟨name, toWVs (.array (v0 :: vs))⟩) := by
  simp only [toWVs, toWVl, toksAttr_cons, toksBytes_append, ← h1, ← h2, tagOf, tagOfFirst, encValue, encElems]
  simp

theorem enc_Vs_nonarray (name : Bytes) (v : Value) (ha : isArray v = false)
    (h1 : tagOf v :: (be16 name.length ++ (name ++ encValue v)) = toksBytes (toksV name (toWV v))) :
    tagOf v :: (be16 name.length ++ (name ++ encValue v)) = toksBytes (toksAttr ⟨name, toWVs v⟩) := by
  rw [toWVs_nonarray _ ha, toksAttr_cons]
  simp only [toksVs, List.append_nil]
  exact h1

mutual
theorem enc_V (c : Bool) (v : Value) (h : wfVal c false v = true) (name : Bytes) :
    tagOf v :: (be16 name.length ++ (name ++ encValue v)) = toksBytes (toksV name (toWV v)) := by
  cases hv : v with
  | array vs => subst hv; simp [wfVal] at h
  | coll ms =>
    subst hv
    simp only [wfVal] at h
    have := enc_Ms ms h
    simp only [toWV, toksV, toksBytes, tokBytes, toksBytes_append, encValue, tagOf, this]
    simp [be16, be32, endCollTag, ValueTag.u8, T.Collection, ValueTag.code]
  | _ =>
    all_goals
      subst hv
      rw [tagOf_registry' _ c h, encValue_scalar _ rfl (by intro ms; simp)]
      simp only [toWV, toksV, toksBytes_plain]
theorem enc_Vl (c : Bool) (vs : List Value) (h : wfElems c vs = true) :
    encElems vs false = toksBytes (toksVs (toWVl vs)) := by
  cases vs with
  | nil => rfl
  | cons v vs =>
    simp only [wfElems, Bool.and_eq_true] at h
    have h1 := enc_V c v h.1 []
    have h2 := enc_Vl c vs h.2
    simp only [encElems, toWVl, toksVs, toksBytes_append, ← h1, ← h2]
    simp
theorem enc_Ms (ms : List (Bytes × Value)) (h : wfMembers ms = true) :
    encMembers ms = toksBytes (toksMs (toWMs ms)) := by
  cases ms with
  | nil => rfl
  | cons p ms =>
    obtain ⟨k, v⟩ := p
    simp only [wfMembers, Bool.and_eq_true] at h
    have h2 := enc_Ms ms h.2
    have h1 : tagOf v :: (be16 ([] : Bytes).length ++ ([] ++ encValue v)) = toksBytes (toksAttr ⟨[], toWVs v⟩) := by
      have hv := h.1.2
      cases v with
      | array vs =>
        cases vs with
        | nil => simp [wfVal] at hv
        | cons v0 vs =>
          simp only [wfVal, wfElems, Bool.and_eq_true] at hv
          exact enc_Vs_array [] v0 vs (enc_V true v0 hv.2.1 []) (enc_Vl true vs hv.2.2)
      | _ =>
        all_goals
          rw [wfVal_nonarray _ _ rfl] at hv
          exact enc_Vs_nonarray [] _ rfl (enc_V true _ hv [])
    simp only [encMembers, toWMs, toksMs, toksBytes, toksBytes_append, tokBytes, toksVs_eq_toksAttr, ← h1, ← h2]
    simp [memberNameTag, StrKind.vtag, T.MemberAttrName, ValueTag.u8, ValueTag.code]
end

theorem enc_Vs (c : Bool) (v : Value) (h : wfVal c true v = true) (name : Bytes) :
    tagOf v :: (be16 name.length ++ (name ++ encValue v)) = toksBytes (toksAttr ⟨name, toWVs v⟩) := by
  cases v with
  | array vs =>
    cases vs with
    | nil => simp [wfVal] at h
    | cons v0 vs =>
      simp only [wfVal, wfElems, Bool.and_eq_true] at h
      exact enc_Vs_array name v0 vs (enc_V c v0 h.2.1 name) (enc_Vl c vs h.2.2)
  | _ =>
    all_goals
      rw [wfVal_nonarray _ _ rfl] at h
      exact enc_Vs_nonarray name _ rfl (enc_V c _ h name)



/-! ### attributes and groups: syntactic level -/

theorem encAttr_eq_toks (n : Bytes) (v : Value) (h : wfVal false true v = true) :
    encAttr n v = toksBytes (toksAttr (toWAttr (n, v))) := enc_Vs false v h n

theorem encAttrs_append (a b : List (Bytes × Value)) : encAttrs (a ++ b) = encAttrs a ++ encAttrs b := by
  induction a with
  | nil => rfl
  | cons p r ih => obtain ⟨n, v⟩ := p; simp [encAttrs, ih]

theorem encAttrs_eq_toks (X : List (Bytes × Value)) (h : ∀ p ∈ X, wfVal false true p.2 = true) :
    encAttrs X = toksBytes (toksAttrs (toWAttrs X)) := by
  induction X with
  | nil => rfl
  | cons p r ih =>
    obtain ⟨n, v⟩ := p
    simp only [encAttrs, toWAttrs, toksAttrs, toksBytes_append]
    rw [encAttr_eq_toks n v (h (n, v) List.mem_cons_self), ih (fun q hq => h q (List.mem_cons_of_mem _ hq))]

theorem encHeaderAttrs_eq (attrs : List (Bytes × Value)) (hs : List Bytes) :
    encHeaderAttrs attrs hs = encAttrs (hs.filterMap fun h => (sget h attrs).map fun v => (h, v)) := by
  induction hs with
  | nil => rfl
  | cons h hs ih =>
    simp only [encHeaderAttrs, List.filterMap_cons, ih]
    cases sget h attrs with
    | none => simp
    | some v => simp [encAttrs]

theorem isHeaderAttr_eq (n : Bytes) : isHeaderAttr n = rfc8011Order.contains n := by
  simp only [isHeaderAttr, headerAttrs_pin, List.contains_eq_any_beq]
  congr 1
  funext h
  exact Bool.beq_comm

theorem encNonHeaderAttrs_eq (attrs : List (Bytes × Value)) :
    encNonHeaderAttrs attrs = encAttrs (attrs.filter fun p => !rfc8011Order.contains p.1) := by
  induction attrs with
  | nil => rfl
  | cons p r ih =>
    obtain ⟨n, v⟩ := p
    simp only [encNonHeaderAttrs, List.filter_cons, isHeaderAttr_eq, ih]
    cases rfc8011Order.contains n <;> simp [encAttrs]

theorem encOp_eq (attrs : List (Bytes × Value)) :
    encHeaderAttrs attrs headerAttrs ++ encNonHeaderAttrs attrs = encAttrs (opOrder attrs) := by
  rw [encHeaderAttrs_eq, encNonHeaderAttrs_eq, headerAttrs_pin, opOrder, encAttrs_append]

theorem mem_opOrder_mem {attrs : List (Bytes × Value)} {p : Bytes × Value} (h : p ∈ opOrder attrs) : p ∈ attrs := by
  simp only [opOrder, List.mem_append, List.mem_filterMap, List.mem_filter, Option.map_eq_some_iff] at h
  rcases h with ⟨k, _, v, hv, rfl⟩ | ⟨h, _⟩
  · exact sget_mem hv
  · exact h

theorem wfAttrC_val {p : Bytes × Value} (h : wfAttrC p = true) : wfVal false true p.2 = true := by
  simp only [wfAttrC, Bool.and_eq_true] at h; exact h.1.2

theorem encGroup_eq (g : Group) (h : ∀ p ∈ g.attrs, wfAttrC p = true) : encGroup g = serGroup (toWGroup g) := by
  simp only [encGroup, serGroup, toWGroup, DelimiterTag.u8]
  rw [encAttrs_eq_toks _ (fun p hp => wfAttrC_val (h p hp))]

theorem encGroups_eq (gs : List Group) (h : ∀ g ∈ gs, ∀ p ∈ g.attrs, wfAttrC p = true) :
    encGroups gs = serGroups (toWGroups gs) := by
  induction gs with
  | nil => rfl
  | cons g gs ih =>
    simp only [encGroups, toWGroups, serGroups]
    rw [encGroup_eq g (h g List.mem_cons_self), ih (fun g' hg' => h g' (List.mem_cons_of_mem _ hg'))]

/-- what a listing inherits from a canonical message -/
theorem listing_wf {gs L : List Group} (hwf : gs.all wfGroupC = true) (hL : ListingOf gs L) :
    ∀ l ∈ L, l.tag ≠ .EndOfAttributes ∧ ∀ p ∈ l.attrs, wfAttrC p = true := by
  induction gs generalizing L with
  | nil =>
    cases L with
    | nil => intro l hl; cases hl
    | cons l ls => exact absurd hL (by simp [ListingOf])
  | cons g gs ih =>
    cases L with
    | nil => exact absurd hL (by simp [ListingOf])
    | cons l ls =>
      simp only [ListingOf] at hL
      simp only [List.all_cons, Bool.and_eq_true] at hwf
      obtain ⟨ht, hp, hrest⟩ := hL
      intro l' hl'
      rcases List.mem_cons.mp hl' with e | hl'
      · subst e
        have hg := hwf.1
        simp only [wfGroupC, Bool.and_eq_true, List.all_eq_true, bne_iff_ne] at hg
        refine ⟨by rw [ht]; exact hg.1.1, fun p hp' => hg.2 p (hp.mem_iff.mp hp')⟩
      · exact ih hwf.2 hrest l' hl'

theorem listing_head {gs L : List Group} (hwf : wfMsg gs = true) (hL : ListingOf gs L) :
    ∃ g gs' l ls, gs = g :: gs' ∧ L = l :: ls ∧ g.tag = .OperationAttributes ∧ l.tag = .OperationAttributes ∧
      l.attrs.Perm g.attrs ∧ ListingOf gs' ls := by
  cases gs with
  | nil => simp [wfMsg] at hwf
  | cons g gs' =>
    cases L with
    | nil => exact absurd hL (by simp [ListingOf])
    | cons l ls =>
      simp only [ListingOf] at hL
      simp only [wfMsg, Bool.and_eq_true, beq_iff_eq] at hwf
      exact ⟨g, gs', l, ls, rfl, rfl, hwf.1, by rw [hL.1]; exact hwf.1, hL.2.1, hL.2.2⟩

/-! ## 2. the wire tree is well-formed -/

theorem wfBody_lang_enc (t : UInt8) (ht : t = 0x35 ∨ t = 0x36) (l x : Bytes) (hl : l.length < 65536) (hx : x.length < 65536) :
    wfBody t (be16 l.length ++ (l ++ (be16 x.length ++ x))) = true := by
  have h1 : ¬ (t = 0x21 ∨ t = 0x23) := by rcases ht with rfl | rfl <;> decide
  have h2 : ¬ (t = 0x22) := by rcases ht with rfl | rfl <;> decide
  have h3 : ¬ (t = 0x33) := by rcases ht with rfl | rfl <;> decide
  have h4 : ¬ (t = 0x31) := by rcases ht with rfl | rfl <;> decide
  have h5 : ¬ (t = 0x32) := by rcases ht with rfl | rfl <;> decide
  simp only [wfBody, h1, h2, h3, h4, h5, ht, if_false, if_true, be16, List.cons_append, List.nil_append,
    unbe16_be16 _ hl, List.drop_left]
  simp [unbe16_be16 _ hx]

theorem wf_scalar (c : Bool) (v : Value) (h : wfVal c false v = true) (hc : ∀ ms, v ≠ .coll ms) :
    wfV c (.plain (registryTag v) (scalarBody v)) = true := by
  cases v with
  | array vs => simp [wfVal] at h
  | coll ms => exact absurd rfl (hc ms)
  | int k x => cases k <;> simp [wfV, registryTag, scalarBody, valueTagOk, wfBody, be32]
  | bool b => simp [wfV, registryTag, scalarBody, valueTagOk, wfBody]
  | range lo hi => simp [wfV, registryTag, scalarBody, valueTagOk, wfBody, be32]
  | dateTime => simp [wfV, registryTag, scalarBody, valueTagOk, wfBody, be16]
  | resolution => simp [wfV, registryTag, scalarBody, valueTagOk, wfBody, be32]
  | noValue => simp [wfV, registryTag, scalarBody, valueTagOk, wfBody]
  | str k s =>
    simp only [wfVal, Bool.and_eq_true, decide_eq_true_eq] at h
    obtain ⟨⟨_, hl⟩, hk⟩ := h
    cases k <;> simp [wfV, registryTag, scalarBody, valueTagOk, wfBody, hl] <;> first | decide | simp_all
  | lang k l t =>
    simp only [wfVal, Bool.and_eq_true, decide_eq_true_eq] at h
    have hb := wfBody_lang_enc (registryTag (.lang k l t)) (by cases k <;> simp [registryTag]) l t (by omega) (by omega)
    simp only [wfV, scalarBody, hb, Bool.and_true]
    cases k <;> simp [registryTag, valueTagOk, be16] <;> first | omega | (refine ⟨by decide, by omega⟩)
  | other t d =>
    simp only [wfVal, otherTagOk, Bool.and_eq_true, decide_eq_true_eq] at h
    obtain ⟨⟨⟨h1, h2⟩, h3⟩, h4⟩ := h
    simp only [List.contains_cons, List.contains_nil, Bool.or_false, Bool.not_eq_true', Bool.or_eq_false_iff,
      beq_eq_false_iff_ne, ne_eq] at h3
    simp only [wfV, registryTag, scalarBody, valueTagOk, wfBody, Bool.and_eq_true, bne_iff_ne, ne_eq]
    simp [h1, h2, h3, h4]


theorem wf_Vs_array (c : Bool) (v0 : Value) (vs : List Value)
    (h1 : wfV c (toWV v0) = true) (h2 : wfVs c (toWVl vs) = true) :
    wfVs c (toWVs (.array (v0 :: vs))) = true ∧ (toWVs (.array (v0 :: vs))).isEmpty = false := by
  simp [toWVs, toWVl, wfVs, h1, h2]

theorem wf_Vs_nonarray (c : Bool) (v : Value) (ha : isArray v = false) (h1 : wfV c (toWV v) = true) :
    wfVs c (toWVs v) = true ∧ (toWVs v).isEmpty = false := by
  simp [toWVs_nonarray _ ha, wfVs, h1]

mutual
theorem wf_V (c : Bool) (v : Value) (h : wfVal c false v = true) : wfV c (toWV v) = true := by
  cases hv : v with
  | array vs => subst hv; simp [wfVal] at h
  | coll ms =>
    subst hv
    simp only [wfVal] at h
    simp only [toWV, wfV]
    exact wf_Ms ms h
  | _ =>
    all_goals
      subst hv
      exact wf_scalar c _ h (by intro ms; simp)
theorem wf_Vl (c : Bool) (vs : List Value) (h : wfElems c vs = true) : wfVs c (toWVl vs) = true := by
  cases vs with
  | nil => rfl
  | cons v vs =>
    simp only [wfElems, Bool.and_eq_true] at h
    simp only [toWVl, wfVs, Bool.and_eq_true]
    exact ⟨wf_V c v h.1, wf_Vl c vs h.2⟩
theorem wf_Ms (ms : List (Bytes × Value)) (h : wfMembers ms = true) : wfMs (toWMs ms) = true := by
  cases ms with
  | nil => rfl
  | cons p ms =>
    obtain ⟨k, v⟩ := p
    simp only [wfMembers, Bool.and_eq_true, decide_eq_true_eq] at h
    have h2 := wf_Ms ms h.2
    have h1 : wfVs true (toWVs v) = true ∧ (toWVs v).isEmpty = false := by
      have hv := h.1.2
      cases v with
      | array vs =>
        cases vs with
        | nil => simp [wfVal] at hv
        | cons v0 vs =>
          simp only [wfVal, wfElems, Bool.and_eq_true] at hv
          exact wf_Vs_array true v0 vs (wf_V true v0 hv.2.1) (wf_Vl true vs hv.2.2)
      | _ =>
        all_goals
          rw [wfVal_nonarray _ _ rfl] at hv
          exact wf_Vs_nonarray true _ rfl (wf_V true _ hv)
    simp [toWMs, wfMs, h.1.1.2, h1.1, h1.2, h2]
end

theorem wf_Vs (c : Bool) (v : Value) (h : wfVal c true v = true) :
    wfVs c (toWVs v) = true ∧ (toWVs v).isEmpty = false := by
  cases v with
  | array vs =>
    cases vs with
    | nil => simp [wfVal] at h
    | cons v0 vs =>
      simp only [wfVal, wfElems, Bool.and_eq_true] at h
      exact wf_Vs_array c v0 vs (wf_V c v0 h.2.1) (wf_Vl c vs h.2.2)
  | _ =>
    all_goals
      rw [wfVal_nonarray _ _ rfl] at h
      exact wf_Vs_nonarray c _ rfl (wf_V c _ h)

theorem wfAttr_toWAttr (p : Bytes × Value) (h : wfAttrC p = true) : wfAttr (toWAttr p) = true := by
  simp only [wfAttrC, Bool.and_eq_true, decide_eq_true_eq] at h
  obtain ⟨⟨⟨⟨h1, _⟩, h3⟩, h4⟩, _⟩ := h
  have := wf_Vs false p.2 h4
  simp [wfAttr, toWAttr, h1, h3, this.1, this.2]

theorem wfAttrs_toWAttrs (X : List (Bytes × Value)) (h : ∀ p ∈ X, wfAttrC p = true) :
    wfAttrs (toWAttrs X) = true := by
  induction X with
  | nil => rfl
  | cons p r ih =>
    simp only [toWAttrs, wfAttrs, Bool.and_eq_true]
    exact ⟨wfAttr_toWAttr p (h p List.mem_cons_self), ih (fun q hq => h q (List.mem_cons_of_mem _ hq))⟩

theorem delimOf_code (t : DelimiterTag) (h : t ≠ .EndOfAttributes) : delimOf (UInt8.ofNat t.code) = some t := by
  cases t <;> first | rfl | exact absurd rfl h

theorem wfGroups_toWGroups (ls : List Group)
    (h : ∀ l ∈ ls, l.tag ≠ .EndOfAttributes ∧ ∀ p ∈ l.attrs, wfAttrC p = true) :
    wfGroups (toWGroups ls) = true := by
  induction ls with
  | nil => rfl
  | cons l ls ih =>
    have hl := h l List.mem_cons_self
    simp only [toWGroups, wfGroups, wfGroup, toWGroup, delimOf_code _ hl.1, Option.isSome_some, Bool.true_and,
      wfAttrs_toWAttrs _ hl.2]
    exact ih (fun g' hg' => h g' (List.mem_cons_of_mem _ hg'))

/-! ## 3. the wire tree means the message -/

theorem decodePlain_lang (k : LangKind) (l x : Bytes) (hl : l.length < 65536) (hx : x.length < 65536) :
    decodePlain (registryTag (.lang k l x)) (be16 l.length ++ (l ++ (be16 x.length ++ x))) =
      .lang k (lossy l) (lossy x) := by
  cases k <;>
  · simp only [decodePlain, registryTag, be16, List.cons_append, List.nil_append, unbe16_be16 _ hl, List.drop_left,
      List.take_left, unbe16_be16 _ hx]
    simp

theorem decodePlain_scalar (c : Bool) (v : Value) (h : wfVal c false v = true) (hc : ∀ ms, v ≠ .coll ms) :
    decodePlain (registryTag v) (scalarBody v) = v := by
  cases v with
  | array vs => simp [wfVal] at h
  | coll ms => exact absurd rfl (hc ms)
  | int k x => cases k <;> simp [registryTag, scalarBody, decodePlain, be32, unbe32_be32']
  | bool b => cases b <;> simp [registryTag, scalarBody, decodePlain]
  | range lo hi => simp [registryTag, scalarBody, decodePlain, be32, unbe32_be32']
  | dateTime y mo d hh mi s ds dir uh um =>
    simp only [wfVal, decide_eq_true_eq] at h
    simp [registryTag, scalarBody, decodePlain, be16, u16_unbe16_be16', u8_toNat_ofNat_lt _ h]
  | resolution => simp [registryTag, scalarBody, decodePlain, be32, unbe32_be32']
  | noValue => simp [registryTag, decodePlain]
  | str k s =>
    simp only [wfVal, Bool.and_eq_true, decide_eq_true_eq] at h
    have := lossy_id s h.1.1
    cases k <;> simp [registryTag, scalarBody, decodePlain, this]
  | lang k l t =>
    simp only [wfVal, Bool.and_eq_true, decide_eq_true_eq] at h
    simp only [scalarBody]
    rw [decodePlain_lang k l t (by omega) (by omega), lossy_id l h.1.1, lossy_id t h.1.2]
  | other t d =>
    simp only [wfVal, otherTagOk, Bool.and_eq_true, decide_eq_true_eq] at h
    obtain ⟨⟨⟨h1, h2⟩, h3⟩, h4⟩ := h
    simp only [List.contains_cons, List.contains_nil, Bool.or_false, Bool.not_eq_true', Bool.or_eq_false_iff,
      beq_eq_false_iff_ne, ne_eq] at h3
    simp only [registryTag, scalarBody, decodePlain]
    simp [h3]


theorem interp_Vs_array (v0 : Value) (vs : List Value) (hlen : 2 ≤ (v0 :: vs).length)
    (h1 : interpV (toWV v0) = v0) (h2 : interpVs (toWVl vs) = vs) :
    listOrValue (interpVs (toWVs (.array (v0 :: vs)))) = .array (v0 :: vs) := by
  simp only [toWVs, toWVl, interpVs, h1, h2]
  cases vs with
  | nil => simp at hlen
  | cons a r => rfl

theorem interp_Vs_nonarray (v : Value) (ha : isArray v = false) (h1 : interpV (toWV v) = v) :
    listOrValue (interpVs (toWVs v)) = v := by
  simp only [toWVs_nonarray _ ha, interpVs, h1, listOrValue]

mutual
theorem interp_V (c : Bool) (v : Value) (h : wfVal c false v = true) (hs : collsSorted v = true) :
    interpV (toWV v) = v := by
  cases hv : v with
  | array vs => subst hv; simp [wfVal] at h
  | coll ms =>
    subst hv
    simp only [wfVal] at h
    simp only [collsSorted, Bool.and_eq_true] at hs
    simp only [toWV, interpV]
    rw [interp_Ms ms h hs.2 [], sinsertAll_self hs.1]
  | _ =>
    all_goals
      subst hv
      exact decodePlain_scalar c _ h (by intro ms; simp)
theorem interp_Vl (c : Bool) (vs : List Value) (h : wfElems c vs = true) (hs : collsSortedL vs = true) :
    interpVs (toWVl vs) = vs := by
  cases vs with
  | nil => rfl
  | cons v vs =>
    simp only [wfElems, Bool.and_eq_true] at h
    simp only [collsSortedL, Bool.and_eq_true] at hs
    simp only [toWVl, interpVs]
    rw [interp_V c v h.1 hs.1, interp_Vl c vs h.2 hs.2]
theorem interp_Ms (ms : List (Bytes × Value)) (h : wfMembers ms = true) (hs : collsSortedM ms = true)
    (m : List (Bytes × Value)) : interpMs (toWMs ms) m = sinsertAll ms m := by
  cases ms with
  | nil => rfl
  | cons p ms =>
    obtain ⟨k, v⟩ := p
    simp only [wfMembers, Bool.and_eq_true, decide_eq_true_eq] at h
    simp only [collsSortedM, Bool.and_eq_true] at hs
    have h1 : listOrValue (interpVs (toWVs v)) = v := by
      have hv := h.1.2
      have hsv := hs.1
      cases v with
      | array vs =>
        cases vs with
        | nil => simp [wfVal] at hv
        | cons v0 vs =>
          simp only [wfVal, wfElems, Bool.and_eq_true, decide_eq_true_eq] at hv
          simp only [collsSorted, collsSortedL, Bool.and_eq_true] at hsv
          exact interp_Vs_array v0 vs hv.1.2 (interp_V true v0 hv.2.1 hsv.1) (interp_Vl true vs hv.2.2 hsv.2)
      | _ =>
        all_goals
          rw [wfVal_nonarray _ _ rfl] at hv
          exact interp_Vs_nonarray _ rfl (interp_V true _ hv hsv)
    simp only [toWMs, interpMs, h1, lossy_id k h.1.1.1, sinsertAll_cons]
    exact interp_Ms ms h.2 hs.2 _
end

theorem interp_Vs (c : Bool) (v : Value) (h : wfVal c true v = true) (hs : collsSorted v = true) :
    listOrValue (interpVs (toWVs v)) = v := by
  cases v with
  | array vs =>
    cases vs with
    | nil => simp [wfVal] at h
    | cons v0 vs =>
      simp only [wfVal, wfElems, Bool.and_eq_true, decide_eq_true_eq] at h
      simp only [collsSorted, collsSortedL, Bool.and_eq_true] at hs
      exact interp_Vs_array v0 vs h.1.2 (interp_V c v0 h.2.1 hs.1) (interp_Vl c vs h.2.2 hs.2)
  | _ =>
    all_goals
      rw [wfVal_nonarray _ _ rfl] at h
      exact interp_Vs_nonarray _ rfl (interp_V c _ h hs)

theorem interpAttr_toWAttr (p : Bytes × Value) (h : wfAttrC p = true) : interpAttr (toWAttr p) = p := by
  simp only [wfAttrC, Bool.and_eq_true, decide_eq_true_eq] at h
  obtain ⟨⟨⟨⟨_, h2⟩, _⟩, h4⟩, h5⟩ := h
  obtain ⟨n, v⟩ := p
  simp only [interpAttr, toWAttr, lossy_id n h2, interp_Vs false v h4 h5]

theorem interpAttrs_toWAttrs (X : List (Bytes × Value)) (h : ∀ p ∈ X, wfAttrC p = true) (m : List (Bytes × Value)) :
    interpAttrs (toWAttrs X) m = sinsertAll X m := by
  induction X generalizing m with
  | nil => rfl
  | cons p r ih =>
    simp only [toWAttrs, interpAttrs, interpAttr_toWAttr p (h p List.mem_cons_self), sinsertAll_cons]
    exact ih (fun q hq => h q (List.mem_cons_of_mem _ hq)) _

/-- with unique names the wire order of the operation group lists exactly the group's attributes -/
theorem mem_opOrder_iff {attrs : List (Bytes × Value)} (hf : KeyFn attrs) (p : Bytes × Value) :
    p ∈ opOrder attrs ↔ p ∈ attrs := by
  refine ⟨mem_opOrder_mem, fun hp => ?_⟩
  simp only [opOrder, List.mem_append, List.mem_filterMap, List.mem_filter, Option.map_eq_some_iff]
  by_cases hc : rfc8011Order.contains p.1 = true
  · left
    obtain ⟨n, v⟩ := p
    exact ⟨n, List.contains_iff_mem.mp hc, v, (sget_iff_mem hf n v).mpr hp, rfl⟩
  · right
    exact ⟨hp, by simpa using hc⟩

theorem interpGroups_toWGroups (gs ls : List Group) (hwf : gs.all wfGroupC = true) (hL : ListingOf gs ls) :
    interpGroups (toWGroups ls) = gs := by
  induction gs generalizing ls with
  | nil =>
    cases ls with
    | nil => rfl
    | cons l ls => exact absurd hL (by simp [ListingOf])
  | cons g gs ih =>
    cases ls with
    | nil => exact absurd hL (by simp [ListingOf])
    | cons l ls =>
      simp only [ListingOf] at hL
      simp only [List.all_cons, Bool.and_eq_true] at hwf
      obtain ⟨ht, hp, hrest⟩ := hL
      have hg := hwf.1
      simp only [wfGroupC, Bool.and_eq_true, List.all_eq_true, bne_iff_ne] at hg
      obtain ⟨⟨hne, hsorted⟩, hattrs⟩ := hg
      simp only [toWGroups, interpGroups, ih ls hwf.2 hrest, interpGroup, toWGroup]
      rw [delimOf_code _ (by rw [ht]; exact hne),
        interpAttrs_toWAttrs _ (fun p hp' => hattrs p (hp.mem_iff.mp hp')), sinsertAll_perm hsorted hp, ht]
      rfl

/-! ## the theorems -/

theorem encodeMsg_eq_ser (h : Header) (gs L : List Group) (hwf : wfMsg gs = true) (hL : ListingOf gs L) :
    encodeMsg h L = ser (toWireMsg h L) := by
  obtain ⟨g, gs', l, ls, rfl, rfl, hg, hl, hperm, hrest⟩ := listing_head hwf hL
  have hall : (g :: gs').all wfGroupC = true := by
    simp only [wfMsg, Bool.and_eq_true] at hwf; exact hwf.2
  have hw := listing_wf hall hL
  have hop : isOpGroup l = true := by simp [isOpGroup, hl]
  simp only [encodeMsg, encAttributes, encHeader, firstOp, restGroups, hop, if_true, toWireMsg, ser, serGroups, serGroup,
    encOp_eq]
  rw [encAttrs_eq_toks _ (fun p hp => wfAttrC_val ((hw l List.mem_cons_self).2 p (mem_opOrder_mem hp))),
    encGroups_eq ls (fun g' hg' => (hw g' (List.mem_cons_of_mem _ hg')).2)]
  simp [DelimiterTag.u8, DelimiterTag.code]

theorem toWireMsg_wf (h : Header) (gs L : List Group) (hwf : wfMsg gs = true) (hL : ListingOf gs L) :
    wfWire (toWireMsg h L) = true := by
  obtain ⟨g, gs', l, ls, rfl, rfl, hg, hl, hperm, hrest⟩ := listing_head hwf hL
  have hall : (g :: gs').all wfGroupC = true := by
    simp only [wfMsg, Bool.and_eq_true] at hwf; exact hwf.2
  have hw := listing_wf hall hL
  simp only [toWireMsg, wfWire, wfGroups, wfGroup, Bool.and_eq_true]
  refine ⟨⟨rfl, ?_⟩, ?_⟩
  · exact wfAttrs_toWAttrs _ (fun p hp => (hw l List.mem_cons_self).2 p (mem_opOrder_mem hp))
  · exact wfGroups_toWGroups ls (fun g' hg' => hw g' (List.mem_cons_of_mem _ hg'))

theorem interp_toWireMsg (h : Header) (gs L : List Group) (hwf : wfMsg gs = true) (hL : ListingOf gs L) :
    interp (toWireMsg h L) = (h, gs) := by
  obtain ⟨g, gs', l, ls, rfl, rfl, hg, hl, hperm, hrest⟩ := listing_head hwf hL
  have hall : (g :: gs').all wfGroupC = true := by
    simp only [wfMsg, Bool.and_eq_true] at hwf; exact hwf.2
  simp only [List.all_cons, Bool.and_eq_true] at hall
  have hgc := hall.1
  simp only [wfGroupC, Bool.and_eq_true, List.all_eq_true, bne_iff_ne] at hgc
  obtain ⟨⟨hne, hsorted⟩, hattrs⟩ := hgc
  have hfl : KeyFn l.attrs := KeyFn_of_mem (sortedB_keyFn hsorted) (fun p hp => hperm.mem_iff.mp hp)
  have hmem : ∀ p, p ∈ opOrder l.attrs ↔ p ∈ g.attrs := fun p => (mem_opOrder_iff hfl p).trans hperm.mem_iff
  simp only [toWireMsg, interp, interpGroups, interpGroup, interpGroups_toWGroups gs' ls hall.2 hrest]
  rw [interpAttrs_toWAttrs _ (fun p hp => hattrs p ((hmem p).mp hp)), sinsertAll_eq_of_mem hsorted hmem]
  cases g with
  | mk t a => simp only at hg; subst hg; rfl

/-- every value on the wire carries the registered tag of its syntax -/
theorem tagOf_registry (v : Value) (inColl : Bool) (hv : wfVal inColl false v = true) : tagOf v = registryTag v :=
  tagOf_registry' v inColl hv

/-- "a one-element set is identified with its element": both encode to the same bytes -/
theorem encAttr_singleton (n : Bytes) (v : Value) : encAttr n (.array [v]) = encAttr n v := by
  simp only [encAttr, tagOf, tagOfFirst, encValue, encElems, if_true, List.nil_append, List.append_nil]

end Ipp
