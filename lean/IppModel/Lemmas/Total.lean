/-
  Totality lemmas (C02): the value decoder never panics; the drive loop never panics and never runs out
  of fuel when the fuel exceeds the number of bytes the reader can still deliver.
-/
import IppModel.Model.Loop
namespace Ipp
open Gen

/-! ### value decoder -/

theorem getU8_ok {d : Bytes} (h : 1 ≤ d.length) : ∃ b r, getU8 d = .ok (b, r) ∧ r.length + 1 = d.length := by
  cases d with
  | nil => simp at h
  | cons b r => exact ⟨b, r, rfl, by simp⟩

theorem getU16_ok {d : Bytes} (h : 2 ≤ d.length) : ∃ n r, getU16 d = .ok (n, r) ∧ r.length + 2 = d.length := by
  match d, h with
  | a :: b :: r, _ => exact ⟨_, r, rfl, by simp⟩

theorem getU32_ok {d : Bytes} (h : 4 ≤ d.length) : ∃ n r, getU32 d = .ok (n, r) ∧ r.length + 4 = d.length := by
  match d, h with
  | a :: b :: c :: e :: r, _ => exact ⟨_, r, rfl, by simp⟩

def Outcome.safe {α} : Outcome α → Prop
  | .panic => False
  | .outOfFuel => False
  | _ => True

theorem getLenString_safe (d : Bytes) : (getLenString d).safe := by
  unfold getLenString checkLen
  by_cases h2 : d.length < 2
  · simp [h2, Outcome.bind, Outcome.safe]
  · simp only [h2, if_false, Outcome.bind]
    obtain ⟨n, r, hr, _⟩ := getU16_ok (d := d) (by omega)
    simp only [hr]
    by_cases hl : r.length < n
    · simp [hl, Outcome.safe]
    · simp only [hl, if_false, sliceAdvance]
      have : n ≤ r.length := by omega
      simp [this, Outcome.safe]

theorem getLenString_err (d : Bytes) (e : Err) (h : getLenString d = .err e) : e = .io .invalidData := by
  unfold getLenString checkLen at h
  by_cases h2 : d.length < 2
  · simp [h2, Outcome.bind] at h; exact h.symm
  · simp only [h2, if_false, Outcome.bind] at h
    obtain ⟨n, r, hr, _⟩ := getU16_ok (d := d) (by omega)
    simp only [hr] at h
    by_cases hl : r.length < n
    · simp [hl] at h; exact h.symm
    · simp only [hl, if_false, sliceAdvance] at h
      have : n ≤ r.length := by omega
      simp [this] at h

theorem decodeLang_err (k : LangKind) (d : Bytes) (e : Err) (h : decodeLang k d = .err e) : e = .io .invalidData := by
  unfold decodeLang at h
  cases h1 : getLenString d with
  | ok p =>
    obtain ⟨l, d1⟩ := p
    simp only [h1, Outcome.bind] at h
    cases h2 : getLenString d1 with
    | ok q => simp [h2] at h
    | err e' => simp [h2] at h; subst h; exact getLenString_err _ _ h2
    | panic => simp [h2] at h
    | outOfFuel => simp [h2] at h
  | err e' => simp [h1, Outcome.bind] at h; subst h; exact getLenString_err _ _ h1
  | panic => simp [h1, Outcome.bind] at h
  | outOfFuel => simp [h1, Outcome.bind] at h

theorem decodeLang_safe (k : LangKind) (d : Bytes) : (decodeLang k d).safe := by
  unfold decodeLang
  have h1 := getLenString_safe d
  cases h : getLenString d with
  | ok p =>
    obtain ⟨l, d1⟩ := p
    simp only [Outcome.bind]
    have h2 := getLenString_safe d1
    cases h' : getLenString d1 with
    | ok q => simp [Outcome.safe]
    | err e => simp [Outcome.safe]
    | panic => simp [h', Outcome.safe] at h2
    | outOfFuel => simp [h', Outcome.safe] at h2
  | err e => simp [Outcome.bind, Outcome.safe]
  | panic => simp [h, Outcome.safe] at h1
  | outOfFuel => simp [h, Outcome.safe] at h1

theorem decodeDateTime_safe (d : Bytes) (h : 11 ≤ d.length) : (decodeDateTime d).safe := by
  match d, h with
  | a :: b :: c :: e :: f :: g :: i :: j :: k :: l :: m :: r, _ =>
    simp [decodeDateTime, getU16, getU8, Outcome.bind, Outcome.safe]

theorem decodeKnown_safe (t : ValueTag) (tag : UInt8) (d : Bytes) (h : minLen t ≤ d.length) :
    (decodeKnown t tag d).safe := by
  cases t <;> simp only [decodeKnown, minLen] at h ⊢ <;> try (simp [Outcome.safe]; done)
  · -- Integer
    obtain ⟨n, r, hr, _⟩ := getU32_ok h
    simp [hr, Outcome.bind, Outcome.safe]
  · -- Boolean
    obtain ⟨n, r, hr, _⟩ := getU8_ok h
    simp [hr, Outcome.bind, Outcome.safe]
  · -- Enum
    obtain ⟨n, r, hr, _⟩ := getU32_ok h
    simp [hr, Outcome.bind, Outcome.safe]
  · exact decodeDateTime_safe d h
  · -- Resolution
    obtain ⟨n, r, hr, h1⟩ := getU32_ok (d := d) (by omega)
    obtain ⟨n2, r2, hr2, h2⟩ := getU32_ok (d := r) (by omega)
    obtain ⟨n3, r3, hr3, _⟩ := getU8_ok (d := r2) (by omega)
    simp [hr, hr2, hr3, Outcome.bind, Outcome.safe]
  · -- RangeOfInteger
    obtain ⟨n, r, hr, h1⟩ := getU32_ok (d := d) (by omega)
    obtain ⟨n2, r2, hr2, _⟩ := getU32_ok (d := r) (by omega)
    simp [hr, hr2, Outcome.bind, Outcome.safe]
  · exact decodeLang_safe _ d
  · exact decodeLang_safe _ d

theorem decodeValue_safe (tag : UInt8) (d : Bytes) : (decodeValue tag d).safe := by
  unfold decodeValue
  cases h : ValueTag.fromCode tag.toNat with
  | none => simp [Outcome.safe]
  | some t =>
    simp only [checkLen]
    by_cases hl : d.length < minLen t
    · simp [hl, Outcome.bind, Outcome.safe]
    · simp only [hl, if_false, Outcome.bind]
      exact decodeKnown_safe t tag d (by omega)

/-! ### parser state -/

theorem parseValue_safe (s : PState) (tag : UInt8) (name body : Bytes) : (s.parseValue tag name body).safe := by
  unfold PState.parseValue
  have h := decodeValue_safe tag body
  cases hd : decodeValue tag body with
  | panic => simp [hd, Outcome.safe] at h
  | outOfFuel => simp [hd, Outcome.safe] at h
  | err e => simp [Outcome.safe]
  | ok v =>
    simp only []
    repeat' split
    all_goals simp [Outcome.safe]

/-! ### readers and the loop -/

structure ReaderLaws {ρ : Type} (rd : Reader ρ) (size : ρ → Nat) : Prop where
  len : ∀ n r bs r', rd.readExact n r = .ok (bs, r') → bs.length = n
  dec : ∀ n r bs r', rd.readExact n r = .ok (bs, r') → size r' + n ≤ size r

variable {ρ σ : Type}

theorem rdU8_safe (rd : Reader ρ) (size) (L : ReaderLaws rd size) (r : ρ) :
    (rdU8 rd r).safe ∧ ∀ b r', rdU8 rd r = .ok (b, r') → size r' + 1 ≤ size r := by
  unfold rdU8
  cases h : rd.readExact 1 r with
  | error k => simp [Outcome.safe]
  | ok p =>
    obtain ⟨bs, r'⟩ := p
    have hl := L.len _ _ _ _ h
    have hd := L.dec _ _ _ _ h
    match bs, hl with
    | [b], _ => simp [Outcome.safe]; omega

theorem rdU16_safe (rd : Reader ρ) (size) (L : ReaderLaws rd size) (r : ρ) :
    (rdU16 rd r).safe ∧ ∀ b r', rdU16 rd r = .ok (b, r') → size r' + 2 ≤ size r := by
  unfold rdU16
  cases h : rd.readExact 2 r with
  | error k => simp [Outcome.safe]
  | ok p =>
    obtain ⟨bs, r'⟩ := p
    have hl := L.len _ _ _ _ h
    have hd := L.dec _ _ _ _ h
    match bs, hl with
    | [a, b], _ => simp [Outcome.safe]; omega

theorem rdU32_safe (rd : Reader ρ) (size) (L : ReaderLaws rd size) (r : ρ) :
    (rdU32 rd r).safe ∧ ∀ b r', rdU32 rd r = .ok (b, r') → size r' + 4 ≤ size r := by
  unfold rdU32
  cases h : rd.readExact 4 r with
  | error k => simp [Outcome.safe]
  | ok p =>
    obtain ⟨bs, r'⟩ := p
    have hl := L.len _ _ _ _ h
    have hd := L.dec _ _ _ _ h
    match bs, hl with
    | [a, b, c, d], _ => simp [Outcome.safe]; omega

theorem rdLV_safe (rd : Reader ρ) (size) (L : ReaderLaws rd size) (r : ρ) :
    (rdLV rd r).safe ∧ ∀ b r', rdLV rd r = .ok (b, r') → size r' + 2 ≤ size r := by
  unfold rdLV
  obtain ⟨h1, h2⟩ := rdU16_safe rd size L r
  cases h : rdU16 rd r with
  | panic => simp [h, Outcome.safe] at h1
  | outOfFuel => simp [h, Outcome.safe] at h1
  | err e => simp [Outcome.safe]
  | ok p =>
    obtain ⟨n, r1⟩ := p
    have := h2 _ _ h
    simp only []
    cases h' : rd.readExact n r1 with
    | error k => simp [Outcome.safe]
    | ok q =>
      obtain ⟨bs, r2⟩ := q
      have hd := L.dec _ _ _ _ h'
      simp [Outcome.safe]
      omega

theorem rdHeader_safe (rd : Reader ρ) (size) (L : ReaderLaws rd size) (r : ρ) :
    (rdHeader rd r).safe ∧ ∀ b r', rdHeader rd r = .ok (b, r') → size r' ≤ size r := by
  unfold rdHeader
  obtain ⟨a1, a2⟩ := rdU16_safe rd size L r
  cases h : rdU16 rd r with
  | panic => simp [h, Outcome.safe] at a1
  | outOfFuel => simp [h, Outcome.safe] at a1
  | err e => simp [Outcome.safe]
  | ok p =>
    obtain ⟨v, r1⟩ := p
    have s1 := a2 _ _ h
    simp only []
    obtain ⟨b1, b2⟩ := rdU16_safe rd size L r1
    cases h' : rdU16 rd r1 with
    | panic => simp [h', Outcome.safe] at b1
    | outOfFuel => simp [h', Outcome.safe] at b1
    | err e => simp [Outcome.safe]
    | ok q =>
      obtain ⟨o, r2⟩ := q
      have s2 := b2 _ _ h'
      simp only []
      obtain ⟨c1, c2⟩ := rdU32_safe rd size L r2
      cases h'' : rdU32 rd r2 with
      | panic => simp [h'', Outcome.safe] at c1
      | outOfFuel => simp [h'', Outcome.safe] at c1
      | err e => simp [Outcome.safe]
      | ok q' =>
        obtain ⟨i, r3⟩ := q'
        have s3 := c2 _ _ h''
        simp [Outcome.safe]
        omega

/-- the loop never panics, and never exhausts fuel that exceeds what the reader can still deliver -/
theorem driveLoop_safe (rd : Reader ρ) (size) (L : ReaderLaws rd size) (cfg : LoopCfg) (m : Machine σ)
    (hm : ∀ st tag name body, (m.value st tag name body).safe)
    (fuel : Nat) (r : ρ) (st : σ) (hf : size r < fuel) : (driveLoop rd cfg m fuel r st).safe := by
  induction fuel generalizing r st with
  | zero => omega
  | succ n ih =>
    unfold driveLoop
    obtain ⟨a1, a2⟩ := rdU8_safe rd size L r
    cases h : rdU8 rd r with
    | panic => simp [h, Outcome.safe] at a1
    | outOfFuel => simp [h, Outcome.safe] at a1
    | err e => simp [Outcome.safe]
    | ok p =>
      obtain ⟨tag, r1⟩ := p
      have s1 := a2 _ _ h
      simp only []
      split
      · -- delimiter
        cases hd : m.delim st tag with
        | error e => simp [Outcome.safe]
        | ok q =>
          obtain ⟨st', code⟩ := q
          simp only []
          split
          · simp [Outcome.safe]
          · exact ih r1 st' (by omega)
      · split
        · obtain ⟨b1, b2⟩ := rdLV_safe rd size L r1
          cases h1 : rdLV rd r1 with
          | panic => simp [h1, Outcome.safe] at b1
          | outOfFuel => simp [h1, Outcome.safe] at b1
          | err e => simp [Outcome.safe]
          | ok q =>
            obtain ⟨name, r2⟩ := q
            have s2 := b2 _ _ h1
            simp only []
            obtain ⟨c1, c2⟩ := rdLV_safe rd size L r2
            cases h2 : rdLV rd r2 with
            | panic => simp [h2, Outcome.safe] at c1
            | outOfFuel => simp [h2, Outcome.safe] at c1
            | err e => simp [Outcome.safe]
            | ok q' =>
              obtain ⟨body, r3⟩ := q'
              have s3 := c2 _ _ h2
              simp only []
              have hv := hm st tag name body
              cases h3 : m.value st tag name body with
              | panic => simp [h3, Outcome.safe] at hv
              | outOfFuel => simp [h3, Outcome.safe] at hv
              | err e => simp [Outcome.safe]
              | ok st' =>
                simp only []
                exact ih r3 st' (by omega)
        · simp [Outcome.safe]

theorem pMachine_value_safe (st : PState) (tag : UInt8) (name body : Bytes) :
    (pMachine.value st tag name body).safe := parseValue_safe _ _ _ _

theorem parseWith_safe (rd : Reader ρ) (size) (L : ReaderLaws rd size) (cfg : LoopCfg)
    (fuel : Nat) (r : ρ) (hf : size r < fuel) : (parseWith rd cfg fuel r).safe := by
  unfold parseWith
  obtain ⟨a1, a2⟩ := rdHeader_safe rd size L r
  cases h : rdHeader rd r with
  | panic => simp [h, Outcome.safe] at a1
  | outOfFuel => simp [h, Outcome.safe] at a1
  | err e => simp [Outcome.safe]
  | ok p =>
    obtain ⟨hd, r1⟩ := p
    have s1 := a2 _ _ h
    simp only []
    have := driveLoop_safe rd size L cfg pMachine pMachine_value_safe fuel r1 PState.init (by omega)
    cases h' : driveLoop rd cfg pMachine fuel r1 PState.init with
    | panic => simp [h', Outcome.safe] at this
    | outOfFuel => simp [h', Outcome.safe] at this
    | err e => simp [Outcome.safe]
    | ok q => simp [Outcome.safe]

/-! ### the three concrete readers obey the laws -/

theorem flatRd_laws : ReaderLaws flatRd List.length where
  len := by
    intro n r bs r' h
    simp only [flatRd] at h
    split at h <;> simp at h
    obtain ⟨rfl, _⟩ := h
    simp; omega
  dec := by
    intro n r bs r' h
    simp only [flatRd] at h
    split at h <;> simp at h
    obtain ⟨_, rfl⟩ := h
    simp; omega

theorem readExactStd_laws (n : Nat) (src : Source) (bs : Bytes) (src' : Source)
    (h : readExactStd n src = .ok (bs, src')) : bs.length = n ∧ Source.size src' + n ≤ Source.size src := by
  induction src generalizing n bs src' with
  | nil =>
    cases n with
    | zero => simp [readExactStd] at h; obtain ⟨rfl, rfl⟩ := h; simp
    | succ k => simp [readExactStd] at h
  | cons e rest ih =>
    cases n with
    | zero => simp [readExactStd] at h; obtain ⟨rfl, rfl⟩ := h; simp
    | succ k =>
      cases e with
      | data b =>
        simp only [readExactStd] at h
        split at h
        · rename_i hle
          split at h
          · rename_i hemp
            have := ih _ _ _ h
            have hb : b.length = 0 := by simpa using hemp
            simp [Source.size, hb]; omega
          · cases hr : readExactStd (k + 1 - b.length) rest with
            | error e => simp [hr] at h
            | ok p =>
              obtain ⟨bs2, s2⟩ := p
              simp [hr] at h
              obtain ⟨rfl, rfl⟩ := h
              have := ih _ _ _ hr
              simp [Source.size]; omega
        · simp at h
          obtain ⟨rfl, rfl⟩ := h
          simp [Source.size]; omega
      | pending =>
        simp only [readExactStd] at h
        have := ih _ _ _ h
        simp [Source.size]; omega
      | interrupted =>
        simp only [readExactStd] at h
        have := ih _ _ _ h
        simp [Source.size]; omega
      | fail k' => simp [readExactStd] at h

theorem readExactFut_laws (n : Nat) (src : Source) (bs : Bytes) (src' : Source)
    (h : readExactFut n src = .ok (bs, src')) : bs.length = n ∧ Source.size src' + n ≤ Source.size src := by
  induction src generalizing n bs src' with
  | nil =>
    cases n with
    | zero => simp [readExactFut] at h; obtain ⟨rfl, rfl⟩ := h; simp
    | succ k => simp [readExactFut] at h
  | cons e rest ih =>
    cases n with
    | zero => simp [readExactFut] at h; obtain ⟨rfl, rfl⟩ := h; simp
    | succ k =>
      cases e with
      | data b =>
        simp only [readExactFut] at h
        split at h
        · rename_i hle
          split at h
          · rename_i hemp
            have := ih _ _ _ h
            have hb : b.length = 0 := by simpa using hemp
            simp [Source.size, hb]; omega
          · cases hr : readExactFut (k + 1 - b.length) rest with
            | error e => simp [hr] at h
            | ok p =>
              obtain ⟨bs2, s2⟩ := p
              simp [hr] at h
              obtain ⟨rfl, rfl⟩ := h
              have := ih _ _ _ hr
              simp [Source.size]; omega
        · simp at h
          obtain ⟨rfl, rfl⟩ := h
          simp [Source.size]; omega
      | pending =>
        simp only [readExactFut] at h
        have := ih _ _ _ h
        simp [Source.size]; omega
      | interrupted => simp [readExactFut] at h
      | fail k' => simp [readExactFut] at h

theorem stdRd_laws : ReaderLaws stdRd Source.size where
  len := fun n r bs r' h => (readExactStd_laws n r bs r' h).1
  dec := fun n r bs r' h => (readExactStd_laws n r bs r' h).2

theorem futRd_laws : ReaderLaws futRd Source.size where
  len := fun n r bs r' h => (readExactFut_laws n r bs r' h).1
  dec := fun n r bs r' h => (readExactFut_laws n r bs r' h).2

end Ipp
