/-
  JSON round trip of the serde model (the development behind C20).
-/
import IppModel.Model.Json
import IppModel.Spec.ToWire
import IppModel.Lemmas.SMap
namespace Ipp
open Gen Spec

/-- typing invariants of the in-memory maps: every group's attribute map has unique names (canonical,
    strictly sorted) and every collection (`BTreeMap`) is strictly sorted by member name -/
def mapsCanonical (gs : List Group) : Bool :=
  gs.all fun g => sortedB g.attrs && g.attrs.all fun p => collsSorted p.2

namespace JsonRt

theorem intToI32_i32ToInt (v : UInt32) : intToI32 (i32ToInt v) = some v := by
  have hlt := v.toNat_lt
  unfold i32ToInt intToI32
  split
  · rename_i h
    rw [if_pos (by omega)]
    simp
  · rename_i h
    rw [if_neg (by omega), if_pos (by omega)]
    have : ((v.toNat : Int) - 4294967296 + 4294967296).toNat = v.toNat := by omega
    rw [this]; simp

theorem intToI8_i8ToInt (v : UInt8) : intToI8 (i8ToInt v) = some v := by
  have hlt := v.toNat_lt
  unfold i8ToInt intToI8
  split
  · rename_i h
    rw [if_pos (by omega)]
    simp
  · rename_i h
    rw [if_neg (by omega), if_pos (by omega)]
    have : ((v.toNat : Int) - 256 + 256).toNat = v.toNat := by omega
    rw [this]; simp

theorem jnat_nat (bound n : Nat) (h : n < bound) : jnat bound (.num n) = some n := by
  simp [jnat, h]

theorem jnat_u8 (x : UInt8) : jnat 256 (.num x.toNat) = some x.toNat := jnat_nat _ _ x.toNat_lt
theorem jnat_u16 (x : UInt16) : jnat 65536 (.num x.toNat) = some x.toNat := jnat_nat _ _ x.toNat_lt
theorem jnat_u32 (x : UInt32) : jnat 4294967296 (.num x.toNat) = some x.toNat := jnat_nat _ _ x.toNat_lt

theorem strKind_rt (k : StrKind) : strKindOfName (strKindName k) = some k := by cases k <;> decide

theorem jsonToBytes_rt (d : Bytes) : jsonToBytes (bytesToJson d) = some d := by
  induction d with
  | nil => rfl
  | cons b r ih => simp only [bytesToJson, jsonToBytes, jnat_u8, ih, UInt8.ofNat_toNat]

theorem jv_array (l : List Json) : jsonToValue (tag1 J.Array (.arr l)) = (jsonToValues l).map .array := by
  simp +decide only [tag1, jsonToValue, if_true, if_false]

theorem jv_coll (l) : jsonToValue (tag1 J.Collection (.obj l)) = (jsonToMembers l).map (fun ms => .coll (sinsertAll ms [])) := by
  simp +decide only [tag1, jsonToValue, if_true, if_false]

theorem jv_str (k s) : jsonToValue (tag1 (strKindName k) (.str s)) = some (.str k s) := by
  cases k <;> simp +decide only [tag1, jsonToValue, strKindName, if_false] <;>
    first
    | rw [show J.OctetString = strKindName .octetString from rfl, strKind_rt]
    | rw [show J.TextWithoutLanguage = strKindName .textWithoutLanguage from rfl, strKind_rt]
    | rw [show J.NameWithoutLanguage = strKindName .nameWithoutLanguage from rfl, strKind_rt]
    | rw [show J.Charset = strKindName .charset from rfl, strKind_rt]
    | rw [show J.NaturalLanguage = strKindName .naturalLanguage from rfl, strKind_rt]
    | rw [show J.Uri = strKindName .uri from rfl, strKind_rt]
    | rw [show J.UriScheme = strKindName .uriScheme from rfl, strKind_rt]
    | rw [show J.Keyword = strKindName .keyword from rfl, strKind_rt]
    | rw [show J.MimeMediaType = strKindName .mimeMediaType from rfl, strKind_rt]
    | rw [show J.MemberAttrName = strKindName .memberAttrName from rfl, strKind_rt]

theorem jv_int (k v) : jsonToValue (valueToJson (.int k v)) = some (.int k v) := by
  cases k <;> simp +decide only [valueToJson, tag1, jsonToValue, if_true, if_false, intToI32_i32ToInt, Option.map]

theorem jv_bool (b) : jsonToValue (valueToJson (.bool b)) = some (.bool b) := by
  simp +decide only [valueToJson, tag1, jsonToValue, if_true, if_false]

theorem jv_lang (k l t) : jsonToValue (valueToJson (.lang k l t)) = some (.lang k l t) := by
  cases k <;> simp +decide only [valueToJson, tag1, jsonToValue, if_true, if_false, jget, Option.bind, jstr]

theorem jv_range (lo hi) : jsonToValue (valueToJson (.range lo hi)) = some (.range lo hi) := by
  simp +decide only [valueToJson, tag1, jsonToValue, if_true, if_false, jget, intToI32_i32ToInt]

theorem jv_resolution (c f u) : jsonToValue (valueToJson (.resolution c f u)) = some (.resolution c f u) := by
  simp +decide only [valueToJson, tag1, jsonToValue, if_true, if_false, jget, intToI32_i32ToInt, intToI8_i8ToInt]

theorem jv_noValue : jsonToValue (valueToJson .noValue) = some .noValue := by
  simp +decide only [valueToJson, jsonToValue, if_true]

theorem jv_other (t d) : jsonToValue (valueToJson (.other t d)) = some (.other t d) := by
  simp +decide only [valueToJson, tag1, jsonToValue, if_true, if_false, jget, Option.bind, jnat_u8, jsonToBytes_rt,
    Option.map, UInt8.ofNat_toNat]

theorem jv_dateTime (y mo d h mi s ds dir uh um) :
    jsonToValue (valueToJson (.dateTime y mo d h mi s ds dir uh um)) = some (.dateTime y mo d h mi s ds dir uh um) := by
  simp +decide only [valueToJson, tag1, jsonToValue, if_true, if_false, jget, Option.bind, jnat_u8, jnat_u16,
    UInt8.ofNat_toNat, UInt16.ofNat_toNat]



mutual
theorem rt_value : (v : Value) → collsSorted v = true → jsonToValue (valueToJson v) = some v
  | .int k v, _ => jv_int k v
  | .bool b, _ => jv_bool b
  | .str k s, _ => by rw [valueToJson]; exact jv_str k s
  | .lang k l t, _ => jv_lang k l t
  | .range lo hi, _ => jv_range lo hi
  | .dateTime y mo d h mi s ds dir uh um, _ => jv_dateTime y mo d h mi s ds dir uh um
  | .resolution c f u, _ => jv_resolution c f u
  | .noValue, _ => jv_noValue
  | .other t d, _ => jv_other t d
  | .array vs, h => by
    rw [collsSorted] at h
    rw [valueToJson, jv_array, rt_values vs h]; rfl
  | .coll ms, h => by
    rw [collsSorted, Bool.and_eq_true] at h
    rw [valueToJson, jv_coll, rt_members ms h.2]
    simp only [Option.map, sinsertAll_self h.1]
theorem rt_values : (vs : List Value) → collsSortedL vs = true → jsonToValues (valuesToJson vs) = some vs
  | [], _ => rfl
  | v :: vs, h => by
    rw [collsSortedL, Bool.and_eq_true] at h
    simp only [valuesToJson, jsonToValues, rt_value v h.1, rt_values vs h.2]
theorem rt_members : (ms : List (Bytes × Value)) → collsSortedM ms = true → jsonToMembers (membersToJson ms) = some ms
  | [], _ => rfl
  | (k, v) :: ms, h => by
    rw [collsSortedM, Bool.and_eq_true] at h
    simp only [membersToJson, jsonToMembers, rt_value v h.1, rt_members ms h.2]
end

theorem jsonToAttrs_rt (as : List (Bytes × Value)) (h : as.all (fun p => collsSorted p.2) = true) :
    jsonToAttrs (attrsToJson as) = some (as.map fun p => (p.1, (p.1, p.2))) := by
  induction as with
  | nil => rfl
  | cons p r ih =>
    obtain ⟨n, v⟩ := p
    rw [List.all_cons, Bool.and_eq_true] at h
    simp +decide only [attrsToJson, jsonToAttrs, jget, if_true, if_false, Option.bind, jstr, rt_value v h.1, ih h.2,
      List.map_cons]

theorem map_unpair (attrs : List (Bytes × Value)) :
    ((attrs.map fun p => (p.1, (p.1, p.2))).map fun p => (p.1, p.2.2)) = attrs := by
  induction attrs with
  | nil => rfl
  | cons p r ih => rw [List.map_cons, List.map_cons, ih]

theorem delim_rt (t : DelimiterTag) : DelimiterTag.all.find? (fun d => d.ident == t.ident) = some t := by
  cases t <;> decide

theorem jsonToGroup_rt (g : Group) (hs : sortedB g.attrs = true) (hc : g.attrs.all (fun p => collsSorted p.2) = true) :
    jsonToGroup (groupToJson g) = some g := by
  obtain ⟨tag, attrs⟩ := g
  simp only at hs hc
  have hall : (attrs.map fun p => (p.1, (p.1, p.2))).all (fun p => p.1 == p.2.1) = true := by
    simp [List.all_map]
  have hmap : ((attrs.map fun p => (p.1, (p.1, p.2))).map fun p => (p.1, p.2.2)) = attrs := by
    exact map_unpair attrs
  simp +decide only [groupToJson, jsonToGroup, jget, if_true, if_false, Option.bind, jstr, delim_rt,
    jsonToAttrs_rt attrs hc, hall, hmap, sinsertAll_self hs]

theorem jsonToGroups_rt (gs : List Group) (hc : mapsCanonical gs = true) :
    jsonToGroups (groupsToJson gs) = some gs := by
  induction gs with
  | nil => rfl
  | cons g r ih =>
    rw [mapsCanonical, List.all_cons, Bool.and_eq_true, Bool.and_eq_true] at hc
    simp only [groupsToJson, jsonToGroups, jsonToGroup_rt g hc.1.1 hc.1.2, ih hc.2]

end JsonRt

theorem json_value_roundtrip (v : Value) (h : collsSorted v = true) : jsonToValue (valueToJson v) = some v :=
  JsonRt.rt_value v h

theorem json_msg_roundtrip (h : Header) (gs : List Group) (hc : mapsCanonical gs = true) :
    jsonToMsg (msgToJson h gs) = some (h, gs) := by
  simp +decide only [msgToJson, jsonToMsg, jget, if_true, if_false, Option.bind, JsonRt.jnat_u16, JsonRt.jnat_u32,
    JsonRt.jsonToGroups_rt gs hc, Option.map, UInt16.ofNat_toNat, UInt32.ofNat_toNat]

end Ipp
