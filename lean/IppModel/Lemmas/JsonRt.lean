/-
  JSON round trip of the serde model (the development behind C20).  TO BE PROVED: every `sorry` below.
-/
import IppModel.Model.Json
import IppModel.Spec.ToWire
import IppModel.Lemmas.SMap
namespace Ipp
open Gen Spec

/-- typing invariants of the in-memory maps: every group's attribute map has unique names (canonical,
    strictly sorted) and every collection (`BTreeMap`) is strictly sorted by member name -/
def mapsCanonical (gs : List Group) : Bool :=
  gs.all fun g => sortedB g.attrs && g.attrs.all fun p => collsSorted p.2

theorem json_value_roundtrip (v : Value) (h : collsSorted v = true) : jsonToValue (valueToJson v) = some v := by
  sorry

theorem json_msg_roundtrip (h : Header) (gs : List Group) (hc : mapsCanonical gs = true) :
    jsonToMsg (msgToJson h gs) = some (h, gs) := by
  sorry

end Ipp
