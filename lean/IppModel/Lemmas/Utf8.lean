/-
  `lossy` is the identity on valid UTF-8.
-/
import IppModel.Model.Utf8
namespace Ipp

theorem classify_pos (b : UInt8) (r : Bytes) : 1 ≤ (classify (b :: r)).1 := by
  simp only [classify]
  repeat' split
  all_goals simp

theorem classify_le (bs : Bytes) : (classify bs).1 ≤ bs.length := by
  unfold classify
  repeat' split
  all_goals simp
  all_goals omega

theorem lossyF_id (fuel : Nat) (bs : Bytes) (hf : bs.length ≤ fuel) (h : validF fuel bs = true) :
    lossyF fuel bs = bs := by
  induction fuel generalizing bs with
  | zero => cases bs <;> simp_all [lossyF]
  | succ n ih =>
    cases bs with
    | nil => simp [lossyF]
    | cons b r =>
      simp only [validF, Bool.and_eq_true] at h
      simp only [lossyF, h.1, if_true]
      have hpos := classify_pos b r
      have hle := classify_le (b :: r)
      rw [ih _ (by simp at hf ⊢; omega) h.2, List.take_append_drop]

/-- `String::from_utf8_lossy` does not change valid UTF-8 -/
theorem lossy_id (bs : Bytes) (h : validUtf8 bs = true) : lossy bs = bs :=
  lossyF_id _ _ (Nat.le_refl _) h

theorem lossy_nil : lossy [] = [] := rfl

theorem lossy_cons_ne_nil (b : UInt8) (r : Bytes) : lossy (b :: r) ≠ [] := by
  have hpos := classify_pos b r
  simp only [lossy, List.length_cons, lossyF]
  split
  · intro h
    have h1 := (List.append_eq_nil_iff.mp h).1
    cases hc : (classify (b :: r)).1 with
    | zero => omega
    | succ k => rw [hc] at h1; simp at h1
  · simp [fffd]

theorem lossy_isEmpty (n : Bytes) : (lossy n).isEmpty = n.isEmpty := by
  cases n with
  | nil => rfl
  | cons b r =>
    have := lossy_cons_ne_nil b r
    cases h : lossy (b :: r) with
    | nil => exact absurd h this
    | cons _ _ => rfl

end Ipp
