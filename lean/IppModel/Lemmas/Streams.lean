/-
  Streams: simulation between readers, independence of fragmentation, exact consumption, prefixes and faults
  (the development behind C05, C06, C07).
  Helper files: Sim.lean (generic reader simulation `driveLoop_sim` / `parseWith_sim`, the scripted readers
  against the flat reader `cutRd e`, async against blocking, `deliver`), Consume.lean (exact consumption
  and prefixes on the flat reader).
-/
import IppModel.Model.Sources
import IppModel.Lemmas.Framing
import IppModel.Lemmas.Sim
import IppModel.Lemmas.Consume
namespace Ipp
open Gen

theorem asyncLoop_eq_syncLoop : asyncLoop = syncLoop := by decide

theorem readExactStd_nil_fails (m : Nat) : readExactStd (m + 1) [] = .error .unexpectedEof := rfl
theorem readExactFut_nil_fails (m : Nat) : readExactFut (m + 1) [] = .error .unexpectedEof := rfl
theorem readExactStd_fail_fails (e : IoKind) (t : Source) (m : Nat) :
    readExactStd (m + 1) (.fail e :: t) = .error e := rfl
theorem readExactFut_fail_fails (e : IoKind) (t : Source) (m : Nat) :
    readExactFut (m + 1) (.fail e :: t) = .error e := rfl

theorem parseSync_flat (src : Source) (h : noFault src = true) :
    (parseSync src).mapRest Source.flat = parseFlat (Source.flat src) := by
  have hs := parseWith_sim (std_cut_sim [] .unexpectedEof readExactStd_nil_fails) syncLoop
    (Source.size src + 1) src (Source.flat src) ⟨src, by simp, h, rfl⟩
  unfold parseSync parseFlat
  rw [flatRd_eq_cutRd, ← size_eq_flat_length]
  refine hs.mapRest_eq ?_
  intro r1 r2 ⟨s', h1, _, h3⟩
  rw [h1, List.append_nil, h3]

theorem parseAsync_flat (src : Source) (h : noFault src = true) (hi : noIntr src = true) :
    (parseAsync src).mapRest Source.flat = parseFlat (Source.flat src) := by
  have hs := parseWith_sim (fut_cut_sim [] .unexpectedEof readExactFut_nil_fails) syncLoop
    (Source.size src + 1) src (Source.flat src) ⟨src, by simp, h, hi, rfl⟩
  unfold parseAsync parseFlat
  rw [flatRd_eq_cutRd, ← size_eq_flat_length, asyncLoop_eq_syncLoop]
  refine hs.mapRest_eq ?_
  intro r1 r2 ⟨s', h1, _, _, h3⟩
  rw [h1, List.append_nil, h3]

theorem parseFlat_exact (bs : Bytes) (r : Header × List Group) (rest : Bytes) (h : parseFlat bs = .ok (r, rest)) :
    ∃ pre, bs = pre ++ rest ∧ pre.getLast? = some 0x03 ∧ ∀ rest', parseFlat (pre ++ rest') = .ok (r, rest') := by
  obtain ⟨pre, h1, h2, hex, _⟩ := parseFlat_consumes bs r rest h
  refine ⟨pre, h1, h2, ?_⟩
  intro rest'
  unfold parseFlat
  rw [flatRd_eq_cutRd]
  exact hex .unexpectedEof rest' _ (Nat.lt_succ_self _)

theorem parseAsync_eq_parseSync (src : Source) (hi : noIntr src = true) : parseAsync src = parseSync src := by
  have hs := parseWith_sim fut_std_sim syncLoop (Source.size src + 1) src src ⟨hi, rfl⟩
  unfold parseAsync parseSync
  rw [asyncLoop_eq_syncLoop]
  exact hs.eq_of_eq (fun _ _ h => h.2)

theorem parseAsync_eq_parseSync_deliver (src : Source) (hi : noIntr src = true) :
    (parseAsync src).mapRest deliver = (parseSync (deliver src)).mapRest deliver := by
  rw [parseAsync_eq_parseSync src hi]
  have hs := parseWith_sim std_deliver_sim syncLoop (Source.size src + 1) src (deliver src) rfl
  have h1 : (parseSync src).mapRest deliver = parseSync (deliver src) := by
    unfold parseSync
    rw [size_deliver]
    exact hs.mapRest_eq (fun _ _ h => h)
  rw [← h1]
  generalize parseSync src = o
  rcases o with ⟨⟨a, r⟩⟩ | e | _ | _ <;> simp [Outcome.mapRest, deliver_deliver]

theorem parseFlat_prefix (bs : Bytes) (r : Header × List Group) (rest : Bytes) (h : parseFlat bs = .ok (r, rest))
    (k : Nat) (hk : k < bs.length - rest.length) :
    parseFlat (bs.take k) = .err (.io .unexpectedEof) := by
  unfold parseFlat
  rw [flatRd_eq_cutRd]
  exact parseCut_prefix bs r rest h k hk .unexpectedEof _ (by simp only [List.length_take]; omega)

theorem prefix_streams (bs : Bytes) (r : Header × List Group) (rest : Bytes) (h : parseFlat bs = .ok (r, rest))
    (src : Source) (hf : noFault src = true) (hk : (Source.flat src).length < bs.length - rest.length)
    (hp : Source.flat src = bs.take (Source.flat src).length) :
    parseSync src = .err (.io .unexpectedEof) ∧ (noIntr src = true → parseAsync src = .err (.io .unexpectedEof)) := by
  have hpre := parseFlat_prefix bs r rest h _ hk
  rw [← hp] at hpre
  have key : ∀ o : Outcome ((Header × List Group) × Source),
      o.mapRest Source.flat = .err (.io .unexpectedEof) → o = .err (.io .unexpectedEof) := by
    intro o ho
    rcases o with ⟨⟨a, r⟩⟩ | e | _ | _ <;> simp [Outcome.mapRest] at ho ⊢
    exact ho
  refine ⟨key _ ?_, fun hi => key _ ?_⟩
  · rw [parseSync_flat src hf, hpre]
  · rw [parseAsync_flat src hf hi, hpre]

theorem fault_streams (bs : Bytes) (r : Header × List Group) (rest : Bytes) (h : parseFlat bs = .ok (r, rest))
    (src1 src2 : Source) (e : IoKind) (hf : noFault src1 = true)
    (hk : (Source.flat src1).length < bs.length - rest.length)
    (hp : Source.flat src1 = bs.take (Source.flat src1).length) :
    (e ≠ .interrupted → parseSync (src1 ++ .fail e :: src2) = .err (.io e)) ∧
    (noIntr src1 = true → parseAsync (src1 ++ .fail e :: src2) = .err (.io e)) := by
  have hfuel : (Source.flat src1).length < Source.size (src1 ++ .fail e :: src2) + 1 := by
    rw [size_append, size_eq_flat_length src1]; omega
  have hcut := parseCut_prefix bs r rest h _ hk e _ hfuel
  rw [← hp] at hcut
  constructor
  · intro _
    have hs := parseWith_sim (std_cut_sim (.fail e :: src2) e (readExactStd_fail_fails e src2)) syncLoop
      (Source.size (src1 ++ .fail e :: src2) + 1) (src1 ++ .fail e :: src2) (Source.flat src1) ⟨src1, rfl, hf, rfl⟩
    unfold parseSync
    exact hs.err_right hcut
  · intro hi
    have hs := parseWith_sim (fut_cut_sim (.fail e :: src2) e (readExactFut_fail_fails e src2)) syncLoop
      (Source.size (src1 ++ .fail e :: src2) + 1) (src1 ++ .fail e :: src2) (Source.flat src1)
      ⟨src1, rfl, hf, hi, rfl⟩
    unfold parseAsync
    rw [asyncLoop_eq_syncLoop]
    exact hs.err_right hcut

end Ipp
