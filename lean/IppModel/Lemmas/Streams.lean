/-
  Streams: simulation between readers, independence of fragmentation, exact consumption, prefixes and faults
  (the development behind C05, C06, C07).  TO BE PROVED: every `sorry` below.
-/
import IppModel.Model.Sources
import IppModel.Lemmas.Framing
namespace Ipp
open Gen

theorem parseSync_flat (src : Source) (h : noFault src = true) :
    (parseSync src).mapRest Source.flat = parseFlat (Source.flat src) := by
  sorry

theorem parseAsync_flat (src : Source) (h : noFault src = true) (hi : noIntr src = true) :
    (parseAsync src).mapRest Source.flat = parseFlat (Source.flat src) := by
  sorry

theorem parseFlat_exact (bs : Bytes) (r : Header × List Group) (rest : Bytes) (h : parseFlat bs = .ok (r, rest)) :
    ∃ pre, bs = pre ++ rest ∧ pre.getLast? = some 0x03 ∧ ∀ rest', parseFlat (pre ++ rest') = .ok (r, rest') := by
  sorry

theorem parseAsync_eq_parseSync (src : Source) (hi : noIntr src = true) : parseAsync src = parseSync src := by
  sorry

theorem parseAsync_eq_parseSync_deliver (src : Source) (hi : noIntr src = true) :
    (parseAsync src).mapRest deliver = (parseSync (deliver src)).mapRest deliver := by
  sorry

theorem parseFlat_prefix (bs : Bytes) (r : Header × List Group) (rest : Bytes) (h : parseFlat bs = .ok (r, rest))
    (k : Nat) (hk : k < bs.length - rest.length) :
    parseFlat (bs.take k) = .err (.io .unexpectedEof) := by
  sorry

theorem prefix_streams (bs : Bytes) (r : Header × List Group) (rest : Bytes) (h : parseFlat bs = .ok (r, rest))
    (src : Source) (hf : noFault src = true) (hk : (Source.flat src).length < bs.length - rest.length)
    (hp : Source.flat src = bs.take (Source.flat src).length) :
    parseSync src = .err (.io .unexpectedEof) ∧ (noIntr src = true → parseAsync src = .err (.io .unexpectedEof)) := by
  sorry

theorem fault_streams (bs : Bytes) (r : Header × List Group) (rest : Bytes) (h : parseFlat bs = .ok (r, rest))
    (src1 src2 : Source) (e : IoKind) (hf : noFault src1 = true)
    (hk : (Source.flat src1).length < bs.length - rest.length)
    (hp : Source.flat src1 = bs.take (Source.flat src1).length) :
    (e ≠ .interrupted → parseSync (src1 ++ .fail e :: src2) = .err (.io e)) ∧
    (noIntr src1 = true → parseAsync (src1 ++ .fail e :: src2) = .err (.io e)) := by
  sorry

end Ipp
