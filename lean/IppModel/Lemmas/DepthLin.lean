/-
  The nesting depth of every value the parser returns is bounded by the number of bytes consumed.

  Potential argument: `psi s` is the sum of the depths of all values held anywhere in the parser state
  (collection stack, current group, finished groups).  A delimiter raises it by at most 1 (one byte),
  a value token by at most 2 (at least five bytes).
-/
import IppModel.Lemmas.CostLin
namespace Ipp
open Gen

/-! ### sums of depths -/

def sumL : List Value → Nat
  | [] => 0
  | v :: vs => depth v + sumL vs

def sumM : List (Bytes × Value) → Nat
  | [] => 0
  | p :: ms => depth p.2 + sumM ms

def sumC : List (List Value) → Nat
  | [] => 0
  | l :: r => sumL l + sumC r

def sumG : List Group → Nat
  | [] => 0
  | g :: r => sumM g.attrs + sumG r

def sumO : Option Group → Nat
  | none => 0
  | some g => sumM g.attrs

/-- sum of the depths of all values held in a parser state -/
def psi (s : PState) : Nat := sumC s.context + sumO s.currentGroup + sumG s.groups

theorem psi_init : psi PState.init = 0 := rfl

theorem sumL_append (a b : List Value) : sumL (a ++ b) = sumL a + sumL b := by
  induction a with
  | nil => simp [sumL]
  | cons v vs ih => simp only [List.cons_append, sumL, ih]; omega

theorem sumG_append (a b : List Group) : sumG (a ++ b) = sumG a + sumG b := by
  induction a with
  | nil => simp [sumG]
  | cons v vs ih => simp only [List.cons_append, sumG, ih]; omega

theorem depthL_le_sumL (vs : List Value) : depthL vs ≤ sumL vs := by
  induction vs with
  | nil => simp [depthL, sumL]
  | cons v vs ih =>
    simp only [depthL, sumL]
    exact Nat.max_le.mpr ⟨by omega, by omega⟩

theorem depthM_le_sumM (ms : List (Bytes × Value)) : depthM ms ≤ sumM ms := by
  induction ms with
  | nil => simp [depthM, sumM]
  | cons p ms ih =>
    obtain ⟨k, v⟩ := p
    simp only [depthM, sumM]
    exact Nat.max_le.mpr ⟨by omega, by omega⟩

theorem depth_le_sumM (ms : List (Bytes × Value)) (p : Bytes × Value) (h : p ∈ ms) : depth p.2 ≤ sumM ms := by
  induction ms with
  | nil => cases h
  | cons q ms ih =>
    simp only [sumM]
    rcases List.mem_cons.mp h with rfl | h'
    · omega
    · have := ih h'; omega

theorem sumM_le_sumG (gs : List Group) (g : Group) (h : g ∈ gs) : sumM g.attrs ≤ sumG gs := by
  induction gs with
  | nil => cases h
  | cons q gs ih =>
    simp only [sumG]
    rcases List.mem_cons.mp h with rfl | h'
    · omega
    · have := ih h'; omega

theorem depth_listOrValue (vs : List Value) : depth (listOrValue vs) ≤ sumL vs + 1 := by
  rcases vs with _ | ⟨a, _ | ⟨b, t⟩⟩
  · simp [listOrValue, depth, depthL, sumL]
  · simp only [listOrValue, sumL]; omega
  · have := depthL_le_sumL (a :: b :: t)
    simp only [listOrValue, depth]
    omega

theorem sumM_sinsert (k : Bytes) (v : Value) (m : List (Bytes × Value)) :
    sumM (sinsert k v m) ≤ depth v + sumM m := by
  induction m with
  | nil => simp [sinsert, sumM]
  | cons p r ih =>
    obtain ⟨k', v'⟩ := p
    simp only [sinsert]
    split
    · simp only [sumM]; omega
    · split
      · simp only [sumM]; omega
      · simp only [sumM]; omega

/-! ### grouping of collection members -/

def curCost : Option (Bytes × List Value) → Nat
  | some (_, vals) => 1 + sumL vals
  | none => 0

theorem sumM_flushMember (m : List (Bytes × Value)) (cur : Option (Bytes × List Value)) :
    sumM (flushMember m cur) ≤ sumM m + curCost cur := by
  rcases cur with _ | ⟨k, vals⟩
  · simp [flushMember, curCost]
  · simp only [flushMember, curCost]
    split
    · omega
    · have h1 := sumM_sinsert k (listOrValue vals) m
      have h2 := depth_listOrValue vals
      omega

theorem sumM_collectGo (arr : List Value) : ∀ (m : List (Bytes × Value)) (cur : Option (Bytes × List Value)),
    sumM (collectGo arr m cur) ≤ sumL arr + sumM m + curCost cur := by
  induction arr with
  | nil =>
    intro m cur
    have := sumM_flushMember m cur
    simp only [collectGo, sumL]; omega
  | cons v rest ih =>
    intro m cur
    by_cases hm : ∃ name, v = .str .memberAttrName name
    · obtain ⟨name, rfl⟩ := hm
      have h1 := ih (flushMember m cur) (some (name, []))
      have h2 := sumM_flushMember m cur
      have h3 : curCost (some (name, ([] : List Value))) = 1 := rfl
      rw [h3] at h1
      simp only [collectGo, sumL, depth] at h1 ⊢
      omega
    · have hd : 1 ≤ depth v := by cases v <;> simp [depth]
      rcases cur with _ | ⟨k, vals⟩
      · have h1 := ih m none
        have he : collectGo (v :: rest) m none = collectGo rest m none := by
          cases v
          case str sk s => cases sk <;> first | rfl | exact absurd ⟨_, rfl⟩ hm
          all_goals rfl
        rw [he]; simp only [sumL] at h1 ⊢; omega
      · have h1 := ih m (some (k, vals ++ [v]))
        have he : collectGo (v :: rest) m (some (k, vals)) = collectGo rest m (some (k, vals ++ [v])) := by
          cases v
          case str sk s => cases sk <;> first | rfl | exact absurd ⟨_, rfl⟩ hm
          all_goals rfl
        have h3 : curCost (some (k, vals ++ [v])) = curCost (some (k, vals)) + depth v := by
          simp only [curCost, sumL_append, sumL]; omega
        rw [he]; rw [h3] at h1; simp only [sumL] at h1 ⊢; omega

theorem depth_coll_collect (arr : List Value) : depth (.coll (collect arr)) ≤ sumL arr + 1 := by
  have h1 := sumM_collectGo arr [] none
  have h2 := depthM_le_sumM (collect arr)
  simp only [depth, collect, sumM, curCost] at h1 h2 ⊢
  omega

/-! ### decoded values are flat -/

def FlatO (o : Outcome Value) : Prop := ∀ v, o = .ok v → depth v = 1

theorem FlatO_bind {α : Type} (x : Outcome α) (f : α → Outcome Value) (h : ∀ a, FlatO (f a)) : FlatO (x.bind f) := by
  intro v hv
  cases x with
  | ok a => exact h a v hv
  | err e => cases hv
  | panic => cases hv
  | outOfFuel => cases hv

theorem FlatO_ok (v : Value) (h : depth v = 1) : FlatO (.ok v) := by
  intro w hw
  cases hw
  exact h

theorem decodeKnown_flat (t : ValueTag) (tag : UInt8) (d : Bytes) : FlatO (decodeKnown t tag d) := by
  cases t <;> simp only [decodeKnown, decodeLang, decodeDateTime] <;>
    repeat (first
      | (apply FlatO_ok; simp only [depth])
      | (apply FlatO_bind; intro _))

theorem decodeValue_flat (tag : UInt8) (d : Bytes) (v : Value) (h : decodeValue tag d = .ok v) : depth v = 1 := by
  unfold decodeValue at h
  split at h
  · cases h; simp only [depth]
  · exact FlatO_bind _ _ (fun _ => decodeKnown_flat _ _ _) v h

/-! ### one token -/

theorem psi_addLastAttribute (s : PState) : psi s.addLastAttribute ≤ psi s + 1 := by
  obtain ⟨cg, ln, ctx, gs⟩ := s
  cases ln with
  | none => simp [PState.addLastAttribute]
  | some n =>
    cases ctx with
    | nil => simp [PState.addLastAttribute, psi, sumC, sumL]
    | cons vl rest =>
      have h2 := depth_listOrValue vl
      cases cg with
      | none =>
        simp only [PState.addLastAttribute, psi, sumC, sumL, Option.map, sumO]
        omega
      | some g =>
        have h1 := sumM_sinsert n (listOrValue vl) g.attrs
        simp only [PState.addLastAttribute, psi, sumC, sumL, Option.map, sumO]
        omega

theorem psi_nameStep (s : PState) (name : Bytes) : psi (nameStep s name) ≤ psi s + 1 := by
  unfold nameStep
  split
  · omega
  · exact psi_addLastAttribute s

theorem psi_valueTail (s1 s' : PState) (tag : UInt8) (v : Value) (hv : depth v = 1)
    (h : valueTail s1 tag v = .ok s') : psi s' ≤ psi s1 + 1 := by
  obtain ⟨cg, ln, ctx, gs⟩ := s1
  unfold valueTail at h
  by_cases hb : tag = begBracket.u8
  · simp only [if_pos hb] at h
    split at h
    · simp only [Outcome.ok.injEq] at h
      subst h
      simp [psi, sumC, sumL]
    · cases h
  · simp only [if_neg hb] at h
    by_cases he : tag = endBracket.u8
    · simp only [if_pos he] at h
      split at h
      · rcases ctx with _ | ⟨arr, _ | ⟨top, rest⟩⟩
        · simp only [Outcome.ok.injEq] at h
          subst h
          omega
        · simp only [Outcome.ok.injEq] at h
          subst h
          simp only [psi, sumC]
          omega
        · simp only [Outcome.ok.injEq] at h
          subst h
          have := depth_coll_collect arr
          simp only [psi, sumC, sumL_append, sumL]
          omega
      · cases h
    · simp only [if_neg he] at h
      rcases ctx with _ | ⟨top, rest⟩
      · simp only [Outcome.ok.injEq] at h
        subst h
        omega
      · simp only [Outcome.ok.injEq] at h
        subst h
        simp only [psi, sumC, sumL_append, sumL]
        omega

/-- a value token raises the potential by at most 2 -/
theorem pMachine_value_step (s s' : PState) (tag : UInt8) (nm b : Bytes)
    (h : pMachine.value s tag nm b = .ok s') : psi s' ≤ psi s + 2 := by
  simp only [pMachine] at h
  rw [parseValue_eq] at h
  cases hdv : decodeValue tag b with
  | err e => simp [hdv] at h
  | panic => simp [hdv] at h
  | outOfFuel => simp [hdv] at h
  | ok v =>
    simp only [hdv] at h
    have h1 := psi_nameStep s (lossy nm)
    have h2 := psi_valueTail _ _ _ _ (decodeValue_flat _ _ _ hdv) h
    omega

/-- a delimiter raises the potential by at most 1 -/
theorem pMachine_delim_step (s s' : PState) (tag : UInt8) (code : Nat)
    (h : pMachine.delim s tag = .ok (s', code)) : psi s' ≤ psi s + 1 := by
  simp only [pMachine, PState.parseDelimiter] at h
  cases hf : DelimiterTag.fromCode tag.toNat with
  | none => simp [hf] at h
  | some t =>
    simp only [hf, Except.ok.injEq, Prod.mk.injEq] at h
    obtain ⟨h, _⟩ := h
    subst h
    have h1 := psi_addLastAttribute s
    cases hc : s.addLastAttribute.currentGroup with
    | none =>
      simp only [psi, hc, sumO, sumM] at h1 ⊢
      omega
    | some g =>
      simp only [psi, hc, sumO, sumM, sumG_append, sumG] at h1 ⊢
      omega

/-! ### the loop -/

theorem driveLoop_depth (cfg : LoopCfg) (fuel : Nat) :
    ∀ (bs : Bytes) (s s' : PState) (rest : Bytes), driveLoop flatRd cfg pMachine fuel bs s = .ok (s', rest) →
      psi s' + rest.length ≤ psi s + bs.length := by
  induction fuel with
  | zero => intro bs c c' rest h; simp [driveLoop] at h
  | succ f ih =>
    intro bs c c' rest h
    simp only [driveLoop] at h
    cases h0 : rdU8 flatRd bs with
    | err e => simp [h0] at h
    | panic => simp [h0] at h
    | outOfFuel => simp [h0] at h
    | ok p =>
      obtain ⟨tag, r1⟩ := p
      have hl0 := rdU8_flat_length _ _ _ h0
      simp only [h0] at h
      by_cases hd : cfg.delimLo ≤ tag.toNat ∧ tag.toNat ≤ cfg.delimHi
      · simp only [if_pos hd] at h
        cases hdl : pMachine.delim c tag with
        | error e => simp [hdl] at h
        | ok q =>
          obtain ⟨c1, code⟩ := q
          have hs := pMachine_delim_step _ _ _ _ hdl
          simp only [hdl] at h
          by_cases hc : code = cfg.endTag
          · simp only [if_pos hc, Outcome.ok.injEq, Prod.mk.injEq] at h
            obtain ⟨rfl, rfl⟩ := h
            omega
          · simp only [if_neg hc] at h
            have := ih _ _ _ _ h
            omega
      · simp only [if_neg hd] at h
        by_cases hv : cfg.valueLo ≤ tag.toNat ∧ tag.toNat ≤ cfg.valueHi
        · simp only [if_pos hv] at h
          cases h1 : rdLV flatRd r1 with
          | err e => simp [h1] at h
          | panic => simp [h1] at h
          | outOfFuel => simp [h1] at h
          | ok q =>
            obtain ⟨name, r2⟩ := q
            simp only [h1] at h
            cases h2 : rdLV flatRd r2 with
            | err e => simp [h2] at h
            | panic => simp [h2] at h
            | outOfFuel => simp [h2] at h
            | ok q' =>
              obtain ⟨body, r3⟩ := q'
              simp only [h2] at h
              cases h3 : pMachine.value c tag name body with
              | err e => simp [h3] at h
              | panic => simp [h3] at h
              | outOfFuel => simp [h3] at h
              | ok c1 =>
                simp only [h3] at h
                have hl1 := rdLV_flat_length _ _ _ h1
                have hl2 := rdLV_flat_length _ _ _ h2
                have hs := pMachine_value_step _ _ _ _ _ h3
                have := ih _ _ _ _ h
                omega
        · simp only [if_neg hv] at h
          cases h

/-- the sum of the depths of all returned values is bounded by the bytes consumed after the header -/
theorem parseFlat_depth_sum (bs : Bytes) (h : Header) (gs : List Group) (rest : Bytes)
    (hp : parseFlat bs = .ok ((h, gs), rest)) : sumG gs + 8 + rest.length ≤ bs.length := by
  unfold parseFlat parseWith at hp
  cases hh : rdHeader flatRd bs with
  | err e => simp [hh] at hp
  | panic => simp [hh] at hp
  | outOfFuel => simp [hh] at hp
  | ok p =>
    obtain ⟨hd, r1⟩ := p
    simp only [hh] at hp
    cases hl : driveLoop flatRd syncLoop pMachine (bs.length + 1) r1 PState.init with
    | err e => simp [hl] at hp
    | panic => simp [hl] at hp
    | outOfFuel => simp [hl] at hp
    | ok q =>
      obtain ⟨st, r2⟩ := q
      simp only [hl, Outcome.ok.injEq, Prod.mk.injEq] at hp
      obtain ⟨⟨_, rfl⟩, rfl⟩ := hp
      have h1 := rdHeader_flat_length _ _ _ hh
      have h2 := driveLoop_depth _ _ _ _ _ _ hl
      rw [psi_init] at h2
      simp only [psi] at h2
      omega

/-- the nesting depth of every value the parser returns is bounded by the number of bytes it consumed -/
theorem parseFlat_depth_linear (bs : Bytes) (h : Header) (gs : List Group) (rest : Bytes)
    (hp : parseFlat bs = .ok ((h, gs), rest)) :
    ∀ g ∈ gs, ∀ p ∈ g.attrs, depth p.2 ≤ bs.length - rest.length := by
  intro g hg p hpm
  have h1 := parseFlat_depth_sum bs h gs rest hp
  have h2 := sumM_le_sumG gs g hg
  have h3 := depth_le_sumM g.attrs p hpm
  omega

end Ipp
