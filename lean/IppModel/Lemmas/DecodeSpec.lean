/-
  The value decoder of the implementation agrees with the RFC reading `decodePlain` on well-formed bodies.
-/
import IppModel.Lemmas.FlatRd
import IppModel.Spec.Wire
namespace Ipp
open Gen Spec

theorem fromCode_some_code (n : Nat) (t : ValueTag) (h : ValueTag.fromCode n = some t) : t.code = n := by
  have := List.find?_some h
  simpa using this

theorem u8_eq_of_toNat (t : UInt8) (n : Nat) (hn : n < 256) (h : t.toNat = n) : t = UInt8.ofNat n := by
  apply UInt8.toNat_inj.mp
  rw [h, UInt8.toNat_ofNat']
  omega

theorem decodeValue_some {tag : UInt8} {d : Bytes} {t : ValueTag} (h : ValueTag.fromCode tag.toNat = some t) :
    decodeValue tag d = (checkLen d (minLen t)).bind fun _ => decodeKnown t tag d := by
  simp only [decodeValue, h]

theorem decodeValue_none {tag : UInt8} {d : Bytes} (h : ValueTag.fromCode tag.toNat = none) :
    decodeValue tag d = .ok (.other tag d) := by
  simp only [decodeValue, h]

theorem decodeValue_beg : decodeValue 0x34 [] = .ok (.other 0x34 []) := by
  rw [decodeValue_some (t := .BegCollection) rfl]
  simp [checkLen, minLen, decodeKnown, Outcome.bind]

theorem decodeValue_end : decodeValue 0x37 [] = .ok (.other 0x37 []) := by
  rw [decodeValue_some (t := .EndCollection) rfl]
  simp [checkLen, minLen, decodeKnown, Outcome.bind]

theorem decodeValue_memberName (k : Bytes) : decodeValue 0x4a k = .ok (.str .memberAttrName (lossy k)) := by
  rw [decodeValue_some (t := .MemberAttrName) rfl]
  simp [checkLen, minLen, decodeKnown, Outcome.bind]

/-! ### fixed-length syntaxes -/

theorem dec_integer (b : Bytes) (h : wfBody 0x21 b = true) : decodeValue 0x21 b = .ok (decodePlain 0x21 b) := by
  simp [wfBody] at h
  match b, h with
  | [a, b, c, d], _ =>
    rw [decodeValue_some (t := .Integer) rfl]
    simp [checkLen, minLen, decodeKnown, getU32, Outcome.bind, decodePlain]

theorem dec_enum (b : Bytes) (h : wfBody 0x23 b = true) : decodeValue 0x23 b = .ok (decodePlain 0x23 b) := by
  simp [wfBody] at h
  match b, h with
  | [a, b, c, d], _ =>
    rw [decodeValue_some (t := .Enum) rfl]
    simp [checkLen, minLen, decodeKnown, getU32, Outcome.bind, decodePlain]

theorem dec_boolean (b : Bytes) (h : wfBody 0x22 b = true) : decodeValue 0x22 b = .ok (decodePlain 0x22 b) := by
  simp [wfBody] at h
  match b, h with
  | [a], _ =>
    rw [decodeValue_some (t := .Boolean) rfl]
    simp [checkLen, minLen, decodeKnown, getU8, Outcome.bind, decodePlain]

theorem dec_range (b : Bytes) (h : wfBody 0x33 b = true) : decodeValue 0x33 b = .ok (decodePlain 0x33 b) := by
  simp [wfBody] at h
  match b, h with
  | [a, b, c, d, e, f, g, i], _ =>
    rw [decodeValue_some (t := .RangeOfInteger) rfl]
    simp [checkLen, minLen, decodeKnown, getU32, Outcome.bind, decodePlain]

theorem dec_dateTime (b : Bytes) (h : wfBody 0x31 b = true) : decodeValue 0x31 b = .ok (decodePlain 0x31 b) := by
  simp [wfBody] at h
  match b, h with
  | [a, b, c, d, e, f, g, i, j, k, l], _ =>
    rw [decodeValue_some (t := .DateTime) rfl]
    simp [checkLen, minLen, decodeKnown, decodeDateTime, getU16, getU8, Outcome.bind, decodePlain]

theorem dec_resolution (b : Bytes) (h : wfBody 0x32 b = true) : decodeValue 0x32 b = .ok (decodePlain 0x32 b) := by
  simp [wfBody] at h
  match b, h with
  | [a, b, c, d, e, f, g, i, j], _ =>
    rw [decodeValue_some (t := .Resolution) rfl]
    simp [checkLen, minLen, decodeKnown, getU32, getU8, Outcome.bind, decodePlain]

/-! ### with-language syntaxes -/

theorem getLenString_cons (l1 l0 : UInt8) (r : Bytes) (h : unbe16 l1 l0 ≤ r.length) :
    getLenString (l1 :: l0 :: r) = .ok (lossy (r.take (unbe16 l1 l0)), r.drop (unbe16 l1 l0)) := by
  have h' : ¬ r.length < unbe16 l1 l0 := by omega
  have h2 : ¬ r.length + 1 + 1 < 2 := by omega
  simp [getLenString, checkLen, getU16, sliceAdvance, Outcome.bind, h, h', h2]

theorem decodeLang_wf (k : LangKind) (l1 l0 t1 t0 : UInt8) (r r2 : Bytes)
    (hd : r.drop (unbe16 l1 l0) = t1 :: t0 :: r2) (h1 : unbe16 l1 l0 ≤ r.length) (h2 : r2.length = unbe16 t1 t0) :
    decodeLang k (l1 :: l0 :: r) = .ok (.lang k (lossy (r.take (unbe16 l1 l0))) (lossy (r2.take (unbe16 t1 t0)))) := by
  simp only [decodeLang, getLenString_cons l1 l0 r h1, Outcome.bind, hd,
    getLenString_cons t1 t0 r2 (by omega)]

theorem wfBody_lang (t : UInt8) (b : Bytes) (ht : t = 0x35 ∨ t = 0x36) (h : wfBody t b = true) :
    ∃ l1 l0 r t1 t0 r2, b = l1 :: l0 :: r ∧ r.drop (unbe16 l1 l0) = t1 :: t0 :: r2 ∧
      unbe16 l1 l0 ≤ r.length ∧ r2.length = unbe16 t1 t0 := by
  rcases ht with rfl | rfl
  all_goals
    match b, h with
    | [], h => simp [wfBody] at h
    | [_], h => simp [wfBody] at h
    | l1 :: l0 :: r, h =>
      simp [wfBody] at h
      split at h
      · rename_i t1 t0 r2 hd
        simp only [Bool.and_eq_true, decide_eq_true_eq, beq_iff_eq] at h
        exact ⟨l1, l0, r, t1, t0, r2, rfl, hd, h.1, h.2⟩
      · simp at h

theorem dec_textLang (b : Bytes) (h : wfBody 0x35 b = true) : decodeValue 0x35 b = .ok (decodePlain 0x35 b) := by
  obtain ⟨l1, l0, r, t1, t0, r2, rfl, hd, h1, h2⟩ := wfBody_lang _ b (Or.inl rfl) h
  rw [decodeValue_some (t := .TextWithLanguage) rfl]
  simp [checkLen, minLen, decodeKnown, Outcome.bind, decodePlain, hd, decodeLang_wf _ l1 l0 t1 t0 r r2 hd h1 h2]

theorem dec_nameLang (b : Bytes) (h : wfBody 0x36 b = true) : decodeValue 0x36 b = .ok (decodePlain 0x36 b) := by
  obtain ⟨l1, l0, r, t1, t0, r2, rfl, hd, h1, h2⟩ := wfBody_lang _ b (Or.inr rfl) h
  rw [decodeValue_some (t := .NameWithLanguage) rfl]
  simp [checkLen, minLen, decodeKnown, Outcome.bind, decodePlain, hd, decodeLang_wf _ l1 l0 t1 t0 r r2 hd h1 h2]

/-! ### string syntaxes, no-value -/

theorem dec_OctetStringUnspecified (b : Bytes) : decodeValue 0x30 b = .ok (decodePlain 0x30 b) := by
  rw [decodeValue_some (t := .OctetStringUnspecified) rfl]
  simp [checkLen, minLen, decodeKnown, Outcome.bind, decodePlain]

theorem dec_TextWithoutLanguage (b : Bytes) : decodeValue 0x41 b = .ok (decodePlain 0x41 b) := by
  rw [decodeValue_some (t := .TextWithoutLanguage) rfl]
  simp [checkLen, minLen, decodeKnown, Outcome.bind, decodePlain]

theorem dec_NameWithoutLanguage (b : Bytes) : decodeValue 0x42 b = .ok (decodePlain 0x42 b) := by
  rw [decodeValue_some (t := .NameWithoutLanguage) rfl]
  simp [checkLen, minLen, decodeKnown, Outcome.bind, decodePlain]

theorem dec_Keyword (b : Bytes) : decodeValue 0x44 b = .ok (decodePlain 0x44 b) := by
  rw [decodeValue_some (t := .Keyword) rfl]
  simp [checkLen, minLen, decodeKnown, Outcome.bind, decodePlain]

theorem dec_Uri (b : Bytes) : decodeValue 0x45 b = .ok (decodePlain 0x45 b) := by
  rw [decodeValue_some (t := .Uri) rfl]
  simp [checkLen, minLen, decodeKnown, Outcome.bind, decodePlain]

theorem dec_UriScheme (b : Bytes) : decodeValue 0x46 b = .ok (decodePlain 0x46 b) := by
  rw [decodeValue_some (t := .UriScheme) rfl]
  simp [checkLen, minLen, decodeKnown, Outcome.bind, decodePlain]

theorem dec_Charset (b : Bytes) : decodeValue 0x47 b = .ok (decodePlain 0x47 b) := by
  rw [decodeValue_some (t := .Charset) rfl]
  simp [checkLen, minLen, decodeKnown, Outcome.bind, decodePlain]

theorem dec_NaturalLanguage (b : Bytes) : decodeValue 0x48 b = .ok (decodePlain 0x48 b) := by
  rw [decodeValue_some (t := .NaturalLanguage) rfl]
  simp [checkLen, minLen, decodeKnown, Outcome.bind, decodePlain]

theorem dec_MimeMediaType (b : Bytes) : decodeValue 0x49 b = .ok (decodePlain 0x49 b) := by
  rw [decodeValue_some (t := .MimeMediaType) rfl]
  simp [checkLen, minLen, decodeKnown, Outcome.bind, decodePlain]

theorem dec_MemberAttrName (b : Bytes) : decodeValue 0x4a b = .ok (decodePlain 0x4a b) := by
  rw [decodeValue_some (t := .MemberAttrName) rfl]
  simp [checkLen, minLen, decodeKnown, Outcome.bind, decodePlain]

theorem dec_NoValue (b : Bytes) : decodeValue 0x13 b = .ok (decodePlain 0x13 b) := by
  rw [decodeValue_some (t := .NoValue) rfl]
  simp [checkLen, minLen, decodeKnown, Outcome.bind, decodePlain]

/-! ### all tags -/

theorem decodeValue_plain (t : UInt8) (b : Bytes) (h34 : t ≠ 0x34) (h37 : t ≠ 0x37) (hwf : wfBody t b = true) :
    decodeValue t b = .ok (decodePlain t b) := by
  by_cases h21 : t = 0x21; · subst h21; exact dec_integer b hwf
  by_cases h23 : t = 0x23; · subst h23; exact dec_enum b hwf
  by_cases h22 : t = 0x22; · subst h22; exact dec_boolean b hwf
  by_cases h33 : t = 0x33; · subst h33; exact dec_range b hwf
  by_cases h31 : t = 0x31; · subst h31; exact dec_dateTime b hwf
  by_cases h32 : t = 0x32; · subst h32; exact dec_resolution b hwf
  by_cases h35 : t = 0x35; · subst h35; exact dec_textLang b hwf
  by_cases h36 : t = 0x36; · subst h36; exact dec_nameLang b hwf
  by_cases h30 : t = 0x30; · subst h30; exact dec_OctetStringUnspecified b
  by_cases h41 : t = 0x41; · subst h41; exact dec_TextWithoutLanguage b
  by_cases h42 : t = 0x42; · subst h42; exact dec_NameWithoutLanguage b
  by_cases h44 : t = 0x44; · subst h44; exact dec_Keyword b
  by_cases h45 : t = 0x45; · subst h45; exact dec_Uri b
  by_cases h46 : t = 0x46; · subst h46; exact dec_UriScheme b
  by_cases h47 : t = 0x47; · subst h47; exact dec_Charset b
  by_cases h48 : t = 0x48; · subst h48; exact dec_NaturalLanguage b
  by_cases h49 : t = 0x49; · subst h49; exact dec_MimeMediaType b
  by_cases h4a : t = 0x4a; · subst h4a; exact dec_MemberAttrName b
  by_cases h13 : t = 0x13; · subst h13; exact dec_NoValue b
  have hp : decodePlain t b = .other t b := by
    simp [decodePlain, h21, h23, h22, h33, h31, h32, h35, h36, h30, h41, h42, h44, h45, h46, h47, h48, h49, h4a, h13]
  rw [hp]
  cases hf : ValueTag.fromCode t.toNat with
  | none => exact decodeValue_none hf
  | some vt =>
    have hc := fromCode_some_code _ _ hf
    rw [decodeValue_some hf]
    have key : ∀ n, n < 256 → vt.code = n → t = UInt8.ofNat n := fun n hn e => u8_eq_of_toNat t n hn (hc ▸ e)
    cases vt
    case Unsupported => simp [checkLen, minLen, decodeKnown, Outcome.bind]
    case Unknown => simp [checkLen, minLen, decodeKnown, Outcome.bind]
    case BegCollection => simp [checkLen, minLen, decodeKnown, Outcome.bind]
    case EndCollection => simp [checkLen, minLen, decodeKnown, Outcome.bind]
    all_goals
      exfalso
      have := key _ (by decide) rfl
      first
        | exact h21 this | exact h23 this | exact h22 this | exact h33 this | exact h31 this | exact h32 this
        | exact h35 this | exact h36 this | exact h30 this | exact h41 this | exact h42 this | exact h44 this
        | exact h45 this | exact h46 this | exact h47 this | exact h48 this | exact h49 this | exact h4a this
        | exact h13 this

def isMName : Value → Bool
  | .str .memberAttrName _ => true
  | _ => false

theorem isMName_ite (c : Prop) [Decidable c] (x y : Value) (hx : c → isMName x = false)
    (hy : ¬c → isMName y = false) : isMName (if c then x else y) = false := by
  split
  · exact hx ‹_›
  · exact hy ‹_›

/-- only the member-name tag reads as a member name -/
theorem decodePlain_not_memberName (t : UInt8) (b : Bytes) (h : t ≠ 0x4a) :
    isMName (decodePlain t b) = false := by
  unfold decodePlain
  repeat (refine isMName_ite _ _ _ (fun _ => ?_) (fun _ => ?_); · (first | rfl | contradiction | (split <;> first | rfl | (dsimp only; split <;> rfl))))
  rfl

end Ipp
