/-
  The readiness helper (`isPrinterReady`) in closed form.  Used by Props/C17.
-/
import IppModel.Model.Ready
import IppModel.Lemmas.Traverse
namespace Ipp.Ready
open Ipp Ipp.Gen

/-- the keywords a value carries (itself, the keyword elements of a set, the keyword members of a collection) -/
def keywordsOf : Value → List Bytes
  | .str .keyword s => [s]
  | .array vs => vs.filterMap asKeyword
  | .coll ms => (ms.map (·.2)).filterMap asKeyword
  | _ => []

/-- the state attribute is the enum value 5 -/
def stoppedV : Option Value → Bool
  | some (.int .enum v) => v == 5
  | _ => false

def blockedV (blocking : List Bytes) : Option Value → Bool
  | some r => (keywordsOf r).any fun k => blocking.contains k
  | none => false

theorem fromCode_stopped (n : Nat) : PrinterState.fromCode n = some .Stopped ↔ n = 5 := by
  simp only [PrinterState.fromCode, PrinterState.all, List.find?, PrinterState.code]
  by_cases h3 : n = 3
  · subst h3; simp
  · by_cases h4 : n = 4
    · subst h4; simp
    · by_cases h5 : n = 5
      · subst h5; simp
      · have e3 : ((3 : Nat) == n) = false := by simpa using Ne.symm h3
        have e4 : ((4 : Nat) == n) = false := by simpa using Ne.symm h4
        have e5 : ((5 : Nat) == n) = false := by simpa using Ne.symm h5
        simp [e3, e4, e5, h5]

theorem printerStateOf_stopped (v : UInt32) : printerStateOf v = some .Stopped ↔ v = 5 := by
  simp only [printerStateOf]
  have h5 : (5 : UInt32).toNat = 5 := rfl
  constructor
  · intro h
    split at h
    · rw [fromCode_stopped] at h
      exact UInt32.toNat_inj.mp (h.trans h5.symm)
    · cases h
  · intro h
    subst h
    decide

theorem keywords_iterAll (r : Value) : (iterAll r).filterMap asKeyword = keywordsOf r := by
  rw [Traverse.iterAll_eq]
  cases r with
  | str k s => cases k <;> rfl
  | _ => rfl

theorem state_stopped (o : Option Value) :
    decide ((o.bind asEnum).bind printerStateOf = some readyStoppedState) = stoppedV o := by
  have hs : readyStoppedState = .Stopped := rfl
  rw [hs]
  cases o with
  | none => simp [stoppedV]
  | some x =>
    cases x with
    | int k v =>
      cases k
      · simp [asEnum, stoppedV]
      · simp only [asEnum, stoppedV, Option.bind_some, printerStateOf_stopped]
        by_cases h5 : v = 5 <;> simp [h5]
    | _ => simp [asEnum, stoppedV]

theorem ready_core (h : Header) (gs : List Group) :
    isPrinterReady h gs =
      if isSuccess (statusOf h.opOrStatus.toNat) = false then .error (statusOf h.opOrStatus.toNat)
      else .ok (!stoppedV (printerAttr readyStateAttr gs) && !blockedV errorStates (printerAttr readyReasonsAttr gs)) := by
  simp only [isPrinterReady]
  cases hs : isSuccess (statusOf h.opOrStatus.toNat)
  · simp
  · simp only [Bool.not_true, Bool.false_eq_true, if_false]
    rw [← state_stopped]
    by_cases hst : ((printerAttr readyStateAttr gs).bind asEnum).bind printerStateOf = some readyStoppedState
    · simp [hst]
    · simp only [hst, if_false, decide_false, Bool.not_false, Bool.true_and]
      cases hr : printerAttr readyReasonsAttr gs with
      | none => simp [blockedV]
      | some r =>
        simp only [blockedV, keywords_iterAll]
        cases (keywordsOf r).any fun k => errorStates.contains k <;> simp

end Ipp.Ready
