/-
  The value iterator (`IterSt.next`, `IterSt.collect`, `iterAll`): what a complete traversal yields and
  where it stops.  Used by Props/C19 and Props/C17.
-/
import IppModel.Model.Iter
namespace Ipp.Traverse
open Ipp

theorem collect_array (vs : List Value) (fuel i : Nat) (hi : i ≤ vs.length) (hf : vs.length - i < fuel) :
    IterSt.collect fuel ⟨.array vs, i⟩ = (vs.drop i, ⟨.array vs, vs.length⟩) := by
  induction fuel generalizing i with
  | zero => omega
  | succ fuel ih =>
    simp only [IterSt.collect, IterSt.next]
    by_cases h : i < vs.length
    · simp only [h, if_true, List.getElem?_eq_getElem h]
      rw [ih (i + 1) (by omega) (by omega), List.drop_eq_getElem_cons h]
    · have : i = vs.length := by omega
      subst this
      simp

theorem collect_coll (ms : List (Bytes × Value)) (fuel i : Nat) (hi : i ≤ ms.length) (hf : ms.length - i < fuel) :
    IterSt.collect fuel ⟨.coll ms, i⟩ = ((ms.drop i).map (·.2), ⟨.coll ms, ms.length⟩) := by
  induction fuel generalizing i with
  | zero => omega
  | succ fuel ih =>
    simp only [IterSt.collect, IterSt.next]
    by_cases h : i < ms.length
    · simp only [List.getElem?_eq_getElem h]
      rw [ih (i + 1) (by omega) (by omega), List.drop_eq_getElem_cons h]
      rfl
    · have : i = ms.length := by omega
      subst this
      simp

theorem iterAll_eq (v : Value) :
    iterAll v = match v with
      | .array vs => vs
      | .coll ms => ms.map (·.2)
      | w => [w] := by
  cases v with
  | array vs => simp [iterAll, valueSize, Value.iter, collect_array vs (vs.length + 1) 0 (by omega) (by omega)]
  | coll ms => simp [iterAll, valueSize, Value.iter, collect_coll ms (ms.length + 1) 0 (by omega) (by omega)]
  | _ => rfl

theorem next_none (s : IterSt) (h : s.next.1 = none) : s.next.2 = s := by
  obtain ⟨v, i⟩ := s
  cases v <;> simp only [IterSt.next] at h ⊢ <;> split <;> simp_all

theorem collect_exhausts (v : Value) : ((IterSt.collect (valueSize v + 1) v.iter).2).next.1 = none := by
  cases v with
  | array vs =>
    simp [valueSize, Value.iter, collect_array vs (vs.length + 1) 0 (by omega) (by omega), IterSt.next]
  | coll ms =>
    simp [valueSize, Value.iter, collect_coll ms (ms.length + 1) 0 (by omega) (by omega), IterSt.next]
  | _ => rfl

end Ipp.Traverse
