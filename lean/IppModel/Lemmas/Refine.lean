/-
  Refinement of the wire grammar by the parser (the development behind C04).
  TO BE PROVED: the two theorems at the end.  Helper lemmas may be added in this file or in new files under
  IppModel/Lemmas/.  Model/ and Spec/ files must not be changed.
-/
import IppModel.Lemmas.Total
import IppModel.Spec.Wire
namespace Ipp
open Gen Spec

theorem parseFlat_ser (w : WMsg) (p : Bytes) (h : wfWire w = true) :
    parseFlat (ser w ++ p) = .ok (interp w, p) := by
  sorry

theorem parseFlat_bad_tag (v o : UInt16) (i : UInt32) (gs : List WGroup) (b : UInt8) (r : Bytes)
    (h : wfGroups gs = true) (hb : b = 0 ∨ (5 < b ∧ b < 0x10) ∨ 0x4a < b) :
    parseFlat (be16 v.toNat ++ (be16 o.toNat ++ (be32 i ++ (serGroups gs ++ b :: r)))) = .err (.invalidTag b) := by
  sorry

end Ipp
