/-
  Refinement of the wire grammar by the parser (the development behind C04).
  Helper lemmas: Bytes.lean (byte round trips, flat reader, `lossy`), Framing.lean (token run vs byte loop,
  fuel), DecodeSpec.lean (value decoder vs `decodePlain`), TokenRun.lean (tokens of values and attributes
  on the parser state).  This file: delimiters, groups, assembly.
-/
import IppModel.Lemmas.Total
import IppModel.Spec.Wire
import IppModel.Lemmas.TokenRun
namespace Ipp
open Gen Spec

/-! ### single loop iterations on a tag byte -/

theorem driveLoop_delim {σ : Type} (cfg : LoopCfg) (m : Machine σ) (f : Nat) (tag : UInt8) (r : Bytes)
    (st st' : σ) (code : Nat) (hr : cfg.delimLo ≤ tag.toNat ∧ tag.toNat ≤ cfg.delimHi)
    (hd : m.delim st tag = .ok (st', code)) (hc : code ≠ cfg.endTag) :
    driveLoop flatRd cfg m (f + 1) (tag :: r) st = driveLoop flatRd cfg m f r st' := by
  simp only [driveLoop, rdU8_flat, hr, and_self, if_true, hd, hc, if_false]

theorem driveLoop_end {σ : Type} (cfg : LoopCfg) (m : Machine σ) (f : Nat) (tag : UInt8) (r : Bytes)
    (st st' : σ) (hr : cfg.delimLo ≤ tag.toNat ∧ tag.toNat ≤ cfg.delimHi)
    (hd : m.delim st tag = .ok (st', cfg.endTag)) :
    driveLoop flatRd cfg m (f + 1) (tag :: r) st = .ok (st', r) := by
  simp only [driveLoop, rdU8_flat, hr, and_self, if_true, hd]

theorem driveLoop_bad {σ : Type} (cfg : LoopCfg) (m : Machine σ) (f : Nat) (tag : UInt8) (r : Bytes) (st : σ)
    (h1 : ¬ (cfg.delimLo ≤ tag.toNat ∧ tag.toNat ≤ cfg.delimHi))
    (h2 : ¬ (cfg.valueLo ≤ tag.toNat ∧ tag.toNat ≤ cfg.valueHi)) :
    driveLoop flatRd cfg m (f + 1) (tag :: r) st = .err (.invalidTag tag) := by
  simp only [driveLoop, rdU8_flat, h1, h2, if_false]

/-! ### delimiters -/

/-- `done` is the group list a delimiter arriving in state `s` produces -/
def Ready (s : PState) (done : List Group) : Prop :=
  (s = PState.init ∧ done = []) ∨
  ∃ gs t m pend, s = mkSt gs t m pend ∧ done = gs ++ [⟨t, flushP m pend⟩]

theorem delim_ready (s : PState) (done : List Group) (hr : Ready s done) (tag : UInt8) (t : DelimiterTag)
    (ht : DelimiterTag.fromCode tag.toNat = some t) :
    pMachine.delim s tag = .ok (mkSt done t [] none, t.code) := by
  simp only [pMachine, PState.parseDelimiter, ht]
  rcases hr with ⟨rfl, rfl⟩ | ⟨gs, t', m, pend, rfl, rfl⟩
  · rfl
  · rw [mkSt_addLast]; rfl

theorem delimOf_some (tag : UInt8) (t : DelimiterTag) (h : delimOf tag = some t) :
    DelimiterTag.fromCode tag.toNat = some t ∧ t.code ≠ syncLoop.endTag ∧
      (syncLoop.delimLo ≤ tag.toNat ∧ tag.toNat ≤ syncLoop.delimHi) := by
  unfold delimOf at h
  repeat' split at h
  all_goals first
    | (subst_vars; simp only [Option.some.injEq] at h; subst h; decide)
    | (simp at h)

/-! ### groups -/

theorem groups_run (gs : List WGroup) (h : wfGroups gs = true) (s : PState) (done : List Group)
    (hr : Ready s done) :
    ∃ k s', Ready s' (done ++ interpGroups gs) ∧ ∀ f rest,
      driveLoop flatRd syncLoop pMachine (f + k) (serGroups gs ++ rest) s =
        driveLoop flatRd syncLoop pMachine f rest s' := by
  induction gs generalizing s done with
  | nil => exact ⟨0, s, by simpa [interpGroups] using hr, fun f rest => by simp [serGroups]⟩
  | cons g gs ih =>
    simp only [wfGroups, wfGroup, Bool.and_eq_true] at h
    obtain ⟨⟨hd, ha⟩, hgs⟩ := h
    obtain ⟨t, ht⟩ := Option.isSome_iff_exists.mp hd
    obtain ⟨hfc, hne, hrange⟩ := delimOf_some g.tag t ht
    obtain ⟨m', pend', hrun, hfl⟩ := run_attrs g.attrs ha done t [] none
    have hr2 : Ready (mkSt done t m' pend') (done ++ [interpGroup g]) := by
      refine Or.inr ⟨done, t, m', pend', rfl, ?_⟩
      simp only [interpGroup, ht, Option.getD_some]
      rw [hfl]; rfl
    obtain ⟨k2, s', hr', hk⟩ := ih hgs _ _ hr2
    refine ⟨k2 + (toksAttrs g.attrs).length + 1, s', ?_, ?_⟩
    · simpa [interpGroups] using hr'
    · intro f rest
      rw [show f + (k2 + (toksAttrs g.attrs).length + 1) = (f + k2 + (toksAttrs g.attrs).length) + 1 by omega]
      simp only [serGroups, serGroup, List.cons_append, List.append_assoc]
      rw [driveLoop_delim syncLoop pMachine _ g.tag _ s _ _ hrange (delim_ready s done hr g.tag t hfc) hne,
        driveLoop_toks syncLoop pMachine _ (toksAttrs_ok g.attrs ha) _ _ _ hrun, hk]

/-! ### assembly -/

theorem parseFlat_core (v o : UInt16) (i : UInt32) (B : Bytes) (f : Nat)
    (hne : driveLoop flatRd syncLoop pMachine f B PState.init ≠ .outOfFuel) :
    parseFlat (be16 v.toNat ++ (be16 o.toNat ++ (be32 i ++ B))) =
      match driveLoop flatRd syncLoop pMachine f B PState.init with
      | .err e => .err e
      | .panic => .panic
      | .outOfFuel => .outOfFuel
      | .ok (st, r2) => .ok ((⟨v, o, i⟩, st.groups), r2) := by
  unfold parseFlat parseWith
  rw [rdHeader_flat]
  simp only []
  rw [driveLoop_fuel_transfer flatRd syncLoop pMachine f _ B PState.init hne
    (driveLoop_flat_fuel _ _ _ _ (by simp [be16, be32]; omega))]
  generalize driveLoop flatRd syncLoop pMachine f B PState.init = X
  rcases X with ⟨⟨st, r2⟩⟩ | e | _ | _ <;> rfl

theorem parseFlat_ser (w : WMsg) (p : Bytes) (h : wfWire w = true) :
    parseFlat (ser w ++ p) = .ok (interp w, p) := by
  obtain ⟨k, s', hr', hk⟩ := groups_run w.groups h PState.init [] (Or.inl ⟨rfl, rfl⟩)
  have hend : driveLoop flatRd syncLoop pMachine (1 + k) (serGroups w.groups ++ 0x03 :: p) PState.init =
      .ok (mkSt ([] ++ interpGroups w.groups) .EndOfAttributes [] none, p) := by
    rw [hk]
    exact driveLoop_end syncLoop pMachine 0 0x03 p s' _ (by decide)
      (delim_ready s' _ hr' 0x03 .EndOfAttributes rfl)
  have := parseFlat_core w.version w.op w.id (serGroups w.groups ++ 0x03 :: p) (1 + k) (by rw [hend]; simp)
  rw [hend] at this
  simp only [ser, List.append_assoc, List.cons_append, List.nil_append]
  rw [this]
  simp [interp, mkSt]

theorem parseFlat_bad_tag (v o : UInt16) (i : UInt32) (gs : List WGroup) (b : UInt8) (r : Bytes)
    (h : wfGroups gs = true) (hb : b = 0 ∨ (5 < b ∧ b < 0x10) ∨ 0x4a < b) :
    parseFlat (be16 v.toNat ++ (be16 o.toNat ++ (be32 i ++ (serGroups gs ++ b :: r)))) = .err (.invalidTag b) := by
  obtain ⟨k, s', _, hk⟩ := groups_run gs h PState.init [] (Or.inl ⟨rfl, rfl⟩)
  have hbad : driveLoop flatRd syncLoop pMachine (1 + k) (serGroups gs ++ b :: r) PState.init =
      .err (.invalidTag b) := by
    rw [hk]
    have e5 : (5 : UInt8).toNat = 5 := rfl
    have e16 : (0x10 : UInt8).toNat = 16 := rfl
    have e74 : (0x4a : UInt8).toNat = 74 := rfl
    have hb' : b.toNat = 0 ∨ (5 < b.toNat ∧ b.toNat < 16) ∨ 74 < b.toNat := by
      rcases hb with rfl | ⟨h1, h2⟩ | h3
      · exact Or.inl rfl
      · rw [UInt8.lt_iff_toNat_lt] at h1 h2; rw [e5] at h1; rw [e16] at h2; exact Or.inr (Or.inl ⟨h1, h2⟩)
      · rw [UInt8.lt_iff_toNat_lt, e74] at h3; exact Or.inr (Or.inr h3)
    apply driveLoop_bad <;> simp only [syncLoop] <;> omega
  have := parseFlat_core v o i (serGroups gs ++ b :: r) (1 + k) (by rw [hbad]; simp)
  rw [hbad] at this
  exact this

end Ipp
