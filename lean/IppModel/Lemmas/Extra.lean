/-
  Further theorems that widen what the model covers.  Proofs: Lemmas/AddHistory.lean, Lemmas/UnserSer.lean.
-/
import IppModel.Spec.Container
import IppModel.Spec.Unser
import IppModel.Lemmas.Refine
import IppModel.Lemmas.Container
import IppModel.Lemmas.AddHistory
import IppModel.Lemmas.UnserSer
namespace Ipp
open Gen Spec

/-- C19, general form: a history of additions from *any* start state (e.g. a parsed message with repeated
    groups) yields exactly the declaratively specified message -/
theorem addAll_eq_history (gs : List Group) (ops : List AddOp) :
    ops.foldl (fun g o => addAttr o.1 o.2.1 o.2.2 g) gs = addHistory gs ops := by
  have := AddHist.foldl_addHistory gs [] ops
  rwa [AddHist.addHistory_nil, List.nil_append] at this

/-- C03's independent decoder is right and the grammar is unambiguous: reading back the serialisation of a
    well-formed wire tree returns that tree and the trailing data -/
theorem unser_ser (w : WMsg) (p : Bytes) (h : wfWire w = true) : unser (ser w ++ p) = some (w, p) :=
  UnserSer.unser_ser w p h

end Ipp
