/-
  Framing: the byte loop over serialised tokens equals the token-level run of the machine;
  fuel monotonicity of the drive loop.
-/
import IppModel.Lemmas.FlatRd
import IppModel.Spec.Wire
namespace Ipp
open Gen Spec

variable {ρ σ : Type}

/-- token-level run of a machine: feed the value tokens one after the other -/
def runToks (m : Machine σ) : List Tok → σ → Outcome σ
  | [], st => .ok st
  | t :: ts, st => (m.value st t.tag t.name t.body).bind (runToks m ts)

theorem runToks_append (m : Machine σ) (a b : List Tok) (st : σ) :
    runToks m (a ++ b) st = (runToks m a st).bind (runToks m b) := by
  induction a generalizing st with
  | nil => simp [runToks, Outcome.bind]
  | cons t ts ih =>
    simp only [List.cons_append, runToks]
    cases m.value st t.tag t.name t.body <;> simp [Outcome.bind, ih]

/-- the token is read as a value token by a loop with dispatch `cfg`, and its length fields fit -/
def tokOk (cfg : LoopCfg) (t : Tok) : Bool :=
  decide (cfg.valueLo ≤ t.tag.toNat) && decide (t.tag.toNat ≤ cfg.valueHi) &&
  !(decide (cfg.delimLo ≤ t.tag.toNat) && decide (t.tag.toNat ≤ cfg.delimHi)) &&
  decide (t.name.length < 65536) && decide (t.body.length < 65536)

/-- framing: running the byte loop over serialised tokens = running the token machine -/
theorem driveLoop_toks (cfg : LoopCfg) (m : Machine σ) (ts : List Tok) (hwf : ts.all (tokOk cfg) = true)
    (rest : Bytes) (st st' : σ) (h : runToks m ts st = .ok st') (fuel : Nat) :
    driveLoop flatRd cfg m (fuel + ts.length) (toksBytes ts ++ rest) st = driveLoop flatRd cfg m fuel rest st' := by
  induction ts generalizing st with
  | nil => simp [runToks] at h; subst h; simp [toksBytes]
  | cons t ts ih =>
    simp only [List.all_cons, Bool.and_eq_true] at hwf
    obtain ⟨ht, hts⟩ := hwf
    simp only [tokOk, Bool.and_eq_true, decide_eq_true_eq, Bool.not_eq_true', Bool.and_eq_false_iff,
      decide_eq_false_iff_not] at ht
    obtain ⟨⟨⟨⟨h1, h2⟩, h3⟩, h4⟩, h5⟩ := ht
    simp only [runToks] at h
    cases hv : m.value st t.tag t.name t.body with
    | err e => simp [hv, Outcome.bind] at h
    | panic => simp [hv, Outcome.bind] at h
    | outOfFuel => simp [hv, Outcome.bind] at h
    | ok s1 =>
      simp only [hv, Outcome.bind] at h
      have := ih hts s1 h
      rw [show fuel + (t :: ts).length = (fuel + ts.length) + 1 by simp; omega]
      have hnd : ¬ (cfg.delimLo ≤ t.tag.toNat ∧ t.tag.toNat ≤ cfg.delimHi) := by
        intro ⟨a, b⟩; rcases h3 with h3 | h3 <;> omega
      simp only [driveLoop, toksBytes, tokBytes, List.cons_append, rdU8_flat, List.append_assoc,
        hnd, if_false, h1, h2, and_self, if_true, rdLV_flat _ _ h4, rdLV_flat _ _ h5, hv]
      exact this

/-- more fuel does not change a run that did not exhaust its fuel -/
theorem driveLoop_fuel_mono (rd : Reader ρ) (cfg : LoopCfg) (m : Machine σ) (f k : Nat) (r : ρ) (st : σ)
    (h : driveLoop rd cfg m f r st ≠ .outOfFuel) :
    driveLoop rd cfg m (f + k) r st = driveLoop rd cfg m f r st := by
  induction f generalizing r st with
  | zero => simp [driveLoop] at h
  | succ n ih =>
    rw [show n + 1 + k = (n + k) + 1 by omega]
    unfold driveLoop at h ⊢
    cases h0 : rdU8 rd r with
    | err e => rfl
    | panic => rfl
    | outOfFuel => rfl
    | ok p =>
      obtain ⟨tag, r1⟩ := p
      simp only [h0] at h ⊢
      split
      · rename_i hd
        simp only [hd] at h
        cases hdl : m.delim st tag with
        | error e => rfl
        | ok q =>
          obtain ⟨st', code⟩ := q
          simp only [hdl] at h ⊢
          split
          · rfl
          · rename_i hc
            simp only [hc, if_false] at h
            exact ih r1 st' h
      · rename_i hd
        simp only [hd, if_false] at h
        split
        · rename_i hvr
          simp only [hvr] at h
          cases h1 : rdLV rd r1 with
          | err e => rfl
          | panic => rfl
          | outOfFuel => rfl
          | ok q =>
            obtain ⟨name, r2⟩ := q
            simp only [h1] at h ⊢
            cases h2 : rdLV rd r2 with
            | err e => rfl
            | panic => rfl
            | outOfFuel => rfl
            | ok q' =>
              obtain ⟨body, r3⟩ := q'
              simp only [h2] at h ⊢
              cases h3 : m.value st tag name body with
              | err e => rfl
              | panic => rfl
              | outOfFuel => rfl
              | ok st' =>
                simp only [h3] at h ⊢
                exact ih r3 st' h
        · rfl

/-- a result obtained with some fuel is the result for any fuel that is not exhausted -/
theorem driveLoop_fuel_transfer (rd : Reader ρ) (cfg : LoopCfg) (m : Machine σ) (f f' : Nat) (r : ρ) (st : σ)
    (h : driveLoop rd cfg m f r st ≠ .outOfFuel) (h' : driveLoop rd cfg m f' r st ≠ .outOfFuel) :
    driveLoop rd cfg m f' r st = driveLoop rd cfg m f r st := by
  rw [← driveLoop_fuel_mono rd cfg m f f' r st h, ← driveLoop_fuel_mono rd cfg m f' f r st h', Nat.add_comm]

/-- on the flat reader, fuel exceeding the input length is never exhausted -/
theorem driveLoop_flat_fuel (cfg : LoopCfg) (fuel : Nat) (bs : Bytes) (st : PState) (h : bs.length < fuel) :
    driveLoop flatRd cfg pMachine fuel bs st ≠ .outOfFuel := by
  have := driveLoop_safe flatRd List.length flatRd_laws cfg pMachine pMachine_value_safe fuel bs st h
  intro hc
  simp [hc, Outcome.safe] at this

end Ipp
