/-
  Exact consumption on the flat reader: a successful run splits its input into the consumed part and
  the untouched rest; on the consumed part followed by anything else it gives the same result, and on
  every proper prefix of the consumed part it fails with the end-of-input error of the reader.
-/
import IppModel.Lemmas.Framing
import IppModel.Lemmas.Sim
namespace Ipp
open Gen

variable {σ α : Type}

/-! ### single reads -/

theorem cut_read_app (e : IoKind) (a x : Bytes) (n : Nat) (h : a.length = n) :
    (cutRd e).readExact n (a ++ x) = .ok (a, x) := by
  subst h; simp [cutRd]

theorem cut_read_short (e : IoKind) (l : Bytes) (n : Nat) (h : l.length < n) :
    (cutRd e).readExact n l = .error e := by
  simp only [cutRd, if_neg (Nat.not_le.mpr h)]

theorem flat_read_inv (n : Nat) (bs a r : Bytes) (h : flatRd.readExact n bs = .ok (a, r)) :
    bs = a ++ r ∧ a.length = n := by
  simp only [flatRd] at h
  split at h
  · simp only [Except.ok.injEq, Prod.mk.injEq] at h
    obtain ⟨rfl, rfl⟩ := h
    refine ⟨(List.take_append_drop n bs).symm, ?_⟩
    simp only [List.length_take]; omega
  · cases h

theorem rdU8_cut_cons (e : IoKind) (b : UInt8) (r : Bytes) : rdU8 (cutRd e) (b :: r) = .ok (b, r) := by
  simp [rdU8, cutRd]

theorem rdU8_cut_nil (e : IoKind) : rdU8 (cutRd e) [] = .err (.io e) := by
  simp [rdU8, cutRd]

theorem rdU8_flat_inv (bs : Bytes) (b : UInt8) (r : Bytes) (h : rdU8 flatRd bs = .ok (b, r)) : bs = b :: r := by
  cases bs with
  | nil => simp [rdU8, flatRd] at h
  | cons c t =>
    rw [rdU8_flat] at h
    simp only [Outcome.ok.injEq, Prod.mk.injEq] at h
    rw [h.1, h.2]

theorem rdU16_cut (e : IoKind) (a b : UInt8) (r : Bytes) : rdU16 (cutRd e) (a :: b :: r) = .ok (unbe16 a b, r) := by
  simp [rdU16, cutRd]

theorem rdU32_cut (e : IoKind) (a b c d : UInt8) (r : Bytes) :
    rdU32 (cutRd e) (a :: b :: c :: d :: r) = .ok (unbe32 a b c d, r) := by
  simp [rdU32, cutRd]

/-- `f` run on `bs` consumed exactly a prefix `pre`, produced `a` and left `rest` -/
def Consumes (f : Reader Bytes → Bytes → Outcome (α × Bytes)) (bs : Bytes) (a : α) (rest : Bytes) : Prop :=
  ∃ pre, bs = pre ++ rest ∧ (∀ e rest', f (cutRd e) (pre ++ rest') = .ok (a, rest')) ∧
    (∀ e k, k < pre.length → f (cutRd e) (pre.take k) = .err (.io e))

theorem rdLV_consumes (bs x r : Bytes) (h : rdLV flatRd bs = .ok (x, r)) : Consumes rdLV bs x r := by
  rcases bs with _ | ⟨a, _ | ⟨b, t⟩⟩
  · simp [rdLV, rdU16, flatRd] at h
  · simp [rdLV, rdU16, flatRd] at h
  · simp only [rdLV, rdU16_flat] at h
    cases hr : flatRd.readExact (unbe16 a b) t with
    | error k => simp [hr] at h
    | ok p =>
      obtain ⟨x', r'⟩ := p
      simp only [hr, Outcome.ok.injEq, Prod.mk.injEq] at h
      obtain ⟨rfl, rfl⟩ := h
      obtain ⟨rfl, hl⟩ := flat_read_inv _ _ _ _ hr
      refine ⟨a :: b :: x', rfl, ?_, ?_⟩
      · intro e rest'
        simp only [rdLV, List.cons_append, rdU16_cut, cut_read_app e x' rest' _ hl]
      · intro e k hk
        simp only [List.length_cons] at hk
        rcases k with _ | _ | k
        · simp [rdLV, rdU16, cutRd]
        · simp [rdLV, rdU16, cutRd]
        · simp only [List.take_succ_cons, rdLV, rdU16_cut]
          rw [cut_read_short e _ _ (by simp only [List.length_take]; omega)]

theorem rdHeader_consumes (bs : Bytes) (hd : Header) (r : Bytes) (h : rdHeader flatRd bs = .ok (hd, r)) :
    Consumes rdHeader bs hd r := by
  rcases bs with _ | ⟨a, _ | ⟨b, _ | ⟨c, _ | ⟨d, _ | ⟨e', _ | ⟨f, _ | ⟨g, _ | ⟨i, t⟩⟩⟩⟩⟩⟩⟩⟩
  · simp [rdHeader, rdU16, flatRd] at h
  · simp [rdHeader, rdU16, flatRd] at h
  · simp [rdHeader, rdU16, flatRd] at h
  · simp [rdHeader, rdU16, flatRd] at h
  · simp [rdHeader, rdU16, rdU32, flatRd] at h
  · simp [rdHeader, rdU16, rdU32, flatRd] at h
  · simp [rdHeader, rdU16, rdU32, flatRd] at h
  · simp [rdHeader, rdU16, rdU32, flatRd] at h
  · simp only [rdHeader, rdU16_flat, rdU32_flat, Outcome.ok.injEq, Prod.mk.injEq] at h
    obtain ⟨rfl, rfl⟩ := h
    refine ⟨[a, b, c, d, e', f, g, i], rfl, ?_, ?_⟩
    · intro e rest'
      simp only [rdHeader, List.cons_append, List.nil_append, rdU16_cut, rdU32_cut]
    · intro e k hk
      simp only [List.length_cons, List.length_nil] at hk
      rcases k with _ | _ | _ | _ | _ | _ | _ | _ | k
      all_goals first
        | omega
        | simp [rdHeader, rdU16, rdU32, cutRd]

/-! ### the loop -/

/-- A successful loop run on the flat reader: the consumed part ends with the tag `T` that closes the
    loop; the same result on the consumed part followed by anything; the reader's end-of-input error on
    every proper prefix of the consumed part. -/
theorem driveLoop_consumes (cfg : LoopCfg) (m : Machine σ) (T : UInt8)
    (hT : ∀ st tag st', m.delim st tag = .ok (st', cfg.endTag) → tag = T) (fuel : Nat) :
    ∀ (bs : Bytes) (st st' : σ) (rest : Bytes), driveLoop flatRd cfg m fuel bs st = .ok (st', rest) →
      ∃ pre, bs = pre ++ rest ∧ pre.getLast? = some T ∧
        (∀ e rest', driveLoop (cutRd e) cfg m fuel (pre ++ rest') st = .ok (st', rest')) ∧
        (∀ e k, k < pre.length → driveLoop (cutRd e) cfg m fuel (pre.take k) st = .err (.io e)) := by
  induction fuel with
  | zero => intro bs st st' rest h; simp [driveLoop] at h
  | succ f ih =>
    intro bs st st' rest h
    simp only [driveLoop] at h
    cases h0 : rdU8 flatRd bs with
    | err e => simp [h0] at h
    | panic => simp [h0] at h
    | outOfFuel => simp [h0] at h
    | ok p =>
      obtain ⟨tag, r1⟩ := p
      have hbs := rdU8_flat_inv _ _ _ h0
      subst hbs
      simp only [h0] at h
      by_cases hd : cfg.delimLo ≤ tag.toNat ∧ tag.toNat ≤ cfg.delimHi
      · simp only [if_pos hd] at h
        cases hdl : m.delim st tag with
        | error e => simp [hdl] at h
        | ok q =>
          obtain ⟨st1, code⟩ := q
          simp only [hdl] at h
          by_cases hc : code = cfg.endTag
          · simp only [if_pos hc, Outcome.ok.injEq, Prod.mk.injEq] at h
            obtain ⟨rfl, rfl⟩ := h
            subst hc
            refine ⟨[tag], rfl, ?_, ?_, ?_⟩
            · rw [hT _ _ _ hdl]; rfl
            · intro e rest'
              simp only [driveLoop, List.cons_append, List.nil_append, rdU8_cut_cons, if_pos hd, hdl, if_true]
            · intro e k hk
              have : k = 0 := by simpa using hk
              subst this
              simp only [List.take_zero, driveLoop, rdU8_cut_nil]
          · simp only [if_neg hc] at h
            obtain ⟨pre, rfl, hl, hex, hpre⟩ := ih _ _ _ _ h
            refine ⟨tag :: pre, rfl, ?_, ?_, ?_⟩
            · rw [List.getLast?_cons, hl]; rfl
            · intro e rest'
              simp only [driveLoop, List.cons_append, rdU8_cut_cons, if_pos hd, hdl, if_neg hc]
              exact hex e rest'
            · intro e k hk
              cases k with
              | zero => simp only [List.take_zero, driveLoop, rdU8_cut_nil]
              | succ k =>
                simp only [List.take_succ_cons, driveLoop, rdU8_cut_cons, if_pos hd, hdl, if_neg hc]
                exact hpre e k (by simpa using hk)
      · simp only [if_neg hd] at h
        by_cases hv : cfg.valueLo ≤ tag.toNat ∧ tag.toNat ≤ cfg.valueHi
        · simp only [if_pos hv] at h
          cases h1 : rdLV flatRd r1 with
          | err e => simp [h1] at h
          | panic => simp [h1] at h
          | outOfFuel => simp [h1] at h
          | ok q =>
            obtain ⟨name, r2⟩ := q
            simp only [h1] at h
            cases h2 : rdLV flatRd r2 with
            | err e => simp [h2] at h
            | panic => simp [h2] at h
            | outOfFuel => simp [h2] at h
            | ok q' =>
              obtain ⟨body, r3⟩ := q'
              simp only [h2] at h
              cases h3 : m.value st tag name body with
              | err e => simp [h3] at h
              | panic => simp [h3] at h
              | outOfFuel => simp [h3] at h
              | ok st1 =>
                simp only [h3] at h
                obtain ⟨p1, rfl, ex1, pr1⟩ := rdLV_consumes _ _ _ h1
                obtain ⟨p2, rfl, ex2, pr2⟩ := rdLV_consumes _ _ _ h2
                obtain ⟨p3, rfl, hl, ex3, pr3⟩ := ih _ _ _ _ h
                refine ⟨tag :: (p1 ++ (p2 ++ p3)), by simp only [List.cons_append, List.append_assoc], ?_, ?_, ?_⟩
                · rw [List.getLast?_cons, List.getLast?_append, List.getLast?_append, hl]; rfl
                · intro e rest'
                  simp only [driveLoop, List.cons_append, List.append_assoc, rdU8_cut_cons, if_neg hd, if_pos hv,
                    ex1, ex2, h3]
                  exact ex3 e rest'
                · intro e k hk
                  cases k with
                  | zero => simp only [List.take_zero, driveLoop, rdU8_cut_nil]
                  | succ k =>
                    simp only [List.length_cons, List.length_append] at hk
                    simp only [List.take_succ_cons, driveLoop, rdU8_cut_cons, if_neg hd, if_pos hv]
                    by_cases k1 : k < p1.length
                    · rw [List.take_append_of_le_length (Nat.le_of_lt k1), pr1 e k k1]
                    · rw [List.take_append, List.take_of_length_le (Nat.not_lt.mp k1), ex1]
                      simp only []
                      by_cases k2 : k - p1.length < p2.length
                      · rw [List.take_append_of_le_length (Nat.le_of_lt k2), pr2 e _ k2]
                      · rw [List.take_append, List.take_of_length_le (Nat.not_lt.mp k2), ex2]
                        simp only [h3]
                        exact pr3 e _ (by omega)
        · simp only [if_neg hv] at h
          cases h

/-! ### the parser's machine closes the loop on tag 3 only -/

theorem fromCode_code (n : Nat) (t : DelimiterTag) (h : DelimiterTag.fromCode n = some t) : t.code = n := by
  have := List.find?_some h
  simpa using this

theorem pMachine_delim_end (st : PState) (tag : UInt8) (st' : PState)
    (h : pMachine.delim st tag = .ok (st', syncLoop.endTag)) : tag = 0x03 := by
  simp only [pMachine, PState.parseDelimiter] at h
  cases hfc : DelimiterTag.fromCode tag.toNat with
  | none => simp [hfc] at h
  | some t =>
    simp only [hfc, Except.ok.injEq, Prod.mk.injEq] at h
    have h1 := fromCode_code _ _ hfc
    have h2 : tag.toNat = (0x03 : UInt8).toNat := by
      rw [← h1, h.2]; decide
    exact UInt8.toNat_inj.mp h2

theorem driveLoop_cut_fuel (e : IoKind) (cfg : LoopCfg) (fuel : Nat) (bs : Bytes) (st : PState)
    (h : bs.length < fuel) : driveLoop (cutRd e) cfg pMachine fuel bs st ≠ .outOfFuel := by
  have := driveLoop_safe (cutRd e) List.length (cutRd_laws e) cfg pMachine pMachine_value_safe fuel bs st h
  intro hc
  simp [hc, Outcome.safe] at this

/-! ### the whole parser -/

theorem parseFlat_consumes (bs : Bytes) (r : Header × List Group) (rest : Bytes)
    (h : parseFlat bs = .ok (r, rest)) :
    ∃ pre, bs = pre ++ rest ∧ pre.getLast? = some 0x03 ∧
      (∀ e rest' fuel, (pre ++ rest').length < fuel → parseWith (cutRd e) syncLoop fuel (pre ++ rest') = .ok (r, rest')) ∧
      (∀ e k fuel, k < pre.length → k < fuel → parseWith (cutRd e) syncLoop fuel (pre.take k) = .err (.io e)) := by
  unfold parseFlat parseWith at h
  cases hh : rdHeader flatRd bs with
  | err e => simp [hh] at h
  | panic => simp [hh] at h
  | outOfFuel => simp [hh] at h
  | ok p =>
    obtain ⟨hd, r1⟩ := p
    simp only [hh] at h
    cases hl : driveLoop flatRd syncLoop pMachine (bs.length + 1) r1 PState.init with
    | err e => simp [hl] at h
    | panic => simp [hl] at h
    | outOfFuel => simp [hl] at h
    | ok q =>
      obtain ⟨st, r2⟩ := q
      simp only [hl, Outcome.ok.injEq, Prod.mk.injEq] at h
      obtain ⟨rfl, rfl⟩ := h
      obtain ⟨p0, rfl, ex0, pr0⟩ := rdHeader_consumes _ _ _ hh
      obtain ⟨p1, rfl, hlast, ex1, pr1⟩ :=
        driveLoop_consumes syncLoop pMachine 0x03 pMachine_delim_end _ _ _ _ _ hl
      refine ⟨p0 ++ p1, by simp only [List.append_assoc], ?_, ?_, ?_⟩
      · rw [List.getLast?_append, hlast]; rfl
      · intro e rest' fuel hf
        simp only [List.length_append] at hf
        have hx := ex1 e rest'
        unfold parseWith
        rw [List.append_assoc, ex0]
        simp only []
        rw [driveLoop_fuel_transfer (cutRd e) syncLoop pMachine _ fuel _ _ (by rw [hx]; simp)
          (driveLoop_cut_fuel e _ _ _ _ (by simp only [List.length_append]; omega)), hx]
      · intro e k fuel hk hf
        simp only [List.length_append] at hk
        unfold parseWith
        by_cases k0 : k < p0.length
        · rw [List.take_append_of_le_length (Nat.le_of_lt k0), pr0 e k k0]
        · rw [List.take_append, List.take_of_length_le (Nat.not_lt.mp k0), ex0]
          simp only []
          have hx := pr1 e (k - p0.length) (by omega)
          rw [driveLoop_fuel_transfer (cutRd e) syncLoop pMachine _ fuel _ _ (by rw [hx]; simp)
            (driveLoop_cut_fuel e _ _ _ _ (by simp only [List.length_take]; omega)), hx]

/-- every proper prefix of the consumed part is rejected with the reader's end-of-input error -/
theorem parseCut_prefix (bs : Bytes) (r : Header × List Group) (rest : Bytes) (h : parseFlat bs = .ok (r, rest))
    (k : Nat) (hk : k < bs.length - rest.length) (e : IoKind) (fuel : Nat) (hf : k < fuel) :
    parseWith (cutRd e) syncLoop fuel (bs.take k) = .err (.io e) := by
  obtain ⟨pre, rfl, _, _, hpre⟩ := parseFlat_consumes bs r rest h
  simp only [List.length_append, Nat.add_sub_cancel] at hk
  rw [List.take_append_of_le_length (Nat.le_of_lt hk)]
  exact hpre e k fuel hk hf

end Ipp
