/-
  Big-endian field round trips and small machine-integer facts.
-/
import IppModel.Model.Basic
namespace Ipp

theorem be16_length (n : Nat) : (be16 n).length = 2 := rfl
theorem be32_length (u : UInt32) : (be32 u).length = 4 := rfl

theorem unbe16_be16 (n : Nat) (h : n < 65536) : unbe16 (UInt8.ofNat (n / 256)) (UInt8.ofNat n) = n := by
  simp only [unbe16, UInt8.toNat_ofNat']
  omega

theorem unbe32_be32 (u : UInt32) :
    unbe32 (UInt8.ofNat (u.toNat / 16777216)) (UInt8.ofNat (u.toNat / 65536)) (UInt8.ofNat (u.toNat / 256))
      (UInt8.ofNat u.toNat) = u := by
  apply UInt32.toNat_inj.mp
  have := u.toNat_lt
  simp only [unbe32, UInt8.toNat_ofNat', UInt32.toNat_ofNat']
  omega

theorem u16_unbe16_be16 (y : UInt16) :
    UInt16.ofNat (unbe16 (UInt8.ofNat (y.toNat / 256)) (UInt8.ofNat y.toNat)) = y := by
  rw [unbe16_be16 _ y.toNat_lt]
  exact UInt16.ofNat_toNat

/-- the same round trips in `simp`'s normal form (`UInt8.ofNat u.toNat` is rewritten to `u.toUInt8`) -/
theorem unbe32_be32' (u : UInt32) :
    unbe32 (UInt8.ofNat (u.toNat / 16777216)) (UInt8.ofNat (u.toNat / 65536)) (UInt8.ofNat (u.toNat / 256))
      u.toUInt8 = u := unbe32_be32 u

theorem u16_unbe16_be16' (y : UInt16) :
    UInt16.ofNat (unbe16 (UInt8.ofNat (y.toNat / 256)) y.toUInt8) = y := u16_unbe16_be16 y

theorem u8_toNat_ofNat_lt (n : Nat) (h : n < 256) : (UInt8.ofNat n).toNat = n := by
  simp only [UInt8.toNat_ofNat']
  omega

end Ipp
