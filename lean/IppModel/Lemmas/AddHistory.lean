/-
  The general add-history theorem: folding `addAttr` over a history from any start state gives the
  declaratively specified `addHistory`.
-/
import IppModel.Spec.Container
import IppModel.Lemmas.Container
namespace Ipp.AddHist
open Ipp Ipp.Gen Ipp.Spec Ipp.SM0

theorem addsFor_snoc (t : DelimiterTag) (ops : List AddOp) (o : AddOp) :
    addsFor t (ops ++ [o]) = addsFor t ops ++ (if o.1 = t then [(o.2.1, o.2.2)] else []) := by
  simp only [addsFor, List.filter_append, List.map_append, List.filter_cons, List.filter_nil]
  by_cases h : o.1 = t <;> simp [h]

theorem addsFor_snoc_ne (t : DelimiterTag) (ops : List AddOp) (o : AddOp) (h : o.1 ≠ t) :
    addsFor t (ops ++ [o]) = addsFor t ops := by
  rw [addsFor_snoc]; simp [h]

/-! ### the existing groups -/

theorem existingAfter_snoc_of_before (before gs : List Group) (ops : List AddOp) (o : AddOp)
    (hb : before.any (fun x => x.tag = o.1) = true) :
    existingAfter before gs (ops ++ [o]) = existingAfter before gs ops := by
  induction gs generalizing before with
  | nil => simp [existingAfter]
  | cons g rest ih =>
    simp only [existingAfter]
    rw [ih (before ++ [g]) (by simp only [List.any_append, hb, Bool.true_or])]
    congr 1
    by_cases hg : o.1 = g.tag
    · rw [hg] at hb; simp only [hb, if_true]
    · rw [addsFor_snoc_ne _ _ _ hg]

theorem addAttr_existingAfter (before gs : List Group) (ops : List AddOp) (t : DelimiterTag) (n : Bytes)
    (v : Value) (tail : List Group) (hb : before.any (fun x => x.tag = t) = false) :
    addAttr t n v (existingAfter before gs ops ++ tail) =
      if gs.any (fun x => x.tag = t) then existingAfter before gs (ops ++ [(t, n, v)]) ++ tail
      else existingAfter before gs (ops ++ [(t, n, v)]) ++ addAttr t n v tail := by
  induction gs generalizing before with
  | nil => simp [existingAfter]
  | cons g rest ih =>
    by_cases hg : g.tag = t
    · subst hg
      have h1 := existingAfter_snoc_of_before (before ++ [g]) rest ops (g.tag, n, v)
        (by simp only [List.any_append, List.any_cons, decide_true, List.any_nil, Bool.or_false, Bool.or_true])
      simp only [existingAfter, hb, Bool.false_eq_true, if_false, List.cons_append, addAttr, if_true,
        List.any_cons, decide_true, Bool.true_or, h1]
      congr 2
      rw [addsFor_snoc, sinsertAll_append]
      simp [sinsertAll]
    · have hb2 : (before ++ [g]).any (fun x => decide (x.tag = t)) = false := by
        simp only [List.any_append, hb, List.any_cons, hg, decide_false, List.any_nil, Bool.or_false]
      have htag : (if before.any (fun x => decide (x.tag = g.tag)) = true then g
          else { g with attrs := sinsertAll (addsFor g.tag ops) g.attrs }).tag = g.tag := by
        split <;> rfl
      simp only [existingAfter, List.cons_append, addAttr, htag, hg, if_false, ih (before ++ [g]) hb2,
        List.any_cons, decide_false, Bool.false_or]
      rw [addsFor_snoc_ne g.tag ops (t, n, v) (fun e => hg e.symm)]
      cases hr : (rest.any fun x => decide (x.tag = t)) <;> simp only [Bool.false_eq_true, if_false, if_true]

theorem existingAfter_nil_ops (before gs : List Group) : existingAfter before gs [] = gs := by
  induction gs generalizing before with
  | nil => rfl
  | cons g rest ih =>
    simp only [existingAfter, ih, addsFor, List.filter_nil, List.map_nil, sinsertAll_nil]
    split <;> rfl

/-! ### the new kinds -/

def nkA (gs : List Group) (acc : List DelimiterTag) (ts : List DelimiterTag) : List DelimiterTag :=
  ts.foldl (fun acc t => if acc.contains t || gs.any (fun g => g.tag = t) then acc else acc ++ [t]) acc

theorem newKinds_eq (gs : List Group) (ops : List AddOp) : newKinds gs ops = nkA gs [] (ops.map (·.1)) := rfl

theorem nkA_nodup (gs : List Group) (acc ts : List DelimiterTag) (h : acc.Nodup) : (nkA gs acc ts).Nodup := by
  induction ts generalizing acc with
  | nil => exact h
  | cons t r ih =>
    simp only [nkA, List.foldl_cons]
    apply ih
    split
    · exact h
    · rename_i hc
      simp only [Bool.or_eq_true, not_or] at hc
      have : t ∉ acc := by simpa using hc.1
      rw [List.nodup_append]
      refine ⟨h, by simp, ?_⟩
      intro a ha b hb
      simp at hb; subst hb
      exact fun e => this (e ▸ ha)

theorem mem_nkA (gs : List Group) (acc ts : List DelimiterTag) (t : DelimiterTag) :
    t ∈ nkA gs acc ts ↔ t ∈ acc ∨ (t ∈ ts ∧ gs.any (fun g => g.tag = t) = false) := by
  induction ts generalizing acc with
  | nil => simp [nkA]
  | cons x r ih =>
    simp only [nkA, List.foldl_cons] at ih ⊢
    rw [ih]
    split
    · rename_i hc
      simp only [Bool.or_eq_true] at hc
      simp only [List.mem_cons]
      constructor
      · rintro (h | h)
        · exact Or.inl h
        · exact Or.inr ⟨Or.inr h.1, h.2⟩
      · rintro (h | ⟨h | h, h2⟩)
        · exact Or.inl h
        · subst h
          rcases hc with hc | hc
          · exact Or.inl (by simpa using hc)
          · rw [hc] at h2; cases h2
        · exact Or.inr ⟨h, h2⟩
    · rename_i hc
      simp only [Bool.or_eq_true, not_or, Bool.not_eq_true] at hc
      simp only [List.mem_append, List.mem_cons, List.not_mem_nil, or_false]
      constructor
      · rintro ((h | h) | h)
        · exact Or.inl h
        · subst h; exact Or.inr ⟨Or.inl rfl, hc.2⟩
        · exact Or.inr ⟨Or.inr h.1, h.2⟩
      · rintro (h | ⟨h | h, h2⟩)
        · exact Or.inl (Or.inl h)
        · exact Or.inl (Or.inr h)
        · exact Or.inr ⟨h, h2⟩

theorem newKinds_snoc (gs : List Group) (ops : List AddOp) (o : AddOp) :
    newKinds gs (ops ++ [o]) =
      if (newKinds gs ops).contains o.1 || gs.any (fun g => g.tag = o.1) then newKinds gs ops
      else newKinds gs ops ++ [o.1] := by
  simp [newKinds, List.foldl_append]

theorem newKinds_nodup (gs : List Group) (ops : List AddOp) : (newKinds gs ops).Nodup :=
  nkA_nodup gs [] _ List.nodup_nil

theorem mem_newKinds (gs : List Group) (ops : List AddOp) (t : DelimiterTag) :
    t ∈ newKinds gs ops ↔ (t ∈ ops.map (·.1) ∧ gs.any (fun g => g.tag = t) = false) := by
  rw [newKinds_eq, mem_nkA]; simp

theorem addsFor_eq_nil (t : DelimiterTag) (ops : List AddOp) (h : t ∉ ops.map (·.1)) : addsFor t ops = [] := by
  simp only [addsFor, List.map_eq_nil_iff, List.filter_eq_nil_iff]
  intro o ho
  simp only [decide_eq_true_eq]
  intro e
  exact h (List.mem_map.mpr ⟨o, ho, e⟩)

/-! ### one step and the fold -/

theorem addHistory_step (gs : List Group) (ops : List AddOp) (o : AddOp) :
    addAttr o.1 o.2.1 o.2.2 (addHistory gs ops) = addHistory gs (ops ++ [o]) := by
  obtain ⟨t, n, v⟩ := o
  simp only [addHistory]
  rw [addAttr_existingAfter [] gs ops t n v _ (by simp), newKinds_snoc]
  by_cases hany : gs.any (fun x => decide (x.tag = t)) = true
  · simp only [hany, if_true, Bool.or_true]
    congr 1
    apply List.map_congr_left
    intro a ha
    have hne : t ≠ a := by
      intro e; subst e
      have := ((mem_newKinds gs ops t).mp ha).2
      rw [hany] at this; cases this
    rw [addsFor_snoc_ne a ops (t, n, v) hne]
  · have hany' : gs.any (fun x => decide (x.tag = t)) = false := by simpa using hany
    simp only [hany', Bool.false_eq_true, if_false, Bool.or_false]
    congr 1
    rw [Container.addAttr_map (fun t => ⟨t, sinsertAll (addsFor t ops) []⟩) (fun _ => rfl) t n v _
      (newKinds_nodup gs ops)]
    simp only [List.contains_iff_mem]
    split
    · apply List.map_congr_left
      intro a _
      rw [addsFor_snoc, sinsertAll_append]
      by_cases h : a = t
      · subst h; simp [sinsertAll]
      · simp [h, Ne.symm h, sinsertAll]
    · rename_i hn
      rw [List.map_append]
      congr 1
      · apply List.map_congr_left
        intro a ha
        have h : t ≠ a := fun e => hn (e ▸ ha)
        rw [addsFor_snoc_ne a ops (t, n, v) h]
      · have : addsFor t ops = [] := by
          apply addsFor_eq_nil
          intro hm
          exact hn ((mem_newKinds gs ops t).mpr ⟨hm, hany'⟩)
        simp [addsFor_snoc, this, sinsertAll, sinsert]

theorem addHistory_nil (gs : List Group) : addHistory gs [] = gs := by
  simp [addHistory, existingAfter_nil_ops, newKinds]

theorem foldl_addHistory (gs : List Group) (pre ops : List AddOp) :
    ops.foldl (fun g o => addAttr o.1 o.2.1 o.2.2 g) (addHistory gs pre) = addHistory gs (pre ++ ops) := by
  induction ops generalizing pre with
  | nil => simp
  | cons o r ih =>
    have := ih (pre ++ [o])
    simp only [List.foldl_cons, List.append_assoc, List.cons_append, List.nil_append] at this ⊢
    rw [addHistory_step]
    exact this

end Ipp.AddHist
