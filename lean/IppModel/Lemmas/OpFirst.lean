/-
  `opFirst`: what any list of groups becomes on the wire (first operation group in front, an empty one
  supplied when there is none).  The encoder only looks at `firstOp` and `restGroups`, so it cannot tell
  `L` from `opFirst L`; `opFirst` lands in the domain `wfMsg` of C01 / C03 and is the identity there.
-/
import IppModel.Lemmas.Encode
namespace Ipp
open Ipp Ipp.Gen Ipp.Spec

/-- the predicate `opFirst` searches with -/
abbrev opP : Group → Bool := fun g => g.tag == DelimiterTag.OperationAttributes

theorem isOpGroup_eq (g : Group) : isOpGroup g = opP g := by
  unfold isOpGroup opP
  cases h : g.tag <;> simp

theorem firstOp_eq_find (gs : List Group) : firstOp gs = gs.find? opP := by
  induction gs with
  | nil => rfl
  | cons g r ih =>
    simp only [firstOp, List.find?_cons, isOpGroup_eq, ih]
    cases opP g <;> simp

theorem restGroups_eq_eraseP (gs : List Group) : restGroups gs = gs.eraseP opP := by
  induction gs with
  | nil => rfl
  | cons g r ih =>
    simp only [restGroups, List.eraseP_cons, isOpGroup_eq, ih]
    cases opP g <;> simp

/-- the group `opFirst` puts in front -/
def opHead (gs : List Group) : Group := (gs.find? opP).getD ⟨.OperationAttributes, []⟩

theorem opFirst_eq (gs : List Group) : opFirst gs = opHead gs :: gs.eraseP opP := rfl

theorem opHead_tag (gs : List Group) : (opHead gs).tag = .OperationAttributes := by
  unfold opHead
  cases h : gs.find? opP with
  | none => rfl
  | some g =>
    have := List.find?_some h
    simpa [opP] using this

theorem firstOp_opFirst (gs : List Group) : firstOp (opFirst gs) = some (opHead gs) := by
  rw [opFirst_eq, firstOp, isOpGroup_eq]
  have : opP (opHead gs) = true := by simp [opP, opHead_tag]
  simp [this]

theorem restGroups_opFirst (gs : List Group) : restGroups (opFirst gs) = restGroups gs := by
  rw [opFirst_eq, restGroups, isOpGroup_eq]
  have : opP (opHead gs) = true := by simp [opP, opHead_tag]
  simp [this, restGroups_eq_eraseP]

theorem encHeaderAttrs_nil (hs : List Bytes) : encHeaderAttrs [] hs = [] := by
  induction hs with
  | nil => rfl
  | cons h r ih => simp [encHeaderAttrs, sget, ih]

theorem encAttributes_opFirst (L : List Group) : encAttributes (opFirst L) = encAttributes L := by
  unfold encAttributes
  rw [firstOp_opFirst, restGroups_opFirst, firstOp_eq_find]
  unfold opHead
  cases h : L.find? opP with
  | some g => rfl
  | none => simp [encHeaderAttrs_nil, encNonHeaderAttrs]

/-- the encoder cannot tell a listing from the same listing with its operation group in front -/
theorem encodeMsg_opFirst (h : Header) (L : List Group) : encodeMsg h (opFirst L) = encodeMsg h L := by
  unfold encodeMsg
  rw [encAttributes_opFirst]

/-- on the constructors' shape `opFirst` changes nothing -/
theorem opFirst_of_wfMsg (gs : List Group) (hwf : wfMsg gs = true) : opFirst gs = gs := by
  cases gs with
  | nil => simp [wfMsg] at hwf
  | cons g r =>
    have hg : opP g = true := by
      simp only [wfMsg, Bool.and_eq_true] at hwf
      exact hwf.1
    simp [opFirst, hg]

theorem all_eraseP {p q : Group → Bool} (gs : List Group) (h : gs.all q = true) : (gs.eraseP p).all q = true := by
  rw [List.all_eq_true] at h ⊢
  intro x hx
  exact h x (List.mem_of_mem_eraseP hx)

theorem wfGroupC_opHead (gs : List Group) (hwf : gs.all wfGroupC = true) : wfGroupC (opHead gs) = true := by
  unfold opHead
  cases h : gs.find? opP with
  | none => decide
  | some g =>
    rw [List.all_eq_true] at hwf
    exact hwf g (List.mem_of_find?_eq_some h)

/-- `opFirst` lands in the domain of C01 / C03 -/
theorem wfMsg_opFirst (gs : List Group) (hwf : gs.all wfGroupC = true) : wfMsg (opFirst gs) = true := by
  rw [opFirst_eq]
  simp only [wfMsg, List.all_cons, Bool.and_eq_true]
  refine ⟨?_, wfGroupC_opHead gs hwf, all_eraseP gs hwf⟩
  simp [opHead_tag]

theorem listing_opP {g l : Group} (h : l.tag = g.tag) : opP l = opP g := by
  simp [opP, h]

theorem listing_eraseP : ∀ (gs L : List Group), ListingOf gs L → ListingOf (gs.eraseP opP) (L.eraseP opP)
  | [], [], _ => trivial
  | [], _ :: _, h => h.elim
  | _ :: _, [], h => h.elim
  | g :: gs, l :: ls, h => by
    obtain ⟨ht, hp, hr⟩ := h
    rw [List.eraseP_cons, List.eraseP_cons, listing_opP ht]
    cases opP g with
    | true => exact hr
    | false => exact ⟨ht, hp, listing_eraseP gs ls hr⟩

theorem listing_opHead : ∀ (gs L : List Group), ListingOf gs L →
    (opHead L).tag = (opHead gs).tag ∧ (opHead L).attrs.Perm (opHead gs).attrs
  | [], [], _ => ⟨rfl, List.Perm.refl _⟩
  | [], _ :: _, h => h.elim
  | _ :: _, [], h => h.elim
  | g :: gs, l :: ls, h => by
    obtain ⟨ht, hp, hr⟩ := h
    unfold opHead
    rw [List.find?_cons, List.find?_cons, listing_opP ht]
    cases opP g with
    | true => exact ⟨ht, hp⟩
    | false => exact listing_opHead gs ls hr

/-- tags agree position-wise, so the first operation group sits at the same index in both -/
theorem listing_opFirst (gs L : List Group) (hL : ListingOf gs L) : ListingOf (opFirst gs) (opFirst L) := by
  rw [opFirst_eq, opFirst_eq]
  exact ⟨(listing_opHead gs L hL).1, (listing_opHead gs L hL).2, listing_eraseP gs L hL⟩

/-- "nothing else changes": when the message has an operation group, `opFirst` only reorders -/
theorem opFirst_perm : ∀ (gs : List Group), gs.any opP = true → (opFirst gs).Perm gs := by
  intro gs h
  rw [opFirst_eq]
  induction gs with
  | nil => simp at h
  | cons g r ih =>
    unfold opHead
    rw [List.find?_cons, List.eraseP_cons]
    cases hg : opP g with
    | true => simp
    | false =>
      have hr : r.any opP = true := by simpa [List.any_cons, hg] using h
      have ih' := ih hr
      unfold opHead at ih'
      simp only [Bool.false_eq_true, ↓reduceIte]
      exact (List.Perm.swap _ _ _).trans (List.Perm.cons g ih')

/-- …and when it has none, an empty operation group is put in front of the unchanged list -/
theorem opFirst_none (gs : List Group) (h : gs.any opP = false) :
    opFirst gs = ⟨.OperationAttributes, []⟩ :: gs := by
  rw [opFirst_eq]
  have hf : gs.find? opP = none := by
    rw [List.find?_eq_none]; intro x hx hp
    have : gs.any opP = true := List.any_eq_true.mpr ⟨x, hx, hp⟩
    rw [h] at this; cases this
  have he : gs.eraseP opP = gs := by
    apply List.eraseP_of_forall_not
    intro x hx hp
    have : gs.any opP = true := List.any_eq_true.mpr ⟨x, hx, hp⟩
    rw [h] at this; cases this
  unfold opHead
  rw [hf, he]; rfl

end Ipp
