/-
  Sorted association lists: `blt` is a strict total order, `sinsert` keeps `sortedB`, lookups after
  insertion, extensionality of sorted lists, and re-insertion of a listing of a sorted list.
-/
import IppModel.Model.SMap
namespace Ipp

theorem blt_irrefl (a : Bytes) : blt a a = false := by
  induction a with
  | nil => rfl
  | cons x xs ih => simp [blt, ih]

theorem blt_trans {a b c : Bytes} (h1 : blt a b = true) (h2 : blt b c = true) : blt a c = true := by
  induction a generalizing b c with
  | nil => cases b <;> cases c <;> simp_all [blt]
  | cons x xs ih =>
    cases b with
    | nil => simp [blt] at h1
    | cons y ys =>
      cases c with
      | nil => simp [blt] at h2
      | cons z zs =>
        simp only [blt, Bool.or_eq_true, decide_eq_true_eq, Bool.and_eq_true, beq_iff_eq] at *
        rcases h1 with h1 | ⟨rfl, h1⟩ <;> rcases h2 with h2 | ⟨rfl, h2⟩
        · left; exact UInt8.lt_trans h1 h2
        · left; exact h1
        · left; exact h2
        · right; exact ⟨rfl, ih h1 h2⟩

theorem blt_total (a b : Bytes) : blt a b = true ∨ a = b ∨ blt b a = true := by
  induction a generalizing b with
  | nil => cases b <;> simp [blt]
  | cons x xs ih =>
    cases b with
    | nil => simp [blt]
    | cons y ys =>
      simp only [blt, Bool.or_eq_true, decide_eq_true_eq, Bool.and_eq_true, beq_iff_eq, List.cons.injEq]
      have tri : x < y ∨ x = y ∨ y < x := by
        rcases Nat.lt_trichotomy x.toNat y.toNat with h | h | h
        · exact Or.inl (UInt8.lt_iff_toNat_lt.mpr h)
        · exact Or.inr (Or.inl (UInt8.toNat_inj.mp h))
        · exact Or.inr (Or.inr (UInt8.lt_iff_toNat_lt.mpr h))
      rcases tri with h | rfl | h
      · left; left; exact h
      · rcases ih ys with h | rfl | h
        · left; right; exact ⟨rfl, h⟩
        · right; left; exact ⟨rfl, rfl⟩
        · right; right; right; exact ⟨rfl, h⟩
      · right; right; left; exact h

theorem blt_asymm {a b : Bytes} (h : blt a b = true) : blt b a = false := by
  cases h' : blt b a with
  | false => rfl
  | true => have := blt_trans h h'; simp [blt_irrefl] at this

theorem blt_ne {a b : Bytes} (h : blt a b = true) : a ≠ b := by
  intro e; subst e; simp [blt_irrefl] at h

variable {α : Type}

/-- `k` is below the first key of the list -/
def lb (k : Bytes) : List (Bytes × α) → Prop
  | [] => True
  | (a, _) :: _ => blt k a = true

theorem sortedB_tail {p : Bytes × α} {l} (h : sortedB (p :: l) = true) : sortedB l = true := by
  cases l with
  | nil => rfl
  | cons q r =>
    obtain ⟨a, va⟩ := p; obtain ⟨b, vb⟩ := q
    simp only [sortedB, Bool.and_eq_true] at h; exact h.2

theorem sortedB_cons {k : Bytes} {v : α} {l} (h1 : lb k l) (h2 : sortedB l = true) :
    sortedB ((k, v) :: l) = true := by
  cases l with
  | nil => rfl
  | cons q r =>
    obtain ⟨b, vb⟩ := q
    simp only [sortedB, Bool.and_eq_true]; exact ⟨h1, h2⟩

theorem sortedB_lb {k : Bytes} {v : α} {l} (h : sortedB ((k, v) :: l) = true) : lb k l := by
  cases l with
  | nil => trivial
  | cons q r =>
    obtain ⟨b, vb⟩ := q
    simp only [sortedB, Bool.and_eq_true] at h; exact h.1

theorem lb_trans {j k : Bytes} {l : List (Bytes × α)} (h : blt j k = true) (hl : lb k l) : lb j l := by
  cases l with
  | nil => trivial
  | cons q r => obtain ⟨b, vb⟩ := q; exact blt_trans h hl

theorem sinsert_sorted_aux (k : Bytes) (v : α) (l : List (Bytes × α)) (h : sortedB l = true) :
    sortedB (sinsert k v l) = true ∧ (∀ j, blt j k = true → lb j l → lb j (sinsert k v l)) := by
  induction l with
  | nil => exact ⟨rfl, fun j hj _ => hj⟩
  | cons p r ih =>
    obtain ⟨k', v'⟩ := p
    simp only [sinsert]
    split
    · rename_i hlt
      exact ⟨sortedB_cons hlt h, fun j hj _ => hj⟩
    · split
      · rename_i hnl heq
        subst heq
        exact ⟨sortedB_cons (sortedB_lb h) (sortedB_tail h), fun j hj _ => hj⟩
      · rename_i hnl hne
        have hgt : blt k' k = true := by
          rcases blt_total k k' with h1 | h1 | h1
          · simp [h1] at hnl
          · exact absurd h1 hne
          · exact h1
        obtain ⟨ih1, ih2⟩ := ih (sortedB_tail h)
        exact ⟨sortedB_cons (ih2 k' hgt (sortedB_lb h)) ih1, fun j _ hl => hl⟩

/-- `sinsert` keeps the list strictly sorted -/
theorem sinsert_sorted (k : Bytes) (v : α) (l : List (Bytes × α)) (h : sortedB l = true) :
    sortedB (sinsert k v l) = true := (sinsert_sorted_aux k v l h).1

theorem sget_sinsert (k j : Bytes) (v : α) (l : List (Bytes × α)) :
    sget j (sinsert k v l) = if j = k then some v else sget j l := by
  induction l with
  | nil => simp [sinsert, sget]
  | cons p r ih =>
    obtain ⟨k', v'⟩ := p
    simp only [sinsert]
    split
    · simp [sget]
    · split
      · rename_i _ heq; subst heq; simp only [sget]; split <;> rfl
      · rename_i _ hne
        simp only [sget, ih]
        by_cases h1 : j = k'
        · subst h1; simp [Ne.symm hne]
        · simp [h1]

theorem sget_none_of_lb {k : Bytes} {l : List (Bytes × α)} (hs : sortedB l = true) (h : lb k l) :
    sget k l = none := by
  induction l generalizing k with
  | nil => rfl
  | cons p r ih =>
    obtain ⟨a, va⟩ := p
    simp only [sget]
    have hne : k ≠ a := blt_ne h
    simp only [hne, if_false]
    exact ih (sortedB_tail hs) (lb_trans h (sortedB_lb hs))

/-- extensionality: sorted lists with equal lookups are equal -/
theorem sorted_ext (l1 l2 : List (Bytes × α)) (h1 : sortedB l1 = true) (h2 : sortedB l2 = true)
    (h : ∀ k, sget k l1 = sget k l2) : l1 = l2 := by
  induction l1 generalizing l2 with
  | nil =>
    cases l2 with
    | nil => rfl
    | cons q r => obtain ⟨b, vb⟩ := q; have := h b; simp [sget] at this
  | cons p r ih =>
    obtain ⟨a, va⟩ := p
    cases l2 with
    | nil => have := h a; simp [sget] at this
    | cons q r2 =>
      obtain ⟨b, vb⟩ := q
      have hab : a = b := by
        rcases blt_total a b with hlt | heq | hgt
        · have e := h a
          simp only [sget, if_true] at e
          have hne : a ≠ b := blt_ne hlt
          simp only [hne, if_false] at e
          rw [sget_none_of_lb (sortedB_tail h2) (lb_trans hlt (sortedB_lb h2))] at e
          cases e
        · exact heq
        · have e := h b
          simp only [sget, if_true] at e
          have hne : b ≠ a := blt_ne hgt
          simp only [hne, if_false] at e
          rw [sget_none_of_lb (sortedB_tail h1) (lb_trans hgt (sortedB_lb h1))] at e
          cases e
      subst hab
      have hv : va = vb := by have := h a; simpa [sget] using this
      subst hv
      congr 1
      apply ih _ (sortedB_tail h1) (sortedB_tail h2)
      intro k
      have e := h k
      simp only [sget] at e
      by_cases hk : k = a
      · subst hk
        rw [sget_none_of_lb (sortedB_tail h1) (sortedB_lb h1), sget_none_of_lb (sortedB_tail h2) (sortedB_lb h2)]
      · simpa [hk] using e

/-! ### functional lists, membership and lookup -/

/-- every key has at most one value in the list -/
def KeyFn (l : List (Bytes × α)) : Prop := ∀ k v v', (k, v) ∈ l → (k, v') ∈ l → v = v'

theorem KeyFn_tail {p : Bytes × α} {l} (h : KeyFn (p :: l)) : KeyFn l :=
  fun k v v' h1 h2 => h k v v' (List.mem_cons_of_mem _ h1) (List.mem_cons_of_mem _ h2)

theorem KeyFn_of_mem {l l' : List (Bytes × α)} (h : KeyFn l) (hm : ∀ p, p ∈ l' → p ∈ l) : KeyFn l' :=
  fun k v v' h1 h2 => h k v v' (hm _ h1) (hm _ h2)

theorem sget_mem {k : Bytes} {v : α} {l : List (Bytes × α)} (h : sget k l = some v) : (k, v) ∈ l := by
  induction l with
  | nil => simp [sget] at h
  | cons p r ih =>
    obtain ⟨a, va⟩ := p
    simp only [sget] at h
    split at h
    · rename_i e; subst e; cases h; exact List.mem_cons_self
    · exact List.mem_cons_of_mem _ (ih h)

theorem sget_iff_mem {l : List (Bytes × α)} (hf : KeyFn l) (k : Bytes) (v : α) :
    sget k l = some v ↔ (k, v) ∈ l := by
  refine ⟨sget_mem, ?_⟩
  induction l with
  | nil => intro h; cases h
  | cons p r ih =>
    obtain ⟨a, va⟩ := p
    intro h
    simp only [sget]
    split
    · rename_i e; subst e
      rw [hf k v va h List.mem_cons_self]
    · rename_i hne
      rcases List.mem_cons.mp h with e | h'
      · cases e; exact absurd rfl hne
      · exact ih (KeyFn_tail hf) h'

theorem lb_not_mem {k : Bytes} {v : α} {l : List (Bytes × α)} (hs : sortedB l = true) (h : lb k l) :
    (k, v) ∉ l := by
  induction l generalizing k with
  | nil => intro hm; cases hm
  | cons p r ih =>
    obtain ⟨a, va⟩ := p
    intro hm
    rcases List.mem_cons.mp hm with e | h'
    · cases e; exact blt_ne h rfl
    · exact ih (sortedB_tail hs) (lb_trans h (sortedB_lb hs)) h'

/-- a strictly sorted list has unique keys -/
theorem sortedB_keyFn {l : List (Bytes × α)} (hs : sortedB l = true) : KeyFn l := by
  induction l with
  | nil => intro k v v' h; cases h
  | cons p r ih =>
    obtain ⟨a, va⟩ := p
    intro k v v' h1 h2
    rcases List.mem_cons.mp h1 with e1 | h1' <;> rcases List.mem_cons.mp h2 with e2 | h2'
    · cases e1; cases e2; rfl
    · cases e1; exact absurd h2' (lb_not_mem (sortedB_tail hs) (sortedB_lb hs))
    · cases e2; exact absurd h1' (lb_not_mem (sortedB_tail hs) (sortedB_lb hs))
    · exact ih (sortedB_tail hs) k v v' h1' h2'

/-! ### inserting all pairs of a list -/

theorem sinsertAll_nil (m : List (Bytes × α)) : sinsertAll [] m = m := rfl

theorem sinsertAll_cons (p : Bytes × α) (l m : List (Bytes × α)) :
    sinsertAll (p :: l) m = sinsertAll l (sinsert p.1 p.2 m) := rfl

theorem sinsertAll_append (l1 l2 m : List (Bytes × α)) :
    sinsertAll (l1 ++ l2) m = sinsertAll l2 (sinsertAll l1 m) := by
  simp [sinsertAll, List.foldl_append]

theorem sinsertAll_sorted (l m : List (Bytes × α)) (h : sortedB m = true) : sortedB (sinsertAll l m) = true := by
  induction l generalizing m with
  | nil => exact h
  | cons p r ih => rw [sinsertAll_cons]; exact ih _ (sinsert_sorted _ _ _ h)

/-- lookup in a fold of `sinsert` written as a right fold -/
theorem sget_foldr_iff_mem {R : List (Bytes × α)} (hf : KeyFn R) (k : Bytes) (v : α) :
    sget k (R.foldr (fun p acc => sinsert p.1 p.2 acc) []) = some v ↔ (k, v) ∈ R := by
  induction R with
  | nil => simp [sget]
  | cons p r ih =>
    obtain ⟨a, va⟩ := p
    simp only [List.foldr_cons, sget_sinsert]
    split
    · rename_i e; subst e
      constructor
      · intro h; cases h; exact List.mem_cons_self
      · intro h; rw [hf k v va h List.mem_cons_self]
    · rename_i hne
      rw [ih (KeyFn_tail hf)]
      constructor
      · exact List.mem_cons_of_mem _
      · intro h
        rcases List.mem_cons.mp h with e | h'
        · cases e; exact absurd rfl hne
        · exact h'

theorem sget_sinsertAll_iff_mem {L : List (Bytes × α)} (hf : KeyFn L) (k : Bytes) (v : α) :
    sget k (sinsertAll L []) = some v ↔ (k, v) ∈ L := by
  have : sinsertAll L [] = L.reverse.foldr (fun p acc => sinsert p.1 p.2 acc) [] := by
    simp [sinsertAll, List.foldr_reverse]
  rw [this, sget_foldr_iff_mem (KeyFn_of_mem hf (fun p hp => List.mem_reverse.mp hp))]
  exact List.mem_reverse

/-- inserting, in any order, the pairs of a list with the same members as a strictly sorted list
    rebuilds the sorted list -/
theorem sinsertAll_eq_of_mem {l L : List (Bytes × α)} (hs : sortedB l = true) (hm : ∀ p, p ∈ L ↔ p ∈ l) :
    sinsertAll L [] = l := by
  have hfl := sortedB_keyFn hs
  have hfL : KeyFn L := KeyFn_of_mem hfl (fun p hp => (hm p).mp hp)
  apply sorted_ext _ _ (sinsertAll_sorted L [] rfl) hs
  intro k
  apply Option.ext
  intro v
  rw [sget_sinsertAll_iff_mem hfL, sget_iff_mem hfl, hm]

theorem sinsertAll_perm {l L : List (Bytes × α)} (hs : sortedB l = true) (hp : L.Perm l) :
    sinsertAll L [] = l :=
  sinsertAll_eq_of_mem hs (fun _ => hp.mem_iff)

theorem sinsertAll_self {l : List (Bytes × α)} (hs : sortedB l = true) : sinsertAll l [] = l :=
  sinsertAll_perm hs (List.Perm.refl _)

end Ipp
