/-
  base64 round trip (RFC 4648 with padding).
-/
import IppModel.Model.Http
namespace Ipp

theorem b64Val_b64Char (n : Nat) (h : n < 64) : b64Val (b64Char n) = some n := by
  unfold b64Char b64Val
  by_cases h1 : n < 26
  · simp only [h1, if_true, UInt8.toNat_ofNat']
    have : (65 + n) % 2 ^ 8 = 65 + n := by omega
    simp only [this]
    have h2 : 65 ≤ 65 + n ∧ 65 + n ≤ 90 := by omega
    simp only [h2, and_self, if_true]
    congr 1; omega
  · by_cases h2 : n < 52
    · simp only [h1, h2, if_true, if_false, UInt8.toNat_ofNat']
      have : (97 + (n - 26)) % 2 ^ 8 = 97 + (n - 26) := by omega
      simp only [this]
      have h3 : ¬ (65 ≤ 97 + (n - 26) ∧ 97 + (n - 26) ≤ 90) := by omega
      have h4 : 97 ≤ 97 + (n - 26) ∧ 97 + (n - 26) ≤ 122 := by omega
      simp only [h3, h4, and_self, if_true, if_false]
      congr 1; omega
    · by_cases h3 : n < 62
      · simp only [h1, h2, h3, if_true, if_false, UInt8.toNat_ofNat']
        have : (48 + (n - 52)) % 2 ^ 8 = 48 + (n - 52) := by omega
        simp only [this]
        have h4 : ¬ (65 ≤ 48 + (n - 52) ∧ 48 + (n - 52) ≤ 90) := by omega
        have h5 : ¬ (97 ≤ 48 + (n - 52) ∧ 48 + (n - 52) ≤ 122) := by omega
        have h6 : 48 ≤ 48 + (n - 52) ∧ 48 + (n - 52) ≤ 57 := by omega
        simp only [h4, h5, h6, and_self, if_true, if_false]
        congr 1; omega
      · by_cases h4 : n = 62
        · subst h4; decide
        · have : n = 63 := by omega
          subst this; decide

theorem b64Char_ne_pad (n : Nat) (h : n < 64) : b64Char n ≠ b64Pad := by
  intro e
  have := b64Val_b64Char n h
  rw [e] at this
  simp [b64Val, b64Pad] at this

theorem b64_roundtrip (bs : Bytes) : b64Decode (b64Encode bs) = some bs := by
  match bs with
  | [] => rfl
  | [a] =>
    have ha := a.toNat_lt
    simp only [b64Encode, b64Decode]
    rw [b64Val_b64Char _ (by omega), b64Val_b64Char _ (by omega)]
    simp only [and_self, if_true]
    congr 2
    apply UInt8.toNat_inj.mp
    simp only [UInt8.toNat_ofNat']
    omega
  | [a, b] =>
    have ha := a.toNat_lt
    have hb := b.toNat_lt
    simp only [b64Encode, b64Decode]
    rw [b64Val_b64Char _ (by omega), b64Val_b64Char _ (by omega)]
    have hne : b64Char ((a.toNat * 65536 + b.toNat * 256) / 64 % 64) ≠ b64Pad := b64Char_ne_pad _ (by omega)
    simp only [hne, false_and, if_false]
    rw [b64Val_b64Char _ (by omega)]
    simp only [if_true]
    congr 2
    · apply UInt8.toNat_inj.mp
      simp only [UInt8.toNat_ofNat']
      omega
    · congr 1
      apply UInt8.toNat_inj.mp
      simp only [UInt8.toNat_ofNat']
      omega
  | a :: b :: c :: r =>
    have ha := a.toNat_lt
    have hb := b.toNat_lt
    have hc := c.toNat_lt
    have ih := b64_roundtrip r
    simp only [b64Encode]
    cases hr : b64Encode r with
    | nil =>
      -- the last full group: decoded by the 4-character case
      have hr' : r = [] := by
        match r, hr with
        | [], _ => rfl
        | [_], h => simp [b64Encode] at h
        | [_, _], h => simp [b64Encode] at h
        | _ :: _ :: _ :: _, h => simp [b64Encode] at h
      subst hr'
      simp only [b64Decode]
      rw [b64Val_b64Char _ (by omega), b64Val_b64Char _ (by omega)]
      have hne1 : b64Char ((a.toNat * 65536 + b.toNat * 256 + c.toNat) / 64 % 64) ≠ b64Pad := b64Char_ne_pad _ (by omega)
      have hne2 : b64Char ((a.toNat * 65536 + b.toNat * 256 + c.toNat) % 64) ≠ b64Pad := b64Char_ne_pad _ (by omega)
      simp only [hne1, hne2, and_false, if_false]
      rw [b64Val_b64Char _ (by omega), b64Val_b64Char _ (by omega)]
      simp only []
      congr 2
      · apply UInt8.toNat_inj.mp; simp only [UInt8.toNat_ofNat']; omega
      · congr 1
        · apply UInt8.toNat_inj.mp; simp only [UInt8.toNat_ofNat']; omega
        · congr 1
          apply UInt8.toNat_inj.mp; simp only [UInt8.toNat_ofNat']; omega
    | cons x xs =>
      rw [hr] at ih
      simp only [b64Decode]
      rw [b64Val_b64Char _ (by omega), b64Val_b64Char _ (by omega), b64Val_b64Char _ (by omega), b64Val_b64Char _ (by omega), ih]
      simp only []
      congr 2
      · apply UInt8.toNat_inj.mp; simp only [UInt8.toNat_ofNat']; omega
      · congr 1
        · apply UInt8.toNat_inj.mp; simp only [UInt8.toNat_ofNat']; omega
        · congr 1
          apply UInt8.toNat_inj.mp; simp only [UInt8.toNat_ofNat']; omega

end Ipp
