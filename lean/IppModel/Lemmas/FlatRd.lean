/-
  The flat reader on serialised fields.
-/
import IppModel.Lemmas.Total
import IppModel.Lemmas.Bytes
import IppModel.Lemmas.Utf8
namespace Ipp
open Gen

theorem ofNat_unbe16_be16 (v : UInt16) :
    UInt16.ofNat (unbe16 (UInt8.ofNat (v.toNat / 256)) (UInt8.ofNat v.toNat)) = v := u16_unbe16_be16 v

/-! ### the flat reader -/

theorem flat_readExact_append (a r : Bytes) : flatRd.readExact a.length (a ++ r) = .ok (a, r) := by
  simp [flatRd]

theorem rdU8_flat (b : UInt8) (r : Bytes) : rdU8 flatRd (b :: r) = .ok (b, r) := by
  simp [rdU8, flatRd]

theorem rdU16_flat (a b : UInt8) (r : Bytes) : rdU16 flatRd (a :: b :: r) = .ok (unbe16 a b, r) := by
  simp [rdU16, flatRd]

theorem rdU32_flat (a b c d : UInt8) (r : Bytes) :
    rdU32 flatRd (a :: b :: c :: d :: r) = .ok (unbe32 a b c d, r) := by
  simp [rdU32, flatRd]

theorem rdU16_flat_be16 (n : Nat) (h : n < 65536) (r : Bytes) : rdU16 flatRd (be16 n ++ r) = .ok (n, r) := by
  simp only [be16, List.cons_append, List.nil_append, rdU16_flat, unbe16_be16 n h]

theorem rdLV_flat (a r : Bytes) (h : a.length < 65536) :
    rdLV flatRd (be16 a.length ++ (a ++ r)) = .ok (a, r) := by
  simp only [rdLV, rdU16_flat_be16 _ h, flat_readExact_append]

theorem rdHeader_flat (v o : UInt16) (i : UInt32) (r : Bytes) :
    rdHeader flatRd (be16 v.toNat ++ (be16 o.toNat ++ (be32 i ++ r))) = .ok (⟨v, o, i⟩, r) := by
  simp only [rdHeader, rdU16_flat_be16 _ v.toNat_lt, rdU16_flat_be16 _ o.toNat_lt, be32, List.cons_append,
    List.nil_append, rdU32_flat, unbe32_be32, UInt16.ofNat_toNat]

end Ipp
