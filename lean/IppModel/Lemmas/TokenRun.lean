/-
  Token-level semantics of the parser state: running the tokens of a wire value / attribute on `PState`
  yields the interpretation of the wire tree.
-/
import IppModel.Lemmas.Framing
import IppModel.Lemmas.DecodeSpec
namespace Ipp
open Gen Spec

/-! ### single steps on the context stack -/

theorem begBracket_u8 : begBracket.u8 = 0x34 := rfl
theorem endBracket_u8 : endBracket.u8 = 0x37 := rfl

theorem step_plain (cg : Option Group) (ln : Option Bytes) (top : List Value) (rest : List (List Value))
    (gs : List Group) (t : UInt8) (b : Bytes) (v : Value) (h34 : t ≠ 0x34) (h37 : t ≠ 0x37)
    (hd : decodeValue t b = .ok v) :
    pMachine.value ⟨cg, ln, top :: rest, gs⟩ t [] b = .ok ⟨cg, ln, (top ++ [v]) :: rest, gs⟩ := by
  simp [pMachine, lossy_nil, PState.parseValue, hd, begBracket_u8, endBracket_u8, h34, h37]

theorem step_beg (cg : Option Group) (ln : Option Bytes) (ctx : List (List Value)) (gs : List Group) :
    pMachine.value ⟨cg, ln, ctx, gs⟩ 0x34 [] [] = .ok ⟨cg, ln, [] :: ctx, gs⟩ := by
  simp [pMachine, lossy_nil, PState.parseValue, decodeValue_beg, begBracket_u8, isEmptyOther]

theorem step_end (cg : Option Group) (ln : Option Bytes) (arr top : List Value) (rest : List (List Value))
    (gs : List Group) :
    pMachine.value ⟨cg, ln, arr :: top :: rest, gs⟩ 0x37 [] [] =
      .ok ⟨cg, ln, (top ++ [.coll (collect arr)]) :: rest, gs⟩ := by
  simp [pMachine, lossy_nil, PState.parseValue, decodeValue_end, begBracket_u8, endBracket_u8, isEmptyOther]

/-- a non-empty name on a token first closes the pending attribute and becomes the pending name -/
theorem value_named (s : PState) (t : UInt8) (name b : Bytes) (hn : name ≠ []) :
    pMachine.value s t name b =
      pMachine.value { s.addLastAttribute with lastName := some (lossy name) } t [] b := by
  have h1 : (lossy name).isEmpty = false := by
    rw [lossy_isEmpty]; cases name with
    | nil => exact absurd rfl hn
    | cons _ _ => rfl
  simp only [pMachine, lossy_nil, PState.parseValue, h1, List.isEmpty_nil]
  rfl

/-! ### grouping of collection members -/

def flatMs : List (Bytes × List WVal) → List Value
  | [] => []
  | (k, vs) :: ms => .str .memberAttrName (lossy k) :: (interpVs vs ++ flatMs ms)

theorem collectGo_val (v : Value) (hv : isMName v = false) (rest : List Value) (m : List (Bytes × Value))
    (k : Bytes) (acc : List Value) :
    collectGo (v :: rest) m (some (k, acc)) = collectGo rest m (some (k, acc ++ [v])) := by
  cases v
  case str sk s => cases sk <;> first | rfl | (simp [isMName] at hv)
  all_goals rfl

theorem collectGo_vals (vs : List Value) (hv : ∀ v ∈ vs, isMName v = false) (rest : List Value)
    (m : List (Bytes × Value)) (k : Bytes) (acc : List Value) :
    collectGo (vs ++ rest) m (some (k, acc)) = collectGo rest m (some (k, acc ++ vs)) := by
  induction vs generalizing acc with
  | nil => simp
  | cons v vs ih =>
    rw [List.cons_append, collectGo_val v (hv v (by simp)), ih (fun w hw => hv w (by simp [hw]))]
    simp

theorem interpV_notMName (v : WVal) (h : wfV true v = true) : isMName (interpV v) = false := by
  cases v with
  | plain t b =>
    simp [wfV] at h
    simp only [interpV]
    exact decodePlain_not_memberName t b h.1.1.2
  | coll ms => simp [interpV, isMName]

theorem interpVs_notMName (vs : List WVal) (h : wfVs true vs = true) : ∀ v ∈ interpVs vs, isMName v = false := by
  induction vs with
  | nil => simp [interpVs]
  | cons w ws ih =>
    simp [wfVs] at h
    intro v hv
    simp [interpVs] at hv
    rcases hv with rfl | hv
    · exact interpV_notMName w h.1
    · exact ih h.2 v hv

/-- grouping the flat list reproduces the member map -/
theorem collectGo_flatMs (ms : List (Bytes × List WVal)) (h : wfMs ms = true) (m : List (Bytes × Value))
    (cur : Option (Bytes × List Value)) :
    collectGo (flatMs ms) m cur = interpMs ms (flushMember m cur) := by
  induction ms generalizing m cur with
  | nil => simp [flatMs, collectGo, interpMs]
  | cons p ms ih =>
    obtain ⟨k, vs⟩ := p
    simp [wfMs] at h
    obtain ⟨⟨⟨h0, h1⟩, h2⟩, h3⟩ := h
    simp only [flatMs, collectGo, interpMs]
    rw [collectGo_vals _ (interpVs_notMName vs h2), ih h3]
    cases vs with
    | nil => simp at h1
    | cons v vs' => simp [flushMember, interpVs]

theorem collect_flatMs (ms : List (Bytes × List WVal)) (h : wfMs ms = true) :
    collect (flatMs ms) = interpMs ms [] := by
  simp [collect, collectGo_flatMs ms h, flushMember]

/-! ### running the tokens of a value -/

mutual
theorem run_V (c : Bool) (v : WVal) (h : wfV c v = true) (cg : Option Group) (ln : Option Bytes)
    (top : List Value) (rest : List (List Value)) (gs : List Group) :
    runToks pMachine (toksV [] v) ⟨cg, ln, top :: rest, gs⟩ = .ok ⟨cg, ln, (top ++ [interpV v]) :: rest, gs⟩ := by
  cases v with
  | plain t b =>
    simp [wfV] at h
    obtain ⟨⟨⟨⟨⟨_, h34⟩, h37⟩, _⟩, _⟩, hb⟩ := h
    simp only [toksV, runToks, interpV,
      step_plain cg ln top rest gs t b _ h34 h37 (decodeValue_plain t b h34 h37 hb), Outcome.bind]
  | coll ms =>
    simp only [wfV] at h
    simp only [toksV, runToks, step_beg, Outcome.bind]
    rw [runToks_append, run_Ms ms h cg ln [] (top :: rest) gs]
    simp only [Outcome.bind, runToks, List.nil_append, step_end, interpV, collect_flatMs ms h]
theorem run_Vs (c : Bool) (vs : List WVal) (h : wfVs c vs = true) (cg : Option Group) (ln : Option Bytes)
    (top : List Value) (rest : List (List Value)) (gs : List Group) :
    runToks pMachine (toksVs vs) ⟨cg, ln, top :: rest, gs⟩ = .ok ⟨cg, ln, (top ++ interpVs vs) :: rest, gs⟩ := by
  cases vs with
  | nil => simp [toksVs, runToks, interpVs]
  | cons v vs =>
    simp [wfVs] at h
    simp only [toksVs, interpVs]
    rw [runToks_append, run_V c v h.1, Outcome.bind, run_Vs c vs h.2]
    simp
theorem run_Ms (ms : List (Bytes × List WVal)) (h : wfMs ms = true) (cg : Option Group) (ln : Option Bytes)
    (top : List Value) (rest : List (List Value)) (gs : List Group) :
    runToks pMachine (toksMs ms) ⟨cg, ln, top :: rest, gs⟩ = .ok ⟨cg, ln, (top ++ flatMs ms) :: rest, gs⟩ := by
  cases ms with
  | nil => simp [toksMs, runToks, flatMs]
  | cons p ms =>
    obtain ⟨k, vs⟩ := p
    simp [wfMs] at h
    simp only [toksMs, flatMs, runToks,
      step_plain cg ln top rest gs 0x4a k _ (by decide) (by decide) (decodeValue_memberName k), Outcome.bind]
    rw [runToks_append, run_Vs true vs h.1.2, Outcome.bind, run_Ms ms h.2]
    simp
end

/-! ### the tokens of well-formed values are framed as value tokens -/

theorem tokOk_of (t : UInt8) (name body : Bytes) (ht : valueTagOk t = true) (hn : name.length < 65536)
    (hb : body.length < 65536) : tokOk syncLoop ⟨t, name, body⟩ = true := by
  simp only [valueTagOk, Bool.and_eq_true, decide_eq_true_eq, UInt8.le_iff_toNat_le] at ht
  have e1 : (0x10 : UInt8).toNat = 16 := rfl
  have e2 : (0x4a : UInt8).toNat = 74 := rfl
  rw [e1, e2] at ht
  simp only [tokOk, syncLoop, Bool.and_eq_true, decide_eq_true_eq, Bool.not_eq_true', Bool.and_eq_false_iff]
  refine ⟨⟨⟨⟨?_, ?_⟩, ?_⟩, hn⟩, hb⟩
  · exact decide_eq_true ht.1
  · exact decide_eq_true ht.2
  · right; exact decide_eq_false (by omega)

mutual
theorem toksV_ok (c : Bool) (name : Bytes) (hn : name.length < 65536) (v : WVal) (h : wfV c v = true) :
    (toksV name v).all (tokOk syncLoop) = true := by
  cases v with
  | plain t b =>
    simp [wfV] at h
    simp only [toksV, List.all_cons, List.all_nil, Bool.and_true]
    exact tokOk_of t name b h.1.1.1.1.1 hn h.1.2
  | coll ms =>
    simp only [wfV] at h
    simp only [toksV, List.all_cons, List.all_append, List.all_nil, Bool.and_true, toksMs_ok ms h, Bool.and_eq_true]
    exact ⟨tokOk_of _ _ _ (by decide) hn (by simp), trivial, tokOk_of _ _ _ (by decide) (by simp) (by simp)⟩
theorem toksVs_ok (c : Bool) (vs : List WVal) (h : wfVs c vs = true) :
    (toksVs vs).all (tokOk syncLoop) = true := by
  cases vs with
  | nil => simp [toksVs]
  | cons v vs =>
    simp [wfVs] at h
    simp only [toksVs, List.all_append, toksV_ok c [] (by simp) v h.1, toksVs_ok c vs h.2, Bool.and_self]
theorem toksMs_ok (ms : List (Bytes × List WVal)) (h : wfMs ms = true) :
    (toksMs ms).all (tokOk syncLoop) = true := by
  cases ms with
  | nil => simp [toksMs]
  | cons p ms =>
    obtain ⟨k, vs⟩ := p
    simp [wfMs] at h
    simp only [toksMs, List.all_cons, List.all_append, toksVs_ok true vs h.1.2, toksMs_ok ms h.2, Bool.and_self,
      Bool.and_true]
    exact tokOk_of _ _ _ (by decide) (by simp) h.1.1.1
end

/-! ### attributes -/

/-- the parser state inside a group: finished groups, the open group's tag and map, and the pending
    attribute (name and values read so far) -/
def mkSt (gs : List Group) (t : DelimiterTag) (m : List (Bytes × Value)) : Option (Bytes × List Value) → PState
  | none => ⟨some ⟨t, m⟩, none, [[]], gs⟩
  | some (n, vals) => ⟨some ⟨t, m⟩, some n, [vals], gs⟩

/-- the open group's map once the pending attribute is added -/
def flushP (m : List (Bytes × Value)) : Option (Bytes × List Value) → List (Bytes × Value)
  | none => m
  | some (n, vals) => sinsert n (listOrValue vals) m

theorem mkSt_addLast (gs : List Group) (t : DelimiterTag) (m : List (Bytes × Value))
    (pend : Option (Bytes × List Value)) :
    (mkSt gs t m pend).addLastAttribute = mkSt gs t (flushP m pend) none := by
  cases pend with
  | none => rfl
  | some p => obtain ⟨n, vals⟩ := p; rfl

theorem runToks_toksV_named (s : PState) (name : Bytes) (hn : name ≠ []) (v : WVal) :
    runToks pMachine (toksV name v) s =
      runToks pMachine (toksV [] v) { s.addLastAttribute with lastName := some (lossy name) } := by
  cases v <;> simp only [toksV, runToks] <;> rw [value_named s _ name _ hn]

theorem run_attr (a : WAttr) (h : wfAttr a = true) (gs : List Group) (t : DelimiterTag)
    (m : List (Bytes × Value)) (pend : Option (Bytes × List Value)) :
    runToks pMachine (toksAttr a) (mkSt gs t m pend) =
      .ok (mkSt gs t (flushP m pend) (some (lossy a.name, interpVs a.vals))) := by
  obtain ⟨name, vals⟩ := a
  simp only [wfAttr, Bool.and_eq_true, Bool.not_eq_true', decide_eq_true_eq] at h
  obtain ⟨⟨⟨hn, _⟩, hv⟩, hw⟩ := h
  cases vals with
  | nil => simp at hv
  | cons v vs =>
    simp only [wfVs, Bool.and_eq_true] at hw
    have hn' : name ≠ [] := by intro e; subst e; simp at hn
    simp only [toksAttr]
    rw [runToks_append, runToks_toksV_named _ name hn', mkSt_addLast]
    show (runToks pMachine (toksV [] v) ⟨some ⟨t, flushP m pend⟩, some (lossy name), [] :: [], gs⟩).bind _ = _
    rw [run_V false v hw.1, Outcome.bind, run_Vs false vs hw.2]
    simp [mkSt, interpVs]

/-- running the attributes of a group: the map with the pending attribute added is the spec's fold -/
theorem run_attrs (as : List WAttr) (h : wfAttrs as = true) (gs : List Group) (t : DelimiterTag)
    (m : List (Bytes × Value)) (pend : Option (Bytes × List Value)) :
    ∃ m' pend', runToks pMachine (toksAttrs as) (mkSt gs t m pend) = .ok (mkSt gs t m' pend') ∧
      flushP m' pend' = interpAttrs as (flushP m pend) := by
  induction as generalizing m pend with
  | nil => exact ⟨m, pend, rfl, rfl⟩
  | cons a as ih =>
    simp only [wfAttrs, Bool.and_eq_true] at h
    obtain ⟨m', pend', h1, h2⟩ := ih h.2 (flushP m pend) (some (lossy a.name, interpVs a.vals))
    refine ⟨m', pend', ?_, ?_⟩
    · simp only [toksAttrs]
      rw [runToks_append, run_attr a h.1, Outcome.bind, h1]
    · rw [h2]; rfl

theorem toksAttr_ok (a : WAttr) (h : wfAttr a = true) : (toksAttr a).all (tokOk syncLoop) = true := by
  obtain ⟨name, vals⟩ := a
  simp only [wfAttr, Bool.and_eq_true, Bool.not_eq_true', decide_eq_true_eq] at h
  obtain ⟨⟨⟨_, hn⟩, _⟩, hw⟩ := h
  cases vals with
  | nil => simp [toksAttr]
  | cons v vs =>
    simp only [wfVs, Bool.and_eq_true] at hw
    simp only [toksAttr, List.all_append, toksV_ok false name hn v hw.1, toksVs_ok false vs hw.2, Bool.and_self]

theorem toksAttrs_ok (as : List WAttr) (h : wfAttrs as = true) : (toksAttrs as).all (tokOk syncLoop) = true := by
  induction as with
  | nil => simp [toksAttrs]
  | cons a as ih =>
    simp only [wfAttrs, Bool.and_eq_true] at h
    simp only [toksAttrs, List.all_append, toksAttr_ok a h.1, ih h.2, Bool.and_self]

end Ipp
