/-
  Operation builders in closed form: what `newRequest`, `Request.add`, `withUserName`, `addJobAttrs` and the
  fold over builder calls produce.  Used by Props/C10.
-/
import IppModel.Spec.Requests
import IppModel.Lemmas.SMapBasic
namespace Ipp.Builders
open Ipp Ipp.Gen Ipp.Spec Ipp.SM0

/-! ### the fold over builder calls -/

def fUser : Call → Option Bytes | .userName s => some s | _ => none
def fTitle : Call → Option Bytes | .jobTitle s => some s | _ => none
def fAttrs : Call → List (Bytes × Value) | .attribute n v => [(n, v)] | .attributes as => as | _ => []
def fLast : Call → Option Bool | .last b => some b | _ => none
def fReq : Call → List Bytes | .reqAttr s => [s] | .reqAttrs ss => ss | _ => []

theorem summary_eq (calls : List Call) :
    summary calls =
      { user := lastSome (calls.map fUser), title := lastSome (calls.map fTitle),
        jobAttrs := (calls.map fAttrs).flatten, last := (lastSome (calls.map fLast)).getD true,
        requested := (calls.map fReq).flatten } := rfl

theorem lastSome_cons {α} (x : Option α) (r : List (Option α)) : lastSome (x :: r) = (lastSome r).or x := by
  simp only [lastSome]
  cases lastSome r <;> simp

theorem fold_user (b : BState) (calls : List Call) :
    (calls.foldl BState.step b).user = (lastSome (calls.map fUser)).or b.user := by
  induction calls generalizing b with
  | nil => simp [lastSome]
  | cons c r ih =>
    rw [List.foldl_cons, ih, List.map_cons, lastSome_cons]
    cases lastSome (r.map fUser) with
    | some y => simp
    | none => cases c <;> simp [BState.step, fUser]

theorem fold_title (b : BState) (calls : List Call) :
    (calls.foldl BState.step b).title = (lastSome (calls.map fTitle)).or b.title := by
  induction calls generalizing b with
  | nil => simp [lastSome]
  | cons c r ih =>
    rw [List.foldl_cons, ih, List.map_cons, lastSome_cons]
    cases lastSome (r.map fTitle) with
    | some y => simp
    | none => cases c <;> simp [BState.step, fTitle]

theorem fold_last (b : BState) (calls : List Call) :
    (calls.foldl BState.step b).isLast = (lastSome (calls.map fLast)).getD b.isLast := by
  induction calls generalizing b with
  | nil => simp [lastSome]
  | cons c r ih =>
    rw [List.foldl_cons, ih, List.map_cons, lastSome_cons]
    cases lastSome (r.map fLast) with
    | some y => simp
    | none => cases c <;> simp [BState.step, fLast]

theorem fold_attrs (b : BState) (calls : List Call) :
    (calls.foldl BState.step b).attrs = b.attrs ++ (calls.map fAttrs).flatten := by
  induction calls generalizing b with
  | nil => simp
  | cons c r ih =>
    rw [List.foldl_cons, ih, List.map_cons, List.flatten_cons, ← List.append_assoc]
    congr 1
    cases c <;> simp [BState.step, fAttrs]

theorem fold_requested (b : BState) (calls : List Call) :
    (calls.foldl BState.step b).requested = b.requested ++ (calls.map fReq).flatten := by
  induction calls generalizing b with
  | nil => simp
  | cons c r ih =>
    rw [List.foldl_cons, ih, List.map_cons, List.flatten_cons, ← List.append_assoc]
    congr 1
    cases c <;> simp [BState.step, fReq]

theorem run_eq_summary (calls : List Call) :
    (BState.run calls).user = (summary calls).user ∧ (BState.run calls).title = (summary calls).title ∧
    (BState.run calls).attrs = (summary calls).jobAttrs ∧ (BState.run calls).isLast = (summary calls).last ∧
    (BState.run calls).requested = (summary calls).requested := by
  rw [summary_eq]
  simp only [BState.run, fold_user, fold_title, fold_last, fold_attrs, fold_requested]
  simp

/-! ### requests with a single operation group -/

theorem Request.ext' {a b : Request} (h1 : a.header = b.header) (h2 : a.groups = b.groups) (h3 : a.payload = b.payload) :
    a = b := by
  cases a; cases b; simp_all

/-- a request with exactly one group, the operation group, holding the pairs `as` inserted in order -/
def R (hd : Header) (as : List (Bytes × Value)) (pl : Bytes) : Request :=
  ⟨hd, [⟨.OperationAttributes, sinsertAll as []⟩], pl⟩

/-- the same plus a job group when there are job attributes -/
def RJ (hd : Header) (as js : List (Bytes × Value)) (pl : Bytes) : Request :=
  ⟨hd, ⟨.OperationAttributes, sinsertAll as []⟩ :: (if js.isEmpty then [] else [⟨.JobAttributes, sinsertAll js []⟩]), pl⟩

def base (uri : Option Uri) : List (Bytes × Value) :=
  [(A.ATTRIBUTES_CHARSET, .str .charset utf8Lit), (A.ATTRIBUTES_NATURAL_LANGUAGE, .str .naturalLanguage enLit)] ++
    (match uri with
     | some u => [(A.PRINTER_URI, .str .uri (renderUri (canonUri u)))]
     | none => [])

theorem newRequest_eq (ver : UInt16) (op : Operation) (uri : Option Uri) :
    newRequest ver op uri = R ⟨ver, UInt16.ofNat op.code, UInt32.ofNat newRequestId⟩ (base uri) [] := by
  cases uri <;> rfl

theorem newResponse_eq (ver : UInt16) (st : StatusCode) (id : UInt32) :
    newResponse ver st id = R ⟨ver, UInt16.ofNat st.code, id⟩ (base none) [] := rfl

theorem add_R (hd : Header) (as : List (Bytes × Value)) (pl : Bytes) (n : Bytes) (v : Value) :
    (R hd as pl).add .OperationAttributes n v = R hd (as ++ [(n, v)]) pl := by
  simp [R, Request.add, addAttr, sinsertAll]

theorem withUserName_R (u : Option Bytes) (hd : Header) (as : List (Bytes × Value)) (pl : Bytes) :
    withUserName u (R hd as pl) = R hd (as ++ optAttr A.REQUESTING_USER_NAME (u.map (.str .nameWithoutLanguage))) pl := by
  cases u with
  | none => simp [withUserName, optAttr]
  | some s => simp [withUserName, optAttr, add_R]

theorem payload_R (hd : Header) (as : List (Bytes × Value)) (pl p : Bytes) :
    ({ R hd as pl with payload := p } : Request) = R hd as p := rfl

theorem addJobAttrs_two (hd : Header) (g : Group) (m js : List (Bytes × Value)) (pl : Bytes)
    (hg : g.tag ≠ .JobAttributes) :
    addJobAttrs js ⟨hd, [g, ⟨.JobAttributes, m⟩], pl⟩ = ⟨hd, [g, ⟨.JobAttributes, sinsertAll js m⟩], pl⟩ := by
  induction js generalizing m with
  | nil => rfl
  | cons a r ih =>
    have := ih (sinsert a.1 a.2 m)
    simp only [addJobAttrs, List.foldl_cons] at this ⊢
    rw [sinsertAll_cons, ← this]
    simp [Request.add, addAttr, hg]

theorem addJobAttrs_R (hd : Header) (as js : List (Bytes × Value)) (pl : Bytes) :
    addJobAttrs js (R hd as pl) = RJ hd as js pl := by
  cases js with
  | nil => rfl
  | cons a r =>
    have h := addJobAttrs_two hd ⟨.OperationAttributes, sinsertAll as []⟩ (sinsert a.1 a.2 []) r pl (by simp)
    simp only [addJobAttrs, List.foldl_cons] at h ⊢
    simp only [RJ, List.isEmpty_cons, Bool.false_eq_true, if_false, sinsertAll_cons, ← h]
    simp [R, Request.add, addAttr]

theorem payload_RJ (hd : Header) (as js : List (Bytes × Value)) (pl p : Bytes) :
    ({ RJ hd as js pl with payload := p } : Request) = RJ hd as js p := rfl

/-! ### the builders -/

abbrev NamesPin : Prop :=
    A.ATTRIBUTES_CHARSET = N.attributes_charset ∧ A.ATTRIBUTES_NATURAL_LANGUAGE = N.attributes_natural_language ∧
    A.PRINTER_URI = N.printer_uri ∧ A.REQUESTING_USER_NAME = N.requesting_user_name ∧ A.JOB_NAME = N.job_name ∧
    A.JOB_ID = N.job_id ∧ A.LAST_DOCUMENT = N.last_document ∧ A.REQUESTED_ATTRIBUTES = N.requested_attributes ∧
    utf8Lit = N.utf8 ∧ enLit = N.en

abbrev CodesPin : Prop :=
    Operation.PrintJob.code = opCode .printJob ∧ Operation.CreateJob.code = opCode .createJob ∧
    Operation.SendDocument.code = opCode .sendDocument ∧ Operation.CancelJob.code = opCode .cancelJob ∧
    Operation.GetJobAttributes.code = opCode .getJobAttributes ∧ Operation.GetJobs.code = opCode .getJobs ∧
    Operation.GetPrinterAttributes.code = opCode .getPrinterAttributes ∧ Operation.PurgeJobs.code = opCode .purgeJobs ∧
    Operation.CupsGetPrinters.code = opCode .cupsGetPrinters ∧ Operation.CupsDeletePrinter.code = opCode .cupsDeletePrinter

theorem build_eq_spec (hn : NamesPin) (hc : CodesPin) (k : OpKind) (uri : Uri) (jobId : UInt32) (payload : Bytes)
    (calls : List Call) :
    buildOp k uri jobId (if hasPayload k then payload else []) calls = request k uri jobId payload (summary calls) := by
  obtain ⟨hu, ht, ha, hl, hr⟩ := run_eq_summary calls
  simp only [buildOp]
  generalize summary calls = sm at *
  generalize BState.run calls = b at *
  obtain ⟨user, title, attrs, isLast, requested⟩ := b
  obtain ⟨user', title', attrs', isLast', requested'⟩ := sm
  simp only at hu ht ha hl hr
  subst hu ht ha hl hr
  obtain ⟨n1, n2, n3, n4, n5, n6, n7, n8, n9, n10⟩ := hn
  obtain ⟨c1, c2, c3, c4, c5, c6, c7, c8, c9, c10⟩ := hc
  have hid : UInt32.ofNat newRequestId = 1 := rfl
  have hv : v11 = 0x0101 := rfl
  cases k <;> cases user <;> cases title <;> cases requested <;>
    simp only [printJob, getPrinterAttributes, createJob, sendDocument, purgeJobs, cancelJob, getJobAttributes, getJobs,
      cupsGetPrinters, cupsDeletePrinter, newRequest_eq, withUserName_R, add_R, addJobAttrs_R, payload_R, payload_RJ,
      List.isEmpty_nil, List.isEmpty_cons, if_true, Bool.false_eq_true, if_false] <;>
    simp [base, optAttr, RJ, R,
      request, opAttrs, opAttrs.A_charset, opAttrs.A_language, opAttrs.A_printerUri, opAttrs.A_user, opAttrs.A_jobName,
      opAttrs.A_jobId, opAttrs.A_lastDocument, opAttrs.A_requested,
      hasJobAttrs, hasPayload, n1, n2, n3, n4, n5, n6, n7, n8, n9, n10, c1, c2, c3, c4, c5, c6, c7, c8, c9, c10, hid, hv]

theorem new_request_spec (hn : NamesPin) (ver : UInt16) (op : Operation) (uri : Option Uri) :
    (newRequest ver op uri).header = ⟨ver, UInt16.ofNat op.code, 1⟩ ∧
    (newRequest ver op uri).groups =
      [⟨.OperationAttributes, sinsertAll
        ([(N.attributes_charset, .str .charset N.utf8), (N.attributes_natural_language, .str .naturalLanguage N.en)] ++
         (match uri with
          | some u => [(N.printer_uri, .str .uri (renderUri (canonUri u)))]
          | none => [])) []⟩] ∧
    (newRequest ver op uri).payload = [] := by
  obtain ⟨n1, n2, n3, _, _, _, _, _, n9, n10⟩ := hn
  have hid : UInt32.ofNat newRequestId = 1 := rfl
  rw [newRequest_eq]
  cases uri <;> simp [R, base, n1, n2, n3, n9, n10, hid]

theorem new_response_spec (hn : NamesPin) (ver : UInt16) (st : StatusCode) (id : UInt32) :
    (newResponse ver st id).header = ⟨ver, UInt16.ofNat st.code, id⟩ ∧
    (newResponse ver st id).groups =
      [⟨.OperationAttributes, sinsertAll
        [(N.attributes_charset, .str .charset N.utf8), (N.attributes_natural_language, .str .naturalLanguage N.en)] []⟩] ∧
    (newResponse ver st id).payload = [] := by
  obtain ⟨n1, n2, _, _, _, _, _, _, n9, n10⟩ := hn
  rw [newResponse_eq]
  simp [R, base, n1, n2, n9, n10]

end Ipp.Builders
