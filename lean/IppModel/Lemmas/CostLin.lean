/-
  Linearity of the parser's cost model (the development behind C15).

  * erasure: the drive loop run with two machines related by a projection of the state gives related
    results (`driveLoop_erase`); `cMachine` projects onto `pMachine` by forgetting the counter;
  * linearity: a potential argument.  The potential `phi` of a parser state is the number of values still
    sitting on the collection stack plus the pending flush cost; every token pays at most 8 units per byte
    it occupies on the wire (`cMachine_value_step`, `cMachine_delim_step`, `driveLoop_cost`).
-/
import IppModel.Model.Cost
import IppModel.Lemmas.Framing
import IppModel.Lemmas.Consume
namespace Ipp
open Gen

/-! ### erasure: same reader, two machines related by a projection -/

/-- map the state component of a loop result -/
def Outcome.mapSt {σ1 σ2 ρ : Type} (π : σ1 → σ2) : Outcome (σ1 × ρ) → Outcome (σ2 × ρ)
  | .ok (s, r) => .ok (π s, r)
  | .err e => .err e
  | .panic => .panic
  | .outOfFuel => .outOfFuel

/-- If `m2` on projected states does what `m1` does, projected, then so does the whole loop. -/
theorem driveLoop_erase {ρ σ1 σ2 : Type} (rd : Reader ρ) (cfg : LoopCfg) (m1 : Machine σ1) (m2 : Machine σ2)
    (π : σ1 → σ2)
    (hd : ∀ s t, m2.delim (π s) t = (m1.delim s t).map (fun p => (π p.1, p.2)))
    (hv : ∀ s t n b, m2.value (π s) t n b = (m1.value s t n b).map π)
    (fuel : Nat) : ∀ (r : ρ) (s : σ1),
      driveLoop rd cfg m2 fuel r (π s) = Outcome.mapSt π (driveLoop rd cfg m1 fuel r s) := by
  induction fuel with
  | zero => intro r s; rfl
  | succ f ih =>
    intro r s
    simp only [driveLoop]
    cases h0 : rdU8 rd r with
    | err e => rfl
    | panic => rfl
    | outOfFuel => rfl
    | ok p =>
      obtain ⟨tag, r1⟩ := p
      simp only []
      by_cases hdl : cfg.delimLo ≤ tag.toNat ∧ tag.toNat ≤ cfg.delimHi
      · simp only [if_pos hdl, hd]
        cases h1 : m1.delim s tag with
        | error e => rfl
        | ok q =>
          obtain ⟨s1, code⟩ := q
          simp only [Except.map]
          by_cases hc : code = cfg.endTag
          · simp only [if_pos hc]; rfl
          · simp only [if_neg hc]; exact ih r1 s1
      · simp only [if_neg hdl]
        by_cases hvl : cfg.valueLo ≤ tag.toNat ∧ tag.toNat ≤ cfg.valueHi
        · simp only [if_pos hvl]
          cases h1 : rdLV rd r1 with
          | err e => rfl
          | panic => rfl
          | outOfFuel => rfl
          | ok q =>
            obtain ⟨name, r2⟩ := q
            simp only []
            cases h2 : rdLV rd r2 with
            | err e => rfl
            | panic => rfl
            | outOfFuel => rfl
            | ok q' =>
              obtain ⟨body, r3⟩ := q'
              simp only [hv]
              cases h3 : m1.value s tag name body with
              | err e => rfl
              | panic => rfl
              | outOfFuel => rfl
              | ok s1 => simp only [Outcome.map, Outcome.bind]; exact ih r3 s1
        · simp only [if_neg hvl]; rfl

theorem cMachine_delim_erase (c : CState) (t : UInt8) :
    pMachine.delim c.st t = (cMachine.delim c t).map (fun p => (p.1.st, p.2)) := by
  simp only [pMachine, cMachine]
  cases c.st.parseDelimiter t with
  | error e => rfl
  | ok q => rfl

theorem cMachine_value_erase (c : CState) (t : UInt8) (n b : Bytes) :
    pMachine.value c.st t n b = (cMachine.value c t n b).map CState.st := by
  simp only [pMachine, cMachine]
  cases c.st.parseValue t (lossy n) b with
  | ok s => rfl
  | err e => rfl
  | panic => rfl
  | outOfFuel => rfl

/-- the loop of the cost model, counter forgotten, is the loop of the parser -/
theorem driveLoop_cMachine_erase {ρ : Type} (rd : Reader ρ) (cfg : LoopCfg) (fuel : Nat) (r : ρ) (c : CState) :
    driveLoop rd cfg pMachine fuel r c.st = Outcome.mapSt CState.st (driveLoop rd cfg cMachine fuel r c) :=
  driveLoop_erase rd cfg cMachine pMachine CState.st cMachine_delim_erase cMachine_value_erase fuel r c

/-- forgetting the counter gives exactly the parser -/
theorem parseCost_erase (bs : Bytes) :
    (match parseCost bs with
     | .ok ((r, _), rest) => Outcome.ok (r, rest)
     | .err e => .err e
     | .panic => .panic
     | .outOfFuel => .outOfFuel) = parseFlat bs := by
  unfold parseCost parseFlat parseWith
  cases hh : rdHeader flatRd bs with
  | err e => rfl
  | panic => rfl
  | outOfFuel => rfl
  | ok p =>
    obtain ⟨hd, r1⟩ := p
    simp only []
    have he := driveLoop_cMachine_erase flatRd syncLoop (bs.length + 1) r1 ⟨PState.init, 8⟩
    simp only [] at he
    rw [he]
    cases driveLoop flatRd syncLoop cMachine (bs.length + 1) r1 ⟨PState.init, 8⟩ with
    | err e => rfl
    | panic => rfl
    | outOfFuel => rfl
    | ok q => obtain ⟨c, r2⟩ := q; rfl

/-! ### lossy decoding at most triples the length -/

theorem lossyF_length_le (fuel : Nat) (bs : Bytes) : (lossyF fuel bs).length ≤ 3 * bs.length := by
  induction fuel generalizing bs with
  | zero => simp [lossyF]
  | succ n ih =>
    cases bs with
    | nil => simp [lossyF]
    | cons b r =>
      have hpos := classify_pos b r
      have hle := classify_le (b :: r)
      have hrec := ih ((b :: r).drop (classify (b :: r)).1)
      simp only [List.length_drop, List.length_cons] at hrec hle
      simp only [lossyF, List.length_cons]
      split
      · simp only [List.length_append, List.length_take]
        omega
      · simp only [List.length_append, fffd, List.length_cons, List.length_nil]
        omega

theorem lossy_length_le (bs : Bytes) : (lossy bs).length ≤ 3 * bs.length := lossyF_length_le _ _

/-! ### the potential -/

/-- number of values on the collection stack -/
def stackSize (ctx : List (List Value)) : Nat := (ctx.map List.length).sum

/-- potential of a parser state: values still on the stack, plus the pending flush cost -/
def phi (s : PState) : Nat := stackSize s.context + flushCost s

theorem phi_init : phi PState.init = 0 := rfl

/-- the state after the name of a token has been handled -/
def nameStep (s : PState) (name : Bytes) : PState :=
  if name.isEmpty then s else { s.addLastAttribute with lastName := some name }

/-- what `parse_value` does with the decoded value, after the name has been handled -/
def valueTail (s1 : PState) (tag : UInt8) (v : Value) : Outcome PState :=
  if tag = begBracket.u8 then
    if isEmptyOther v then .ok { s1 with context := [] :: s1.context } else .err .invalidCollection
  else if tag = endBracket.u8 then
    if isEmptyOther v then
      match s1.context with
      | arr :: top :: rest => .ok { s1 with context := (top ++ [.coll (collect arr)]) :: rest }
      | [_] => .ok { s1 with context := [] }
      | [] => .ok s1
    else .err .invalidCollection
  else
    match s1.context with
    | top :: rest => .ok { s1 with context := (top ++ [v]) :: rest }
    | [] => .ok s1

def closeCost' (s1 : PState) (tag : UInt8) : Nat :=
  if tag = endBracket.u8 then
    match s1.context with
    | arr :: _ => arr.length
    | [] => 0
  else 0

theorem parseValue_eq (s : PState) (tag : UInt8) (name body : Bytes) :
    s.parseValue tag name body =
      (match decodeValue tag body with
       | .err e => .err e
       | .panic => .panic
       | .outOfFuel => .outOfFuel
       | .ok v => valueTail (nameStep s name) tag v) := rfl

theorem closeCost_eq (s : PState) (tag : UInt8) (name : Bytes) :
    closeCost s tag name = closeCost' (nameStep s name) tag := rfl

/-- flushing the pending attribute: the pending term leaves the potential, the stack does not grow -/
theorem phi_addLastAttribute (s : PState) : phi s.addLastAttribute + flushCost s ≤ phi s := by
  obtain ⟨cg, ln, ctx, gs⟩ := s
  cases ln with
  | none => simp [PState.addLastAttribute, phi, flushCost]
  | some n =>
    cases ctx with
    | nil => simp [PState.addLastAttribute, phi, flushCost, stackSize]
    | cons vl rest =>
      simp only [PState.addLastAttribute, phi, flushCost, stackSize, List.map_cons, List.sum_cons,
        List.length_nil]
      omega

theorem flushCost_addLastAttribute (s : PState) : flushCost s.addLastAttribute = 0 := by
  obtain ⟨cg, ln, ctx, gs⟩ := s
  cases ln with
  | none => rfl
  | some n => cases ctx <;> rfl

/-- handling the name: amortised cost at most `1 + 2 * name.length` (nothing for an empty name) -/
theorem phi_nameStep (s : PState) (name : Bytes) :
    (if name.isEmpty then 0 else flushCost s + name.length) + phi (nameStep s name)
      ≤ phi s + (if name.isEmpty then 0 else 1 + 2 * name.length) := by
  unfold nameStep
  cases hn : name.isEmpty with
  | true => simp
  | false =>
    have h1 := phi_addLastAttribute s
    have h2 := flushCost_addLastAttribute s
    simp only [phi, flushCost, Bool.false_eq_true, if_false] at h1 h2 ⊢
    omega

theorem begBracket_ne_endBracket : begBracket.u8 ≠ endBracket.u8 := by decide

/-- pushing / closing: amortised cost at most 1 -/
theorem phi_valueTail (s1 s' : PState) (tag : UInt8) (v : Value) (h : valueTail s1 tag v = .ok s') :
    closeCost' s1 tag + phi s' ≤ phi s1 + 1 := by
  obtain ⟨cg, ln, ctx, gs⟩ := s1
  unfold valueTail at h
  unfold closeCost'
  by_cases hb : tag = begBracket.u8
  · have he : ¬ tag = endBracket.u8 := by rw [hb]; exact begBracket_ne_endBracket
    simp only [if_pos hb] at h
    simp only [if_neg he]
    split at h
    · simp only [Outcome.ok.injEq] at h
      subst h
      simp [phi, flushCost, stackSize]
    · cases h
  · simp only [if_neg hb] at h
    by_cases he : tag = endBracket.u8
    · simp only [if_pos he] at h ⊢
      split at h
      · rcases ctx with _ | ⟨arr, _ | ⟨top, rest⟩⟩
        · simp only [Outcome.ok.injEq] at h
          subst h
          simp [phi]
        · simp only [Outcome.ok.injEq] at h
          subst h
          simp [phi, flushCost, stackSize]
        · simp only [Outcome.ok.injEq] at h
          subst h
          simp only [phi, flushCost, stackSize, List.map_cons, List.sum_cons, List.length_append,
            List.length_cons, List.length_nil]
          omega
      · cases h
    · simp only [if_neg he] at h ⊢
      rcases ctx with _ | ⟨top, rest⟩
      · simp only [Outcome.ok.injEq] at h
        subst h
        simp [phi]
      · simp only [Outcome.ok.injEq] at h
        subst h
        simp only [phi, flushCost, stackSize, List.map_cons, List.sum_cons, List.length_append,
          List.length_cons, List.length_nil]
        omega

/-! ### amortised cost of one token -/

/-- a value token with raw name `nm` and body `b` (it occupies `5 + nm.length + b.length` bytes) -/
theorem cMachine_value_step (c c' : CState) (tag : UInt8) (nm b : Bytes)
    (h : cMachine.value c tag nm b = .ok c') :
    c'.cost + phi c'.st ≤ c.cost + phi c.st + 8 * (5 + nm.length + b.length) := by
  simp only [cMachine] at h
  cases hp : c.st.parseValue tag (lossy nm) b with
  | err e => simp [hp] at h
  | panic => simp [hp] at h
  | outOfFuel => simp [hp] at h
  | ok s' =>
    simp only [hp, Outcome.ok.injEq] at h
    subst h
    simp only []
    rw [parseValue_eq] at hp
    cases hdv : decodeValue tag b with
    | err e => simp [hdv] at hp
    | panic => simp [hdv] at hp
    | outOfFuel => simp [hdv] at hp
    | ok v =>
      simp only [hdv] at hp
      have h1 := phi_nameStep c.st (lossy nm)
      have h2 := phi_valueTail _ _ _ _ hp
      have h3 := lossy_length_le nm
      rw [closeCost_eq]
      rw [lossy_isEmpty] at h1
      cases hn : nm.isEmpty with
      | true =>
        simp only [hn, if_true] at h1 ⊢
        omega
      | false =>
        simp only [hn, Bool.false_eq_true, if_false] at h1 ⊢
        omega

/-- a delimiter (one byte) -/
theorem cMachine_delim_step (c c' : CState) (tag : UInt8) (code : Nat)
    (h : cMachine.delim c tag = .ok (c', code)) :
    c'.cost + phi c'.st ≤ c.cost + phi c.st + 8 := by
  simp only [cMachine, PState.parseDelimiter] at h
  cases hf : DelimiterTag.fromCode tag.toNat with
  | none => simp [hf] at h
  | some t =>
    simp only [hf, Except.ok.injEq, Prod.mk.injEq] at h
    obtain ⟨h, _⟩ := h
    subst h
    have h1 := phi_addLastAttribute c.st
    simp only [phi, flushCost] at h1 ⊢
    omega

/-! ### bytes consumed by the flat reader -/

theorem rdU8_flat_length (bs : Bytes) (b : UInt8) (r : Bytes) (h : rdU8 flatRd bs = .ok (b, r)) :
    bs.length = r.length + 1 := by
  rw [rdU8_flat_inv bs b r h]; rfl

theorem rdLV_flat_length (bs x r : Bytes) (h : rdLV flatRd bs = .ok (x, r)) :
    bs.length = r.length + 2 + x.length := by
  rcases bs with _ | ⟨a, _ | ⟨b, t⟩⟩
  · simp [rdLV, rdU16, flatRd] at h
  · simp [rdLV, rdU16, flatRd] at h
  · simp only [rdLV, rdU16_flat] at h
    cases hr : flatRd.readExact (unbe16 a b) t with
    | error k => simp [hr] at h
    | ok p =>
      obtain ⟨x', r'⟩ := p
      simp only [hr, Outcome.ok.injEq, Prod.mk.injEq] at h
      obtain ⟨rfl, rfl⟩ := h
      obtain ⟨rfl, _⟩ := flat_read_inv _ _ _ _ hr
      simp only [List.length_cons, List.length_append]
      omega

theorem rdHeader_flat_length (bs : Bytes) (hd : Header) (r : Bytes) (h : rdHeader flatRd bs = .ok (hd, r)) :
    bs.length = r.length + 8 := by
  obtain ⟨pre, rfl, hex, hpre⟩ := rdHeader_consumes bs hd r h
  rcases pre with _ | ⟨a, _ | ⟨b, _ | ⟨c, _ | ⟨d, _ | ⟨e', _ | ⟨f, _ | ⟨g, _ | ⟨i, _ | ⟨j, t⟩⟩⟩⟩⟩⟩⟩⟩⟩
  case cons.cons.cons.cons.cons.cons.cons.cons.nil => simp only [List.length_append, List.length_cons, List.length_nil]; omega
  case cons.cons.cons.cons.cons.cons.cons.cons.cons =>
    have := hpre .other 8 (by simp)
    simp [rdHeader, rdU16, rdU32, cutRd] at this
  all_goals
    have := hex .other []
    simp [rdHeader, rdU16, rdU32, cutRd] at this

/-! ### the loop -/

/-- cost plus potential grows by at most 8 per byte consumed -/
theorem driveLoop_cost (cfg : LoopCfg) (fuel : Nat) :
    ∀ (bs : Bytes) (c c' : CState) (rest : Bytes), driveLoop flatRd cfg cMachine fuel bs c = .ok (c', rest) →
      c'.cost + phi c'.st + 8 * rest.length ≤ c.cost + phi c.st + 8 * bs.length := by
  induction fuel with
  | zero => intro bs c c' rest h; simp [driveLoop] at h
  | succ f ih =>
    intro bs c c' rest h
    simp only [driveLoop] at h
    cases h0 : rdU8 flatRd bs with
    | err e => simp [h0] at h
    | panic => simp [h0] at h
    | outOfFuel => simp [h0] at h
    | ok p =>
      obtain ⟨tag, r1⟩ := p
      have hl0 := rdU8_flat_length _ _ _ h0
      simp only [h0] at h
      by_cases hd : cfg.delimLo ≤ tag.toNat ∧ tag.toNat ≤ cfg.delimHi
      · simp only [if_pos hd] at h
        cases hdl : cMachine.delim c tag with
        | error e => simp [hdl] at h
        | ok q =>
          obtain ⟨c1, code⟩ := q
          have hs := cMachine_delim_step _ _ _ _ hdl
          simp only [hdl] at h
          by_cases hc : code = cfg.endTag
          · simp only [if_pos hc, Outcome.ok.injEq, Prod.mk.injEq] at h
            obtain ⟨rfl, rfl⟩ := h
            omega
          · simp only [if_neg hc] at h
            have := ih _ _ _ _ h
            omega
      · simp only [if_neg hd] at h
        by_cases hv : cfg.valueLo ≤ tag.toNat ∧ tag.toNat ≤ cfg.valueHi
        · simp only [if_pos hv] at h
          cases h1 : rdLV flatRd r1 with
          | err e => simp [h1] at h
          | panic => simp [h1] at h
          | outOfFuel => simp [h1] at h
          | ok q =>
            obtain ⟨name, r2⟩ := q
            simp only [h1] at h
            cases h2 : rdLV flatRd r2 with
            | err e => simp [h2] at h
            | panic => simp [h2] at h
            | outOfFuel => simp [h2] at h
            | ok q' =>
              obtain ⟨body, r3⟩ := q'
              simp only [h2] at h
              cases h3 : cMachine.value c tag name body with
              | err e => simp [h3] at h
              | panic => simp [h3] at h
              | outOfFuel => simp [h3] at h
              | ok c1 =>
                simp only [h3] at h
                have hl1 := rdLV_flat_length _ _ _ h1
                have hl2 := rdLV_flat_length _ _ _ h2
                have hs := cMachine_value_step _ _ _ _ _ h3
                have := ih _ _ _ _ h
                omega
        · simp only [if_neg hv] at h
          cases h

/-- the work is bounded by a constant multiple of the bytes consumed -/
theorem parseCost_linear (bs : Bytes) (r : Header × List Group) (cost : Nat) (rest : Bytes)
    (h : parseCost bs = .ok ((r, cost), rest)) : cost ≤ 8 * (bs.length - rest.length) + 8 := by
  unfold parseCost at h
  cases hh : rdHeader flatRd bs with
  | err e => simp [hh] at h
  | panic => simp [hh] at h
  | outOfFuel => simp [hh] at h
  | ok p =>
    obtain ⟨hd, r1⟩ := p
    simp only [hh] at h
    cases hl : driveLoop flatRd syncLoop cMachine (bs.length + 1) r1 ⟨PState.init, 8⟩ with
    | err e => simp [hl] at h
    | panic => simp [hl] at h
    | outOfFuel => simp [hl] at h
    | ok q =>
      obtain ⟨c, r2⟩ := q
      simp only [hl, Outcome.ok.injEq, Prod.mk.injEq] at h
      obtain ⟨⟨_, rfl⟩, rfl⟩ := h
      have h1 := rdHeader_flat_length _ _ _ hh
      have h2 := driveLoop_cost _ _ _ _ _ _ hl
      simp only [phi_init] at h2
      omega

end Ipp
