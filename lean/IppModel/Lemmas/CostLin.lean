/-
  Linearity of the parser's cost model (the development behind C15).  TO BE PROVED: every `sorry` below.
-/
import IppModel.Model.Cost
import IppModel.Lemmas.Framing
namespace Ipp
open Gen

/-- forgetting the counter gives exactly the parser -/
theorem parseCost_erase (bs : Bytes) :
    (match parseCost bs with
     | .ok ((r, _), rest) => Outcome.ok (r, rest)
     | .err e => .err e
     | .panic => .panic
     | .outOfFuel => .outOfFuel) = parseFlat bs := by
  sorry

/-- the work is bounded by a constant multiple of the bytes consumed -/
theorem parseCost_linear (bs : Bytes) (r : Header × List Group) (cost : Nat) (rest : Bytes)
    (h : parseCost bs = .ok ((r, cost), rest)) : cost ≤ 8 * (bs.length - rest.length) + 8 := by
  sorry

end Ipp
