/-
  Draining a message stream (the development behind C08).
-/
import IppModel.Model.Stream
namespace Ipp

namespace Drain

theorem size_flat (src : Source) : Source.size src = (Source.flat src).length := by
  induction src with
  | nil => rfl
  | cons e r ih => cases e <;> simp [Source.size, Source.flat, ih]

theorem noFault_cons (e : Ev) (r : Source) : noFault (e :: r) = true ↔ (e.isFail = false ∧ noFault r = true) := by
  simp [noFault]

/-- what one read / poll of a fault-free scripted source may do -/
def StepOK (src : Source) (r : Option (Except IoKind Bytes)) (src' : Source) : Prop :=
  noFault src' = true ∧
  (((r = none ∨ r = some (.error .interrupted)) ∧ Source.flat src' = Source.flat src ∧ src'.length < src.length)
   ∨ (∃ bs, r = some (.ok bs) ∧ bs ≠ [] ∧ bs ++ Source.flat src' = Source.flat src ∧ src'.length ≤ src.length)
   ∨ (r = some (.ok []) ∧ Source.flat src = []))

theorem StepOK.weaken {s src src' : Source} {r} (hfl : Source.flat s = Source.flat src) (hl : s.length ≤ src.length)
    (h : StepOK s r src') : StepOK src r src' := by
  obtain ⟨h0, h⟩ := h
  refine ⟨h0, ?_⟩
  rcases h with ⟨h1, h2, h3⟩ | ⟨bs, h1, h2, h3, h4⟩ | ⟨h1, h2⟩
  · exact .inl ⟨h1, h2.trans hfl, by omega⟩
  · exact .inr (.inl ⟨bs, h1, h2, h3.trans hfl, by omega⟩)
  · exact .inr (.inr ⟨h1, hfl ▸ h2⟩)

theorem srcPoll_spec (n : Nat) (hn : 0 < n) (src : Source) (hf : noFault src = true) :
    StepOK src (srcPoll n src).1 (srcPoll n src).2 := by
  obtain ⟨m, rfl⟩ : ∃ m, n = m + 1 := ⟨n - 1, by omega⟩
  induction src with
  | nil => exact ⟨rfl, .inr (.inr ⟨rfl, rfl⟩)⟩
  | cons e rest ih =>
    rw [noFault_cons] at hf
    cases e with
    | data b =>
      simp only [srcPoll]
      split
      · rename_i hb
        have hb' : b = [] := by simpa using hb
        subst hb'
        exact StepOK.weaken (by simp [Source.flat]) (by simp) (ih hf.2)
      · rename_i hb
        have hb' : b ≠ [] := by simpa using hb
        split
        · exact ⟨hf.2, .inr (.inl ⟨b, rfl, hb', by simp [Source.flat], by simp⟩)⟩
        · refine ⟨by rw [noFault_cons]; exact ⟨rfl, hf.2⟩, .inr (.inl ⟨b.take (m + 1), rfl, ?_, ?_, by simp⟩)⟩
          · intro h
            have := List.take_eq_nil_iff.mp h
            rcases this with h | h
            · omega
            · exact hb' h
          · simp only [Source.flat, ← List.append_assoc, List.take_append_drop]
    | pending => exact ⟨hf.2, .inl ⟨.inl rfl, rfl, by simp [srcPoll]⟩⟩
    | interrupted => exact ⟨hf.2, .inl ⟨.inr rfl, rfl, by simp [srcPoll]⟩⟩
    | fail k => simp [Ev.isFail] at hf

theorem srcRead_spec (n : Nat) (hn : 0 < n) (src : Source) (hf : noFault src = true) :
    StepOK src (some (srcRead n src).1) (srcRead n src).2 := by
  obtain ⟨m, rfl⟩ : ∃ m, n = m + 1 := ⟨n - 1, by omega⟩
  induction src with
  | nil => exact ⟨rfl, .inr (.inr ⟨rfl, rfl⟩)⟩
  | cons e rest ih =>
    rw [noFault_cons] at hf
    cases e with
    | data b =>
      simp only [srcRead]
      split
      · rename_i hb
        have hb' : b = [] := by simpa using hb
        subst hb'
        exact StepOK.weaken (by simp [Source.flat]) (by simp) (ih hf.2)
      · rename_i hb
        have hb' : b ≠ [] := by simpa using hb
        split
        · exact ⟨hf.2, .inr (.inl ⟨b, rfl, hb', by simp [Source.flat], by simp⟩)⟩
        · refine ⟨by rw [noFault_cons]; exact ⟨rfl, hf.2⟩, .inr (.inl ⟨b.take (m + 1), rfl, ?_, ?_, by simp⟩)⟩
          · intro h
            have := List.take_eq_nil_iff.mp h
            rcases this with h | h
            · omega
            · exact hb' h
          · simp only [Source.flat, ← List.append_assoc, List.take_append_drop]
    | pending =>
      simp only [srcRead]
      exact StepOK.weaken (by simp [Source.flat]) (by simp) (ih hf.2)
    | interrupted => exact ⟨hf.2, .inl ⟨.inr rfl, rfl, by simp [srcRead]⟩⟩
    | fail k => simp [Ev.isFail] at hf

theorem blockOn_spec (n : Nat) (hn : 0 < n) (fuel : Nat) (src : Source) (hf : noFault src = true)
    (hl : src.length ≤ fuel) :
    StepOK src (some (Payload.read.blockOn n src fuel).1) (Payload.read.blockOn n src fuel).2 := by
  induction fuel generalizing src with
  | zero =>
    have : src = [] := List.eq_nil_of_length_eq_zero (by omega)
    subst this
    exact ⟨rfl, .inr (.inr ⟨rfl, rfl⟩)⟩
  | succ fuel ih =>
    have hp := srcPoll_spec n hn src hf
    unfold Payload.read.blockOn
    split
    · rename_i r s heq
      rw [heq] at hp
      exact hp
    · rename_i s heq
      rw [heq] at hp
      obtain ⟨h0, h⟩ := hp
      rcases h with ⟨_, h2, h3⟩ | ⟨bs, h1, _⟩ | ⟨h1, _⟩
      · exact StepOK.weaken h2 (by simp only at h3 ⊢; omega) (ih s h0 (by simp only at h3; omega))
      · cases h1
      · cases h1

theorem allowStd_spec (n : Nat) (hn : 0 < n) (fuel : Nat) (src : Source) (hf : noFault src = true) :
    StepOK src (some (Payload.poll.allowStd n src fuel).1) (Payload.poll.allowStd n src fuel).2 := by
  induction fuel generalizing src with
  | zero => exact srcRead_spec n hn src hf
  | succ fuel ih =>
    have hp := srcRead_spec n hn src hf
    unfold Payload.poll.allowStd
    split
    · rename_i s heq
      rw [heq] at hp
      obtain ⟨h0, h⟩ := hp
      rcases h with ⟨_, h2, h3⟩ | ⟨bs, h1, _⟩ | ⟨h1, _⟩
      · exact StepOK.weaken h2 (by simp only at h3 ⊢; omega) (ih s h0)
      · cases h1
      · cases h1
    · rename_i r s _ heq
      rw [heq] at hp
      exact hp

theorem read_spec (n : Nat) (hn : 0 < n) (p : Payload) (hf : noFault p.source = true) :
    StepOK p.source (some (p.read n).1) (p.read n).2.source := by
  cases p with
  | empty => exact ⟨rfl, .inr (.inr ⟨rfl, rfl⟩)⟩
  | sync src => exact srcRead_spec n hn src hf
  | async src => exact blockOn_spec n hn src.length src hf (Nat.le_refl _)

theorem poll_spec (n : Nat) (hn : 0 < n) (p : Payload) (hf : noFault p.source = true) :
    StepOK p.source (p.poll n).1 (p.poll n).2.source := by
  cases p with
  | empty => exact ⟨rfl, .inr (.inr ⟨rfl, rfl⟩)⟩
  | sync src => exact allowStd_spec n hn src.length src hf
  | async src => exact srcPoll_spec n hn src hf

/-- one step of the consumer on the chain -/
def step (cons : Consumer) (n : Nat) (c : Chain) : Option (Except IoKind Bytes) × Chain :=
  match cons with
  | .blocking => (some (c.read n).1, (c.read n).2)
  | .async => c.poll n

/-- what remains to be delivered -/
def out (c : Chain) : Bytes := (if c.doneFirst then [] else c.first) ++ Source.flat c.second.source

def mu (c : Chain) : Nat :=
  (if c.doneFirst then 0 else c.first.length + 1) + Source.size c.second.source + c.second.source.length

def CStepOK (c : Chain) (r : Option (Except IoKind Bytes)) (c' : Chain) : Prop :=
  noFault c'.second.source = true ∧
  (((r = none ∨ r = some (.error .interrupted)) ∧ out c' = out c ∧ mu c' < mu c)
   ∨ (∃ bs, r = some (.ok bs) ∧ bs ≠ [] ∧ bs ++ out c' = out c ∧ mu c' < mu c)
   ∨ (r = some (.ok []) ∧ out c = []))

/-- lifting a payload step to the chain once the cursor is exhausted (or already done) -/
theorem lift_second (first : Bytes) (done : Bool) (p p' : Payload) (r) (hfirst : done = false → first = [])
    (h : StepOK p.source r p'.source) : CStepOK ⟨first, done, p⟩ r ⟨first, true, p'⟩ := by
  have hpre : (if done = true then [] else first) = [] := by
    cases done with
    | true => rfl
    | false => simpa using hfirst rfl
  obtain ⟨h0, h⟩ := h
  refine ⟨h0, ?_⟩
  simp only [out, mu, size_flat, hpre, List.nil_append, if_true]
  rcases h with ⟨h1, h2, h3⟩ | ⟨bs, h1, h2, h3, h4⟩ | ⟨h1, h2⟩
  · refine .inl ⟨h1, h2, ?_⟩
    rw [h2]; split <;> omega
  · refine .inr (.inl ⟨bs, h1, h2, h3, ?_⟩)
    have hl : bs.length + (Source.flat p'.source).length = (Source.flat p.source).length := by
      rw [← h3, List.length_append]
    have : 0 < bs.length := List.length_pos_iff.mpr h2
    split <;> omega
  · exact .inr (.inr ⟨h1, h2⟩)

theorem step_spec (cons : Consumer) (n : Nat) (hn : 0 < n) (c : Chain) (hf : noFault c.second.source = true) :
    CStepOK c (step cons n c).1 (step cons n c).2 := by
  obtain ⟨first, done, p⟩ := c
  have hn0 : n ≠ 0 := by omega
  cases done with
  | true =>
    cases cons with
    | blocking =>
      simp only [step, Chain.read, Bool.not_true, Bool.false_eq_true, if_false]
      exact lift_second first true p _ _ (by simp) (read_spec n hn p hf)
    | async =>
      simp only [step, Chain.poll, Bool.not_true, Bool.false_eq_true, if_false]
      exact lift_second first true p _ _ (by simp) (poll_spec n hn p hf)
  | false =>
    by_cases hfirst : first = []
    · subst hfirst
      cases cons with
      | blocking =>
        simp only [step, Chain.read, Bool.not_false, if_true, List.take_nil, List.isEmpty_nil, Bool.true_and,
          decide_eq_true_eq, hn0, ne_eq, not_false_eq_true]
        exact lift_second [] false p _ _ (by simp) (read_spec n hn p hf)
      | async =>
        simp only [step, Chain.poll, Bool.not_false, if_true, List.take_nil, List.isEmpty_nil, Bool.true_and,
          decide_eq_true_eq, hn0, ne_eq, not_false_eq_true]
        exact lift_second [] false p _ _ (by simp) (poll_spec n hn p hf)
    · have hne : (first.take n).isEmpty = false := by
        cases first with
        | nil => exact absurd rfl hfirst
        | cons a t =>
          obtain ⟨m, rfl⟩ : ∃ m, n = m + 1 := ⟨n - 1, by omega⟩
          rfl
      have hne' : first.take n ≠ [] := by
        intro h; rw [h] at hne; cases hne
      have key : CStepOK ⟨first, false, p⟩ (some (.ok (first.take n))) ⟨first.drop n, false, p⟩ := by
        refine ⟨hf, .inr (.inl ⟨first.take n, rfl, hne', ?_, ?_⟩)⟩
        · simp only [out, Bool.false_eq_true, if_false, ← List.append_assoc, List.take_append_drop]
        · simp only [mu, Bool.false_eq_true, if_false, List.length_drop]
          have : 0 < first.length := List.length_pos_iff.mpr hfirst
          omega
      cases cons with
      | blocking =>
        simp only [step, Chain.read, Bool.not_false, if_true, hne, Bool.false_and, Bool.false_eq_true, if_false]
        exact key
      | async =>
        simp only [step, Chain.poll, Bool.not_false, if_true, hne, Bool.false_and, Bool.false_eq_true, if_false]
        exact key

theorem drain_succ (cons : Consumer) (dflt fuel : Nat) (sizes : List Nat) (c : Chain) :
    drain cons dflt (fuel + 1) sizes c =
      (match step cons (sizes.headD dflt) c with
       | (none, c') => drain cons dflt fuel sizes c'
       | (some (.error .interrupted), c') => drain cons dflt fuel sizes c'
       | (some (.error k), _) => ([], some k)
       | (some (.ok bs), c') =>
         if bs.isEmpty && sizes.headD dflt ≠ 0 then ([], none)
         else ((bs ++ (drain cons dflt fuel sizes.tail c').1), (drain cons dflt fuel sizes.tail c').2)) := by
  cases cons <;> rfl

theorem pos_headD (sizes : List Nat) (dflt : Nat) (hd : 0 < dflt)
    (hs : sizes.all (fun n => decide (0 < n)) = true) : 0 < sizes.headD dflt := by
  cases sizes with
  | nil => exact hd
  | cons a t => simp at hs; exact hs.1

theorem pos_tail (sizes : List Nat) (hs : sizes.all (fun n => decide (0 < n)) = true) :
    sizes.tail.all (fun n => decide (0 < n)) = true := by
  cases sizes with
  | nil => rfl
  | cons a t => simp at hs ⊢; exact hs.2

/-- the invariant: from any state of the chain, with enough fuel, exactly the outstanding bytes are delivered -/
theorem drain_inv (cons : Consumer) (dflt : Nat) (hd : 0 < dflt) (fuel : Nat) :
    ∀ (sizes : List Nat) (c : Chain), sizes.all (fun n => decide (0 < n)) = true →
      noFault c.second.source = true → mu c + 1 ≤ fuel →
      drain cons dflt fuel sizes c = (out c, none) := by
  induction fuel with
  | zero => intro _ _ _ _ h; omega
  | succ fuel ih =>
    intro sizes c hs hf hm
    have hn := pos_headD sizes dflt hd hs
    have hn0 : sizes.headD dflt ≠ 0 := by omega
    have hsp := step_spec cons (sizes.headD dflt) hn c hf
    rw [drain_succ]
    generalize step cons (sizes.headD dflt) c = rc at hsp
    obtain ⟨r, c'⟩ := rc
    obtain ⟨h0, h⟩ := hsp
    rcases h with ⟨h1, h2, h3⟩ | ⟨bs, h1, h2, h3, h4⟩ | ⟨h1, h2⟩
    · simp only at h1 h2 h3
      rcases h1 with rfl | rfl
      · simp only
        rw [ih sizes c' hs h0 (by omega), h2]
      · simp only
        rw [ih sizes c' hs h0 (by omega), h2]
    · simp only at h1 h3 h4
      subst h1
      have hbe : bs.isEmpty = false := by
        cases bs with
        | nil => exact absurd rfl h2
        | cons _ _ => rfl
      simp only [hbe, Bool.false_and, Bool.false_eq_true, if_false]
      rw [ih sizes.tail c' (pos_tail sizes hs) h0 (by omega), h3]
    · simp only at h1
      subst h1
      simp only [List.isEmpty_nil, Bool.true_and, decide_eq_true_eq, hn0, ne_eq, not_false_eq_true, if_true, h2]

end Drain

open Drain in
/-- more fuel changes nothing -/
theorem drain_fuel_irrelevant (cons : Consumer) (hdr : Bytes) (pay : Payload) (sizes : List Nat) (dflt : Nat) (k : Nat)
    (hd : 0 < dflt) (hs : sizes.all (fun n => decide (0 < n)) = true) (hf : noFault pay.source = true) :
    drain cons dflt (drainFuel hdr pay sizes + k) sizes ⟨hdr, false, pay⟩ = (hdr ++ Source.flat pay.source, none) := by
  have h := drain_inv cons dflt hd (drainFuel hdr pay sizes + k) sizes ⟨hdr, false, pay⟩ hs hf
    (by simp only [mu, drainFuel, Bool.false_eq_true, if_false]; omega)
  simpa [out] using h

/-- every consumer, every payload kind, every sequence of positive buffer sizes: the drained bytes are the
    header-and-attributes bytes followed by exactly the payload's data, then end of stream -/
theorem drain_content (cons : Consumer) (hdr : Bytes) (pay : Payload) (sizes : List Nat) (dflt : Nat)
    (hd : 0 < dflt) (hs : sizes.all (fun n => decide (0 < n)) = true) (hf : noFault pay.source = true) :
    drain cons dflt (drainFuel hdr pay sizes) sizes ⟨hdr, false, pay⟩ = (hdr ++ Source.flat pay.source, none) :=
  drain_fuel_irrelevant cons hdr pay sizes dflt 0 hd hs hf

end Ipp
