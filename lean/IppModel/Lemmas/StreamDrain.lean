/-
  Draining a message stream (the development behind C08).  TO BE PROVED: every `sorry` below.
-/
import IppModel.Model.Stream
namespace Ipp

/-- every consumer, every payload kind, every sequence of positive buffer sizes: the drained bytes are the
    header-and-attributes bytes followed by exactly the payload's data, then end of stream -/
theorem drain_content (cons : Consumer) (hdr : Bytes) (pay : Payload) (sizes : List Nat) (dflt : Nat)
    (hd : 0 < dflt) (hs : sizes.all (fun n => decide (0 < n)) = true) (hf : noFault pay.source = true) :
    drain cons dflt (drainFuel hdr pay sizes) sizes ⟨hdr, false, pay⟩ = (hdr ++ Source.flat pay.source, none) := by
  sorry

/-- more fuel changes nothing -/
theorem drain_fuel_irrelevant (cons : Consumer) (hdr : Bytes) (pay : Payload) (sizes : List Nat) (dflt : Nat) (k : Nat)
    (hd : 0 < dflt) (hs : sizes.all (fun n => decide (0 < n)) = true) (hf : noFault pay.source = true) :
    drain cons dflt (drainFuel hdr pay sizes + k) sizes ⟨hdr, false, pay⟩ = (hdr ++ Source.flat pay.source, none) := by
  sorry

end Ipp
