/-
  The independent RFC 8010 reader `unser` inverts the serialiser `ser` on well-formed wire trees.
-/
import IppModel.Spec.Unser
import IppModel.Lemmas.Bytes
import IppModel.Lemmas.TokenRun
namespace Ipp.UnserSer
open Ipp Ipp.Gen Ipp.Spec

/-! ### lexer -/

theorem takeN_append (a r : Bytes) : takeN a.length (a ++ r) = some (a, r) := by
  simp [takeN]

theorem readLen_be16 (n : Nat) (h : n < 65536) (r : Bytes) : readLen (be16 n ++ r) = some (n, r) := by
  simp only [be16, List.cons_append, List.nil_append, readLen, unbe16_be16 n h]

theorem tokOk_facts (t : Tok) (h : tokOk syncLoop t = true) :
    16 ≤ t.tag.toNat ∧ t.tag.toNat ≤ 74 ∧ t.name.length < 65536 ∧ t.body.length < 65536 := by
  simp only [tokOk, syncLoop, Bool.and_eq_true, decide_eq_true_eq] at h
  obtain ⟨⟨⟨⟨h1, h2⟩, _⟩, h3⟩, h4⟩ := h
  exact ⟨of_decide_eq_true h1, of_decide_eq_true h2, h3, h4⟩

theorem tokBytes_length_pos (t : Tok) : 1 ≤ (tokBytes t).length := by
  simp [tokBytes]

/-- one value token is consumed in one iteration and pushed onto the open group -/
theorem lex_tok (t : Tok) (h : tokOk syncLoop t = true) (f : Nat) (rest : Bytes) (g : UInt8) (acc : List Tok)
    (done : List (UInt8 × List Tok)) :
    lexGroups (f + 1) (tokBytes t ++ rest) ((g, acc) :: done) = lexGroups f rest ((g, t :: acc) :: done) := by
  obtain ⟨h1, h2, h3, h4⟩ := tokOk_facts t h
  obtain ⟨tag, name, body⟩ := t
  simp only at h1 h2 h3 h4
  have n3 : tag ≠ 0x03 := by intro e; subst e; revert h1; decide
  have n1 : ¬ (tag = 0x01 ∨ tag = 0x02 ∨ tag = 0x04 ∨ tag = 0x05) := by
    rintro (e | e | e | e) <;> subst e <;> revert h1 <;> decide
  have hv : 0x10 ≤ tag ∧ tag ≤ 0x4a := by
    rw [UInt8.le_iff_toNat_le, UInt8.le_iff_toNat_le]
    exact ⟨h1, h2⟩
  simp only [tokBytes, List.cons_append, List.append_assoc, lexGroups, n3, n1, hv, if_false, and_self, if_true,
    readLen_be16 _ h3, readLen_be16 _ h4, takeN_append]

/-- a run of value tokens -/
theorem lex_toks (ts : List Tok) (h : ts.all (tokOk syncLoop) = true) (rest : Bytes) (g : UInt8) (acc : List Tok)
    (done : List (UInt8 × List Tok)) (fuel k : Nat) (hf : (toksBytes ts).length + k ≤ fuel) :
    ∃ fuel', k ≤ fuel' ∧
      lexGroups fuel (toksBytes ts ++ rest) ((g, acc) :: done) = lexGroups fuel' rest ((g, ts.reverse ++ acc) :: done) := by
  induction ts generalizing acc fuel with
  | nil => exact ⟨fuel, by simpa [toksBytes] using hf, by simp [toksBytes]⟩
  | cons t ts ih =>
    simp only [List.all_cons, Bool.and_eq_true] at h
    have hp := tokBytes_length_pos t
    simp only [toksBytes, List.length_append] at hf
    obtain ⟨f, rfl⟩ : ∃ f, fuel = f + 1 := ⟨fuel - 1, by omega⟩
    obtain ⟨fuel', hk, he⟩ := ih h.2 (t :: acc) f (by omega)
    refine ⟨fuel', hk, ?_⟩
    simp only [toksBytes, List.append_assoc]
    rw [lex_tok t h.1, he]
    simp

theorem delim_cases (t : UInt8) (h : (delimOf t).isSome = true) : t = 0x01 ∨ t = 0x02 ∨ t = 0x04 ∨ t = 0x05 := by
  unfold delimOf at h
  split at h
  · left; assumption
  split at h
  · right; left; assumption
  split at h
  · right; right; left; assumption
  split at h
  · right; right; right; assumption
  · simp at h

theorem lex_groups (gs : List WGroup) (h : wfGroups gs = true) (rest : Bytes) (done : List (UInt8 × List Tok))
    (fuel k : Nat) (hf : (serGroups gs).length + k ≤ fuel) :
    ∃ fuel', k ≤ fuel' ∧
      lexGroups fuel (serGroups gs ++ rest) done =
        lexGroups fuel' rest ((gs.map fun g => (g.tag, (toksAttrs g.attrs).reverse)).reverse ++ done) := by
  induction gs generalizing done fuel with
  | nil => exact ⟨fuel, by simpa [serGroups] using hf, by simp [serGroups]⟩
  | cons g gs ih =>
    simp only [wfGroups, wfGroup, Bool.and_eq_true] at h
    obtain ⟨⟨hd, ha⟩, hgs⟩ := h
    simp only [serGroups, serGroup, List.length_append, List.length_cons] at hf
    obtain ⟨f, rfl⟩ : ∃ f, fuel = f + 1 := ⟨fuel - 1, by omega⟩
    have hc := delim_cases g.tag hd
    have n3 : g.tag ≠ 0x03 := by
      rcases hc with e | e | e | e <;> rw [e] <;> decide
    obtain ⟨f1, hk1, he1⟩ := lex_toks (toksAttrs g.attrs) (toksAttrs_ok g.attrs ha) (serGroups gs ++ rest) g.tag []
      done f ((serGroups gs).length + k) (by omega)
    obtain ⟨f2, hk2, he2⟩ := ih hgs ((g.tag, (toksAttrs g.attrs).reverse ++ []) :: done) f1 hk1
    refine ⟨f2, hk2, ?_⟩
    simp only [serGroups, serGroup, List.cons_append, List.append_assoc, lexGroups, n3, hc, if_false, if_true]
    rw [he1, he2]
    simp

theorem lex_all (gs : List WGroup) (h : wfGroups gs = true) (p : Bytes) (fuel : Nat)
    (hf : (serGroups gs).length + 1 ≤ fuel) :
    lexGroups fuel (serGroups gs ++ 0x03 :: p) [] = some (gs.map fun g => (g.tag, toksAttrs g.attrs), p) := by
  obtain ⟨f', hk, he⟩ := lex_groups gs h (0x03 :: p) [] fuel 1 hf
  obtain ⟨f, rfl⟩ : ∃ f, f' = f + 1 := ⟨f' - 1, by omega⟩
  rw [he]
  simp only [lexGroups, if_true, List.append_nil, List.reverse_reverse, List.map_map]
  congr 2
  apply List.map_congr_left
  intro g _
  simp

/-! ### tree reader -/

/-- what makes `treeVs` stop reading additional values -/
def stops (c : Bool) : List Tok → Prop
  | [] => True
  | t :: _ => t.name ≠ [] ∨ (c = true ∧ (t.tag = 0x4a ∨ t.tag = 0x37))

theorem toksV_length_pos (name : Bytes) (v : WVal) : 1 ≤ (toksV name v).length := by
  cases v <;> simp [toksV]

theorem treeVs_stop (c : Bool) (f : Nat) (rest : List Tok) (h : stops c rest) :
    treeVs c (f + 1) rest = some ([], rest) := by
  cases rest with
  | nil => simp [treeVs]
  | cons t ts =>
    have : (!t.name.isEmpty) = true ∨ (c = true ∧ (t.tag = 0x4a ∨ t.tag = 0x37)) := by
      rcases h with h | h
      · left; cases hn : t.name with
        | nil => exact absurd hn h
        | cons _ _ => rfl
      · right; exact h
    simp only [treeVs, this, if_true]

/-- the head field of a value: its name is the given one; unnamed it does not stop `treeVs` -/
theorem toksV_head (c : Bool) (name : Bytes) (v : WVal) (h : wfV c v = true) :
    ∃ t ts, toksV name v = t :: ts ∧ t.name = name ∧ t.tag ≠ 0x37 ∧ (c = true → t.tag ≠ 0x4a) := by
  cases v with
  | plain t b =>
    simp [wfV] at h
    refine ⟨⟨t, name, b⟩, [], rfl, rfl, h.1.1.1.2, ?_⟩
    intro hc
    have := h.1.1.2
    simpa [hc] using this
  | coll ms => exact ⟨⟨0x34, name, []⟩, _, rfl, rfl, by show (0x34 : UInt8) ≠ 0x37; decide, fun _ => by show (0x34 : UInt8) ≠ 0x4a; decide⟩

theorem toksMs_stops (ms : List (Bytes × List WVal)) (rest : List Tok) :
    stops true (toksMs ms ++ ⟨0x37, [], []⟩ :: rest) := by
  cases ms with
  | nil => simp [toksMs, stops]
  | cons p ms => obtain ⟨k, vs⟩ := p; simp [toksMs, stops]

mutual
theorem treeV_ok (c : Bool) (name : Bytes) (v : WVal) (h : wfV c v = true) (rest : List Tok) (fuel : Nat)
    (hf : (toksV name v).length ≤ fuel) : treeV fuel (toksV name v ++ rest) = some (v, rest) := by
  cases v with
  | plain t b =>
    simp [wfV] at h
    obtain ⟨f, rfl⟩ : ∃ f, fuel = f + 1 := ⟨fuel - 1, by simp [toksV] at hf; omega⟩
    simp only [toksV, List.cons_append, List.nil_append, treeV, h.1.1.1.1.2, h.1.1.1.2, if_false]
  | coll ms =>
    simp only [wfV] at h
    simp only [toksV, List.length_cons, List.length_append, List.length_nil] at hf
    obtain ⟨f, rfl⟩ : ∃ f, fuel = f + 1 := ⟨fuel - 1, by omega⟩
    have := treeMs_ok ms h rest f (by omega)
    simp only [toksV, List.cons_append, List.append_assoc, List.nil_append, treeV, if_true, List.isEmpty_nil, this]
theorem treeVs_ok (c : Bool) (vs : List WVal) (h : wfVs c vs = true) (rest : List Tok) (hs : stops c rest)
    (fuel : Nat) (hf : (toksVs vs).length + 1 ≤ fuel) : treeVs c fuel (toksVs vs ++ rest) = some (vs, rest) := by
  cases vs with
  | nil =>
    obtain ⟨f, rfl⟩ : ∃ f, fuel = f + 1 := ⟨fuel - 1, by omega⟩
    simp only [toksVs, List.nil_append]
    exact treeVs_stop c f rest hs
  | cons v vs =>
    simp only [wfVs, Bool.and_eq_true] at h
    have hp := toksV_length_pos [] v
    simp only [toksVs, List.length_append] at hf
    obtain ⟨f, rfl⟩ : ∃ f, fuel = f + 1 := ⟨fuel - 1, by omega⟩
    have h1 := treeV_ok c [] v h.1 (toksVs vs ++ rest) f (by omega)
    have h2 := treeVs_ok c vs h.2 rest hs f (by omega)
    obtain ⟨t, ts, he, hn, h37, h4a⟩ := toksV_head c [] v h.1
    simp only [toksVs, List.append_assoc]
    rw [he] at h1 ⊢
    have hcond : ¬ ((!t.name.isEmpty) = true ∨ (c = true ∧ (t.tag = 0x4a ∨ t.tag = 0x37))) := by
      rintro (e | ⟨e1, e2 | e2⟩)
      · simp [hn] at e
      · exact h4a e1 e2
      · exact h37 e2
    simp only [List.cons_append] at h1 ⊢
    simp only [treeVs, hcond, if_false, h1, h2]
theorem treeMs_ok (ms : List (Bytes × List WVal)) (h : wfMs ms = true) (rest : List Tok) (fuel : Nat)
    (hf : (toksMs ms).length + 1 ≤ fuel) :
    treeMs fuel (toksMs ms ++ ⟨0x37, [], []⟩ :: rest) = some (ms, rest) := by
  cases ms with
  | nil =>
    obtain ⟨f, rfl⟩ : ∃ f, fuel = f + 1 := ⟨fuel - 1, by omega⟩
    simp [toksMs, treeMs]
  | cons p ms =>
    obtain ⟨k, vs⟩ := p
    simp [wfMs] at h
    simp only [toksMs, List.length_cons, List.length_append] at hf
    obtain ⟨f, rfl⟩ : ∃ f, fuel = f + 1 := ⟨fuel - 1, by omega⟩
    have h1 := treeVs_ok true vs h.1.2 (toksMs ms ++ ⟨0x37, [], []⟩ :: rest) (toksMs_stops ms rest) f (by omega)
    have h2 := treeMs_ok ms h.2 rest f (by omega)
    have hne : vs.isEmpty = false := by
      cases vs with
      | nil => exact absurd rfl h.1.1.2
      | cons _ _ => rfl
    have d1 : ¬ ((0x4a : UInt8) = 0x37) := by decide
    simp only [toksMs, List.cons_append, List.append_assoc, treeMs, List.isEmpty_nil, Bool.not_true,
      Bool.false_eq_true, if_false, d1, if_true, h1, hne, h2]
end

/-! ### attributes, groups, message -/

theorem toksAttrs_stops (as : List WAttr) (h : wfAttrs as = true) : stops false (toksAttrs as) := by
  cases as with
  | nil => simp [toksAttrs, stops]
  | cons a as =>
    obtain ⟨name, vals⟩ := a
    simp only [wfAttrs, wfAttr, Bool.and_eq_true, Bool.not_eq_true', decide_eq_true_eq] at h
    obtain ⟨⟨⟨⟨hn, _⟩, hv⟩, hw⟩, _⟩ := h
    cases vals with
    | nil => simp at hv
    | cons v vs =>
      simp only [wfVs, Bool.and_eq_true] at hw
      obtain ⟨t, ts, he, hnm, _, _⟩ := toksV_head false name v hw.1
      simp only [toksAttrs, toksAttr, he, List.cons_append, stops]
      left
      rw [hnm]
      intro e; subst e; simp at hn

theorem treeAttrs_ok (as : List WAttr) (h : wfAttrs as = true) (fuel : Nat)
    (hf : (toksAttrs as).length + 1 ≤ fuel) : treeAttrs fuel (toksAttrs as) = some as := by
  induction as generalizing fuel with
  | nil =>
    obtain ⟨f, rfl⟩ : ∃ f, fuel = f + 1 := ⟨fuel - 1, by omega⟩
    simp [toksAttrs, treeAttrs]
  | cons a as ih =>
    have hst := toksAttrs_stops as (by simp only [wfAttrs, Bool.and_eq_true] at h; exact h.2)
    obtain ⟨name, vals⟩ := a
    simp only [wfAttrs, wfAttr, Bool.and_eq_true, Bool.not_eq_true', decide_eq_true_eq] at h
    obtain ⟨⟨⟨⟨hn, _⟩, hv⟩, hw⟩, has⟩ := h
    cases vals with
    | nil => simp at hv
    | cons v vs =>
      simp only [wfVs, Bool.and_eq_true] at hw
      have hp := toksV_length_pos name v
      simp only [toksAttrs, toksAttr, List.length_append] at hf
      obtain ⟨f, rfl⟩ : ∃ f, fuel = f + 1 := ⟨fuel - 1, by omega⟩
      have h1 := treeV_ok false name v hw.1 (toksVs vs ++ toksAttrs as) (f + 1) (by omega)
      have h2 := treeVs_ok false vs hw.2 (toksAttrs as) hst (f + 1) (by omega)
      have h3 := ih has f (by omega)
      obtain ⟨t, ts, he, hnm, _, _⟩ := toksV_head false name v hw.1
      have hlen : (toksAttrs as).length < (t :: (ts ++ (toksVs vs ++ toksAttrs as))).length := by
        simp only [List.length_cons, List.length_append]; omega
      simp only [toksAttrs, toksAttr, List.append_assoc]
      rw [he] at h1 ⊢
      simp only [List.cons_append] at h1 ⊢
      have hne : t.name.isEmpty = false := by rw [hnm]; exact hn
      subst hnm
      simp only [treeAttrs, hne, Bool.false_eq_true, if_false, h1, h2, hlen, if_true, h3]

theorem toksBytes_length_ge (ts : List Tok) : ts.length ≤ (toksBytes ts).length := by
  induction ts with
  | nil => simp
  | cons t ts ih =>
    have := tokBytes_length_pos t
    simp only [toksBytes, List.length_append, List.length_cons]; omega

theorem treeGroups_ok (gs : List WGroup) (h : wfGroups gs = true) :
    treeGroups (gs.map fun g => (g.tag, toksAttrs g.attrs)) = some gs := by
  induction gs with
  | nil => rfl
  | cons g gs ih =>
    simp only [wfGroups, wfGroup, Bool.and_eq_true] at h
    have h1 := treeAttrs_ok g.attrs h.1.2 (2 * (toksAttrs g.attrs).length + 2) (by omega)
    simp only [List.map_cons, treeGroups, h1, ih h.2]

theorem unser_ser (w : WMsg) (p : Bytes) (h : wfWire w = true) : unser (ser w ++ p) = some (w, p) := by
  obtain ⟨ver, op, id, gs⟩ := w
  simp only [wfWire] at h
  have hl := lex_all gs h p ((serGroups gs ++ 0x03 :: p).length + 1)
    (by simp only [List.length_append]; omega)
  simp only [ser, be16, be32, List.cons_append, List.nil_append, List.append_assoc, unser, hl, treeGroups_ok gs h,
    u16_unbe16_be16, unbe32_be32]

end Ipp.UnserSer
