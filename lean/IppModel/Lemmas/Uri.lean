/-
  Lemmas about the URI model (`IppModel/Model/Uri.lean`) used by the C13 / C14 property files:
  `afterLast` / `beforeFirst` / `throughFirst`, decimal rendering and `u16::from_str`,
  `hostOf` / `portOf` / `canonAuthority`, and the unfolding of `transportUrl`.
-/
import IppModel.Model.Request
import IppModel.Spec.Names
import IppModel.Spec.Transport
import IppModel.Lemmas.SMapBasic
namespace Ipp.UriL
open Ipp Ipp.Gen Ipp.Spec

/-! ### `afterLast` -/

theorem afterLast_of_not_mem (c : UInt8) (l : Bytes) (h : c ∉ l) : afterLast c l = l := by
  cases l with
  | nil => rfl
  | cons x r =>
    have h1 : c ∉ r := fun hm => h (List.mem_cons_of_mem _ hm)
    have h2 : ¬ x = c := fun he => h (he ▸ List.mem_cons_self)
    simp [afterLast, h1, h2]

theorem afterLast_append_cons (c : UInt8) (pre s : Bytes) (h : c ∉ s) :
    afterLast c (pre ++ c :: s) = s := by
  induction pre with
  | nil => simp [afterLast, h]
  | cons x p ih => simp [afterLast, ih]

theorem afterLast_decomp (c : UInt8) (l : Bytes) (h : c ∈ l) :
    ∃ pre, l = pre ++ c :: afterLast c l := by
  induction l with
  | nil => cases h
  | cons x r ih =>
    by_cases hr : c ∈ r
    · obtain ⟨pre, hp⟩ := ih hr
      refine ⟨x :: pre, ?_⟩
      have : afterLast c (x :: r) = afterLast c r := by simp [afterLast, hr]
      rw [this, List.cons_append, ← hp]
    · have hx : x = c := by
        rcases List.mem_cons.mp h with h | h
        · exact h.symm
        · exact absurd h hr
      refine ⟨[], ?_⟩
      simp [afterLast, hr, hx]

theorem afterLast_not_mem (c : UInt8) (l : Bytes) : c ∉ afterLast c l := by
  induction l with
  | nil => simp [afterLast]
  | cons x r ih =>
    by_cases hr : c ∈ r
    · simpa [afterLast, hr] using ih
    · by_cases hx : x = c
      · simp [afterLast, hr, hx]
      · simp only [afterLast]
        have : r.contains c = false := by simpa using hr
        simp only [this, hx, if_false, Bool.false_eq_true]
        intro hm
        rcases List.mem_cons.mp hm with h | h
        · exact hx h.symm
        · exact hr h

theorem afterLast_append_of_not_mem (c : UInt8) (a t : Bytes) (h : c ∉ t) :
    afterLast c (a ++ t) = afterLast c a ++ t := by
  by_cases ha : c ∈ a
  · obtain ⟨pre, hp⟩ := afterLast_decomp c a ha
    have hn : c ∉ afterLast c a ++ t := by
      simp only [List.mem_append, not_or]
      exact ⟨afterLast_not_mem c a, h⟩
    have : a ++ t = pre ++ c :: (afterLast c a ++ t) := by
      conv => lhs; rw [hp]
      simp
    rw [this, afterLast_append_cons c pre _ hn]
  · have : c ∉ a ++ t := by simp [ha, h]
    rw [afterLast_of_not_mem c _ this, afterLast_of_not_mem c _ ha]

theorem mem_of_mem_afterLast (c b : UInt8) (l : Bytes) (h : b ∈ afterLast c l) : b ∈ l := by
  by_cases hc : c ∈ l
  · obtain ⟨pre, hp⟩ := afterLast_decomp c l hc
    rw [hp]; simp [h]
  · rwa [afterLast_of_not_mem c l hc] at h

theorem afterLast_idem (c : UInt8) (l : Bytes) : afterLast c (afterLast c l) = afterLast c l :=
  afterLast_of_not_mem c _ (afterLast_not_mem c l)

/-! ### `beforeFirst` -/

theorem beforeFirst_not_mem (c : UInt8) (l : Bytes) : c ∉ beforeFirst c l := by
  induction l with
  | nil => simp [beforeFirst]
  | cons x r ih =>
    simp only [beforeFirst]
    split
    · simp
    · rename_i hx
      intro hm
      rcases List.mem_cons.mp hm with h | h
      · exact hx h.symm
      · exact ih h

theorem mem_of_mem_beforeFirst (c b : UInt8) (l : Bytes) (h : b ∈ beforeFirst c l) : b ∈ l := by
  induction l with
  | nil => simp [beforeFirst] at h
  | cons x r ih =>
    simp only [beforeFirst] at h
    split at h
    · cases h
    · rcases List.mem_cons.mp h with h | h
      · simp [h]
      · exact List.mem_cons_of_mem _ (ih h)

theorem beforeFirst_of_not_mem (c : UInt8) (l : Bytes) (h : c ∉ l) : beforeFirst c l = l := by
  induction l with
  | nil => rfl
  | cons x r ih =>
    have h1 : c ∉ r := fun hm => h (List.mem_cons_of_mem _ hm)
    have h2 : ¬ x = c := fun he => h (he ▸ List.mem_cons_self)
    simp [beforeFirst, h2, ih h1]

theorem beforeFirst_append_cons (c : UInt8) (a x : Bytes) (h : c ∉ a) :
    beforeFirst c (a ++ c :: x) = a := by
  induction a with
  | nil => simp [beforeFirst]
  | cons y r ih =>
    have h1 : c ∉ r := fun hm => h (List.mem_cons_of_mem _ hm)
    have h2 : ¬ y = c := fun he => h (he ▸ List.mem_cons_self)
    simp [beforeFirst, h2, ih h1]

/-! ### `throughFirst` -/

theorem mem_of_mem_throughFirst (c b : UInt8) (l : Bytes) (h : b ∈ throughFirst c l) : b ∈ l := by
  induction l with
  | nil => simp [throughFirst] at h
  | cons x r ih =>
    simp only [throughFirst] at h
    split at h
    · simp at h; simp [h]
    · rcases List.mem_cons.mp h with h | h
      · simp [h]
      · exact List.mem_cons_of_mem _ (ih h)

theorem throughFirst_append_cons (c : UInt8) (a x : Bytes) (h : c ∉ a) :
    throughFirst c (a ++ c :: x) = a ++ [c] := by
  induction a with
  | nil => simp [throughFirst]
  | cons y r ih =>
    have h1 : c ∉ r := fun hm => h (List.mem_cons_of_mem _ hm)
    have h2 : ¬ y = c := fun he => h (he ▸ List.mem_cons_self)
    simp [throughFirst, h2, ih h1]

theorem throughFirst_decomp (c : UInt8) (l : Bytes) (h : c ∈ l) :
    ∃ a, c ∉ a ∧ throughFirst c l = a ++ [c] := by
  induction l with
  | nil => cases h
  | cons x r ih =>
    by_cases hx : x = c
    · exact ⟨[], by simp, by simp [throughFirst, hx]⟩
    · have hr : c ∈ r := by
        rcases List.mem_cons.mp h with h | h
        · exact absurd h.symm hx
        · exact h
      obtain ⟨a, ha, he⟩ := ih hr
      refine ⟨x :: a, ?_, by simp [throughFirst, hx, he]⟩
      intro hm
      rcases List.mem_cons.mp hm with h | h
      · exact hx h.symm
      · exact ha h

/-! ### decimal text and `u16::from_str` -/

theorem digit_byte (n : Nat) : isDigit (UInt8.ofNat (0x30 + n % 10)) = true ∧
    (UInt8.ofNat (0x30 + n % 10)).toNat - 0x30 = n % 10 := by
  have h : n % 10 < 10 := Nat.mod_lt _ (by decide)
  generalize n % 10 = d at h
  have : d = 0 ∨ d = 1 ∨ d = 2 ∨ d = 3 ∨ d = 4 ∨ d = 5 ∨ d = 6 ∨ d = 7 ∨ d = 8 ∨ d = 9 := by omega
  rcases this with h | h | h | h | h | h | h | h | h | h <;> subst h <;> decide

theorem natToDecAux_digits (fuel n : Nat) (acc : Bytes) (h : ∀ b ∈ acc, isDigit b = true) :
    ∀ b ∈ natToDecAux fuel n acc, isDigit b = true := by
  induction fuel generalizing n acc with
  | zero => simpa [natToDecAux] using h
  | succ f ih =>
    have hacc : ∀ b ∈ UInt8.ofNat (0x30 + n % 10) :: acc, isDigit b = true := by
      intro b hb
      rcases List.mem_cons.mp hb with hb | hb
      · rw [hb]; exact (digit_byte n).1
      · exact h b hb
    simp only [natToDecAux]
    split
    · exact hacc
    · exact ih _ _ hacc

theorem natToDecAux_ne_nil (fuel n : Nat) (acc : Bytes) (h : acc ≠ []) : natToDecAux fuel n acc ≠ [] := by
  induction fuel generalizing n acc with
  | zero => simpa [natToDecAux] using h
  | succ f ih =>
    simp only [natToDecAux]
    split
    · simp
    · exact ih _ _ (List.cons_ne_nil _ _)

theorem natToDecAux_succ_ne_nil (f n : Nat) (acc : Bytes) : natToDecAux (f + 1) n acc ≠ [] := by
  rw [natToDecAux]
  split
  · simp
  · exact natToDecAux_ne_nil _ _ _ (List.cons_ne_nil _ _)

theorem natToDec_ne_nil (n : Nat) : natToDec n ≠ [] := natToDecAux_succ_ne_nil 5 n []

theorem natToDec_digits (n : Nat) : ∀ b ∈ natToDec n, isDigit b = true :=
  natToDecAux_digits 6 n [] (by simp)

theorem digitsVal_natToDecAux (fuel n : Nat) (acc : Bytes) (h : n < 10 ^ fuel) :
    digitsVal (natToDecAux fuel n acc) 0 = digitsVal acc n := by
  induction fuel generalizing n acc with
  | zero =>
    have : n = 0 := by simpa using h
    simp [natToDecAux, this]
  | succ f ih =>
    simp only [natToDecAux]
    split
    · rename_i h0
      simp only [digitsVal, (digit_byte n).2]
      congr 1; omega
    · have hlt : n / 10 < 10 ^ f := by
        rw [Nat.pow_succ] at h
        omega
      rw [ih _ _ hlt]
      simp only [digitsVal, (digit_byte n).2]
      congr 1; omega

theorem digitsVal_natToDec (p : Nat) (h : p ≤ 65535) : digitsVal (natToDec p) 0 = p := by
  have : p < 10 ^ 6 := by omega
  simpa [natToDec, digitsVal] using digitsVal_natToDecAux 6 p [] this

theorem digit_ne_plus (b : UInt8) (h : isDigit b = true) : b ≠ cPlus := by
  intro he; subst he; revert h; decide

/-- a non-empty all-digit text in range parses to its value -/
theorem parseU16_of_digits (s : Bytes) (hne : s ≠ []) (hd : ∀ b ∈ s, isDigit b = true)
    (hv : digitsVal s 0 ≤ 65535) : parseU16 s = some (digitsVal s 0) := by
  cases s with
  | nil => exact absurd rfl hne
  | cons x r =>
    have hx : ¬ x = cPlus := digit_ne_plus x (hd x List.mem_cons_self)
    have hall : (x :: r).all isDigit = true := by
      rw [List.all_eq_true]; exact hd
    simp only [parseU16, hx, if_false, List.isEmpty_cons, hall, Bool.not_true, Bool.or_self,
      Bool.false_eq_true, hv, if_true]

theorem parseU16_natToDec (p : Nat) (h : p ≤ 65535) : parseU16 (natToDec p) = some p := by
  have hv := digitsVal_natToDec p h
  have := parseU16_of_digits (natToDec p) (natToDec_ne_nil p) (natToDec_digits p) (by omega)
  rw [this, hv]

/-- what `parseU16` accepts consists of digits and '+' and is in range -/
theorem parseU16_core (ds : Bytes) (p : Nat)
    (h : (if (ds.isEmpty || !ds.all isDigit) = true then none
          else if digitsVal ds 0 ≤ 65535 then some (digitsVal ds 0) else none) = some p) :
    (∀ b ∈ ds, isDigit b = true) ∧ p ≤ 65535 := by
  split at h
  · cases h
  · rename_i hc
    simp only [Bool.or_eq_true, Bool.not_eq_true', not_or, Bool.not_eq_false] at hc
    split at h
    · rename_i hv
      refine ⟨?_, by cases h; exact hv⟩
      have hall := hc.2
      rwa [List.all_eq_true] at hall
    · cases h

theorem parseU16_some (s : Bytes) (p : Nat) (h : parseU16 s = some p) :
    (∀ b ∈ s, isDigit b = true ∨ b = cPlus) ∧ p ≤ 65535 := by
  cases s with
  | nil => simp [parseU16] at h
  | cons x r =>
    by_cases hx : x = cPlus
    · simp only [parseU16, hx, if_true] at h
      obtain ⟨h1, h2⟩ := parseU16_core r p h
      refine ⟨?_, h2⟩
      intro b hb
      rcases List.mem_cons.mp hb with hb | hb
      · right; rw [hb, hx]
      · left; exact h1 b hb
    · simp only [parseU16, hx, if_false] at h
      obtain ⟨h1, h2⟩ := parseU16_core (x :: r) p h
      exact ⟨fun b hb => Or.inl (h1 b hb), h2⟩

theorem parseU16_none_of_mem (s : Bytes) (b : UInt8) (hb : b ∈ s) (h1 : isDigit b = false) (h2 : b ≠ cPlus) :
    parseU16 s = none := by
  cases h : parseU16 s with
  | none => rfl
  | some p =>
    rcases (parseU16_some s p h).1 b hb with h' | h'
    · rw [h1] at h'; cases h'
    · exact absurd h' h2

/-! ### heads -/

theorem throughFirst_head? (c : UInt8) (l : Bytes) : (throughFirst c l).head? = l.head? := by
  cases l with
  | nil => rfl
  | cons x r => simp only [throughFirst]; split <;> rfl

theorem beforeFirst_head? (c y : UInt8) (l : Bytes) (h : (beforeFirst c l).head? = some y) :
    l.head? = some y := by
  cases l with
  | nil => simp [beforeFirst] at h
  | cons x r =>
    simp only [beforeFirst] at h
    split at h
    · simp at h
    · simpa using h

theorem beforeFirst_append_head? (c y : UInt8) (l X : Bytes)
    (h : (beforeFirst c l ++ c :: X).head? = some y) : y = c ∨ l.head? = some y := by
  cases l with
  | nil => left; simpa [beforeFirst, eq_comm] using h
  | cons x r =>
    simp only [beforeFirst] at h
    split at h
    · left; simpa [eq_comm] using h
    · right; simpa using h

theorem head?_append_of {α : Type} (a b : List α) (y : α) (h : a.head? = some y) :
    (a ++ b).head? = some y := by
  cases a with
  | nil => simp at h
  | cons x r => simpa using h

/-! ### `hostOf` / `portOf` -/

theorem hostOf_nil_of (raw : Bytes) (h : afterLast cAt raw = []) : hostOf raw = [] := by
  simp only [hostOf, h]

theorem hostOf_cons_of (raw : Bytes) (x : UInt8) (r : Bytes) (h : afterLast cAt raw = x :: r) :
    hostOf raw = if x = cLBr then throughFirst cRBr (x :: r) else beforeFirst cColon (x :: r) := by
  simp only [hostOf, h]

theorem mem_afterLast_of_mem_hostOf (raw : Bytes) (b : UInt8) (h : b ∈ hostOf raw) :
    b ∈ afterLast cAt raw := by
  cases hh : afterLast cAt raw with
  | nil => rw [hostOf_nil_of raw hh] at h; cases h
  | cons x r =>
    rw [hostOf_cons_of raw x r hh] at h
    split at h
    · exact mem_of_mem_throughFirst _ _ _ h
    · exact mem_of_mem_beforeFirst _ _ _ h

theorem mem_of_mem_hostOf (raw : Bytes) (b : UInt8) (h : b ∈ hostOf raw) : b ∈ raw :=
  mem_of_mem_afterLast _ _ _ (mem_afterLast_of_mem_hostOf raw b h)

theorem hostOf_not_at (raw : Bytes) : cAt ∉ hostOf raw :=
  fun h => afterLast_not_mem cAt raw (mem_afterLast_of_mem_hostOf raw cAt h)

theorem hostOf_bracket (l : Bytes) (h : cAt ∉ l) (hh : l.head? = some cLBr) :
    hostOf l = throughFirst cRBr l := by
  cases l with
  | nil => simp at hh
  | cons x r =>
    simp only [List.head?_cons, Option.some.injEq] at hh
    rw [hostOf_cons_of _ x r (afterLast_of_not_mem cAt _ h)]
    simp [hh]

theorem hostOf_plain (l : Bytes) (h : cAt ∉ l) (hh : l.head? ≠ some cLBr) :
    hostOf l = beforeFirst cColon l := by
  cases l with
  | nil => rfl
  | cons x r =>
    simp only [List.head?_cons, ne_eq, Option.some.injEq] at hh
    rw [hostOf_cons_of _ x r (afterLast_of_not_mem cAt _ h)]
    simp [hh]

theorem hostOf_afterLast_at (raw : Bytes) : hostOf (afterLast cAt raw) = hostOf raw := by
  simp only [hostOf, afterLast_idem]

theorem not_mem_of_digits (c : UInt8) (hc : isDigit c = false) (D : Bytes) (hD : ∀ b ∈ D, isDigit b = true) :
    c ∉ D := by
  intro h; rw [hD c h] at hc; cases hc

theorem portOf_some_le (raw : Bytes) (p : Nat) (h : portOf raw = some p) : p ≤ 65535 := by
  simp only [portOf] at h
  split at h
  · exact (parseU16_some _ _ h).2
  · cases h

theorem portOf_of_not_mem (l : Bytes) (h : cColon ∉ l) : portOf l = none := by
  simp [portOf, h]

theorem portOf_afterLast_at (raw : Bytes) : portOf (afterLast cAt raw) = portOf raw := by
  by_cases hat : cAt ∈ raw
  · obtain ⟨pre, hp⟩ := afterLast_decomp cAt raw hat
    generalize afterLast cAt raw = t at hp
    by_cases hc : cColon ∈ t
    · obtain ⟨q, hq⟩ := afterLast_decomp cColon t hc
      have hraw : raw = (pre ++ cAt :: q) ++ cColon :: afterLast cColon t := by
        rw [hp]; conv => lhs; rw [hq]
        simp
      have h1 : afterLast cColon raw = afterLast cColon t := by
        conv => lhs; rw [hraw]
        exact afterLast_append_cons _ _ _ (afterLast_not_mem _ _)
      have h2 : cColon ∈ raw := by rw [hp]; simp [hc]
      simp [portOf, hc, h2, h1]
    · rw [portOf_of_not_mem t hc]
      by_cases hr : cColon ∈ raw
      · have hn : cColon ∉ cAt :: t := by
          intro hm
          rcases List.mem_cons.mp hm with h | h
          · revert h; decide
          · exact hc h
        have h1 : afterLast cColon raw = afterLast cColon pre ++ cAt :: t := by
          rw [hp]; exact afterLast_append_of_not_mem _ _ _ hn
        have h2 : parseU16 (afterLast cColon raw) = none :=
          parseU16_none_of_mem _ cAt (by rw [h1]; simp) (by decide) (by decide)
        simp [portOf, hr, h2]
      · exact (portOf_of_not_mem raw hr).symm
  · rw [afterLast_of_not_mem cAt raw hat]

theorem canonAuthority_afterLast_at (raw : Bytes) :
    canonAuthority (afterLast cAt raw) = canonAuthority raw := by
  simp only [canonAuthority, portOf_afterLast_at, hostOf_afterLast_at]

/-- the port of `host:digits` -/
theorem portOf_append_dec (H : Bytes) (p : Nat) (h : p ≤ 65535) :
    portOf (H ++ cColon :: natToDec p) = some p := by
  have hn : cColon ∉ natToDec p := not_mem_of_digits _ (by decide) _ (natToDec_digits p)
  simp [portOf, afterLast_append_cons _ _ _ hn, parseU16_natToDec p h]

theorem portOf_append_rbr (a : Bytes) : portOf (a ++ [cRBr]) = none := by
  simp only [portOf]
  split
  · have hn : cColon ∉ [cRBr] := by decide
    rw [afterLast_append_of_not_mem _ _ _ hn]
    exact parseU16_none_of_mem _ cRBr (by simp) (by decide) (by decide)
  · rfl

/-! ### `canonAuthority` is idempotent -/

/-- the three shapes of a host (on an authority without '@', brackets balanced) -/
theorem host_shape (hp : Bytes) (hat : cAt ∉ hp) (hb : ∀ r, hp = cLBr :: r → cRBr ∈ r) :
    (∃ a, cRBr ∉ a ∧ hostOf hp = a ++ [cRBr] ∧ (hostOf hp).head? = some cLBr) ∨
    (hostOf hp = beforeFirst cColon hp ∧ hp.head? ≠ some cLBr) := by
  by_cases hh : hp.head? = some cLBr
  · left
    have hc : cRBr ∈ hp := by
      cases hp with
      | nil => simp at hh
      | cons x r =>
        simp only [List.head?_cons, Option.some.injEq] at hh
        subst hh
        exact List.mem_cons_of_mem _ (hb r rfl)
    obtain ⟨a, ha, he⟩ := throughFirst_decomp cRBr hp hc
    rw [hostOf_bracket hp hat hh]
    exact ⟨a, ha, he, by rw [throughFirst_head?]; exact hh⟩
  · right
    exact ⟨hostOf_plain hp hat hh, hh⟩

theorem hostOf_append_port (hp D : Bytes) (hat : cAt ∉ hp) (hb : ∀ r, hp = cLBr :: r → cRBr ∈ r)
    (hD : cAt ∉ D) : hostOf (hostOf hp ++ cColon :: D) = hostOf hp := by
  have hn : cAt ∉ hostOf hp ++ cColon :: D := by
    intro hm
    rcases List.mem_append.mp hm with h | h
    · exact hostOf_not_at hp h
    · rcases List.mem_cons.mp h with h | h
      · revert h; decide
      · exact hD h
  rcases host_shape hp hat hb with ⟨a, ha, he, hh⟩ | ⟨he, hh⟩
  · rw [hostOf_bracket _ hn (head?_append_of _ _ _ hh), he]
    simp only [List.append_assoc, List.singleton_append]
    exact throughFirst_append_cons _ _ _ ha
  · have hh' : (hostOf hp ++ cColon :: D).head? ≠ some cLBr := by
      intro h
      rw [he] at h
      rcases beforeFirst_append_head? _ _ _ _ h with h | h
      · revert h; decide
      · exact hh h
    rw [hostOf_plain _ hn hh', he]
    exact beforeFirst_append_cons _ _ _ (beforeFirst_not_mem _ _)

theorem hostOf_hostOf (hp : Bytes) (hat : cAt ∉ hp) (hb : ∀ r, hp = cLBr :: r → cRBr ∈ r) :
    hostOf (hostOf hp) = hostOf hp := by
  have hn : cAt ∉ hostOf hp := hostOf_not_at hp
  rcases host_shape hp hat hb with ⟨a, ha, he, hh⟩ | ⟨he, hh⟩
  · rw [hostOf_bracket _ hn hh, he]
    have := throughFirst_append_cons cRBr a [] ha
    simpa using this
  · have hh' : (hostOf hp).head? ≠ some cLBr := by
      intro h
      rw [he] at h
      exact hh (beforeFirst_head? _ _ _ h)
    rw [hostOf_plain _ hn hh', he]
    exact beforeFirst_of_not_mem _ _ (beforeFirst_not_mem _ _)

theorem portOf_hostOf (hp : Bytes) (hat : cAt ∉ hp) (hb : ∀ r, hp = cLBr :: r → cRBr ∈ r) :
    portOf (hostOf hp) = none := by
  rcases host_shape hp hat hb with ⟨a, _, he, _⟩ | ⟨he, _⟩
  · rw [he]; exact portOf_append_rbr a
  · rw [he]; exact portOf_of_not_mem _ (beforeFirst_not_mem _ _)

theorem canonAuthority_idem_core (hp : Bytes) (hat : cAt ∉ hp) (hb : ∀ r, hp = cLBr :: r → cRBr ∈ r) :
    canonAuthority (canonAuthority hp) = canonAuthority hp := by
  cases hpo : portOf hp with
  | none =>
    have h1 : canonAuthority hp = hostOf hp := by simp only [canonAuthority, hpo]
    rw [h1]
    simp only [canonAuthority, portOf_hostOf hp hat hb, hostOf_hostOf hp hat hb]
  | some p =>
    have hle := portOf_some_le hp p hpo
    have h1 : canonAuthority hp = hostOf hp ++ cColon :: natToDec p := by simp only [canonAuthority, hpo]
    have hD : cAt ∉ natToDec p := not_mem_of_digits _ (by decide) _ (natToDec_digits p)
    rw [h1]
    simp only [canonAuthority, portOf_append_dec _ p hle, hostOf_append_port hp _ hat hb hD]

/-- `canonAuthority` is idempotent on authorities whose bracketed host is closed -/
theorem canonAuthority_idem (raw : Bytes)
    (hb : ∀ r, afterLast cAt raw = cLBr :: r → cRBr ∈ r) :
    canonAuthority (canonAuthority raw) = canonAuthority raw := by
  rw [← canonAuthority_afterLast_at raw]
  exact canonAuthority_idem_core _ (afterLast_not_mem cAt raw) hb

theorem canonAuthority_not_at (raw : Bytes) : cAt ∉ canonAuthority raw := by
  simp only [canonAuthority]
  split
  · intro hm
    rcases List.mem_append.mp hm with h | h
    · exact hostOf_not_at raw h
    · rcases List.mem_cons.mp h with h | h
      · revert h; decide
      · exact not_mem_of_digits _ (by decide) _ (natToDec_digits _) h
  · exact hostOf_not_at raw

/-! ### structured authorities -/

theorem afterLast_at_structured (userinfo : Option Bytes) (t : Bytes) (h : cAt ∉ t) :
    afterLast cAt ((match userinfo with | some ui => ui ++ [cAt] | none => []) ++ t) = t := by
  cases userinfo with
  | none => simpa using afterLast_of_not_mem cAt t h
  | some ui =>
    have : (ui ++ [cAt]) ++ t = ui ++ cAt :: t := by simp
    simp only [this]
    exact afterLast_append_cons _ _ _ h

theorem hostOf_plain_tail (userinfo : Option Bytes) (host tail : Bytes)
    (hh : host ≠ [] ∧ cAt ∉ host ∧ cColon ∉ host ∧ host.head? ≠ some cLBr)
    (ht : cAt ∉ tail) (hs : tail = [] ∨ ∃ p, tail = cColon :: p) :
    hostOf ((match userinfo with | some ui => ui ++ [cAt] | none => []) ++ (host ++ tail)) = host := by
  obtain ⟨hne, hat, hcol, hhd⟩ := hh
  have hn : cAt ∉ host ++ tail := by
    intro hm
    rcases List.mem_append.mp hm with h | h
    · exact hat h
    · exact ht h
  rw [← hostOf_afterLast_at, afterLast_at_structured userinfo _ hn]
  have hhd' : (host ++ tail).head? ≠ some cLBr := by
    cases host with
    | nil => exact absurd rfl hne
    | cons x r => simpa using hhd
  rw [hostOf_plain _ hn hhd']
  rcases hs with hs | ⟨p, hs⟩
  · subst hs; simpa using beforeFirst_of_not_mem _ _ hcol
  · subst hs; exact beforeFirst_append_cons _ _ _ hcol

theorem hostOf_structured (userinfo : Option Bytes) (host : Bytes) (port : Option Bytes)
    (hh : host ≠ [] ∧ cAt ∉ host ∧ cColon ∉ host ∧ host.head? ≠ some cLBr)
    (hp : ∀ p, port = some p → cAt ∉ p) :
    hostOf ((match userinfo with | some ui => ui ++ [cAt] | none => []) ++
      (host ++ (match port with | some p => cColon :: p | none => []))) = host := by
  cases port with
  | none => exact hostOf_plain_tail userinfo host [] hh (by simp) (Or.inl rfl)
  | some p =>
    refine hostOf_plain_tail userinfo host (cColon :: p) hh ?_ (Or.inr ⟨p, rfl⟩)
    intro h
    rcases List.mem_cons.mp h with h | h
    · revert h; decide
    · exact hp p rfl h

theorem hostOf_v6_tail (userinfo : Option Bytes) (inner tail : Bytes)
    (hi : cAt ∉ inner ∧ cRBr ∉ inner) (ht : cAt ∉ tail) :
    hostOf ((match userinfo with | some ui => ui ++ [cAt] | none => []) ++
      ((cLBr :: inner ++ [cRBr]) ++ tail)) = cLBr :: inner ++ [cRBr] := by
  obtain ⟨hat, hrb⟩ := hi
  have hn : cAt ∉ (cLBr :: inner ++ [cRBr]) ++ tail := by
    intro hm
    rcases List.mem_append.mp hm with h | h
    · rcases List.mem_append.mp h with h | h
      · rcases List.mem_cons.mp h with h | h
        · revert h; decide
        · exact hat h
      · revert h; decide
    · exact ht h
  rw [← hostOf_afterLast_at, afterLast_at_structured userinfo _ hn]
  rw [hostOf_bracket _ hn (by simp)]
  have hrb' : cRBr ∉ cLBr :: inner := by
    intro h
    rcases List.mem_cons.mp h with h | h
    · revert h; decide
    · exact hrb h
  have := throughFirst_append_cons cRBr (cLBr :: inner) tail hrb'
  simpa using this

theorem hostOf_structured_v6 (userinfo : Option Bytes) (inner : Bytes) (port : Option Bytes)
    (hi : cAt ∉ inner ∧ cRBr ∉ inner) (hp : ∀ p, port = some p → cAt ∉ p) :
    hostOf ((match userinfo with | some ui => ui ++ [cAt] | none => []) ++
      ((cLBr :: inner ++ [cRBr]) ++ (match port with | some p => cColon :: p | none => []))) =
      cLBr :: inner ++ [cRBr] := by
  cases port with
  | none => exact hostOf_v6_tail userinfo inner [] hi (by simp)
  | some p =>
    refine hostOf_v6_tail userinfo inner (cColon :: p) hi ?_
    intro h
    rcases List.mem_cons.mp h with h | h
    · revert h; decide
    · exact hp p rfl h

/-! ### `canonUri` -/

theorem canonUri_some (u : Uri) (raw : Bytes) (h : u.authority = some raw) :
    canonUri u = { scheme := some canonScheme, authority := some (canonAuthority raw), path := builtPath u.path,
                   query := none, pq := some (builtPath u.path) } := by
  simp only [canonUri, h]

theorem canonUri_none (u : Uri) (h : u.authority = none) : canonUri u = u := by
  simp only [canonUri, h]

theorem canonScheme_eq : canonScheme = N.ipp := by decide

theorem renderUri_canonUri (u : Uri) (raw : Bytes) (h : u.authority = some raw) :
    renderUri (canonUri u) =
      N.ipp ++ ([cColon, cSlash, cSlash] ++ (hostOf raw ++
        ((match portOf raw with
          | some p => cColon :: natToDec p
          | none => []) ++ builtPath u.path))) := by
  rw [canonUri_some u raw h]
  simp only [renderUri, canonAuthority, canonScheme_eq, Option.getD_some]
  cases portOf raw <;> simp

theorem canonUri_fixed_authority (u : Uri) (h : canonUri u = u)
    (hq : u.query.isSome ∨ u.scheme ≠ some N.ipp) : u.authority = none := by
  cases ha : u.authority with
  | none => rfl
  | some raw =>
    rw [canonUri_some u raw ha] at h
    have h1 : u.query = none := by rw [← h]
    have h2 : u.scheme = some N.ipp := by rw [← h, canonScheme_eq]
    rcases hq with hq | hq
    · rw [h1] at hq; cases hq
    · exact absurd h2 hq

theorem canonUri_idem (u : Uri)
    (hb : ∀ raw, u.authority = some raw → ∀ r, afterLast cAt raw = cLBr :: r → cRBr ∈ r) :
    canonUri (canonUri u) = canonUri u := by
  cases ha : u.authority with
  | none => rw [canonUri_none u ha, canonUri_none u ha]
  | some raw =>
    have hbp : builtPath (builtPath u.path) = builtPath u.path := by
      unfold builtPath; split <;> simp_all
    rw [canonUri_some u raw ha, canonUri_some _ (canonAuthority raw) rfl,
      canonAuthority_idem raw (hb raw ha)]
    simp only [hbp]

theorem newRequest_printer_uri (ver : UInt16) (op : Operation) (u : Uri) :
    ∃ g, (newRequest ver op (some u)).groups = [g] ∧
      sget A.PRINTER_URI g.attrs = some (.str .uri (renderUri (canonUri u))) := by
  have hg : (newRequest ver op (some u)).groups =
      [⟨.OperationAttributes, sinsert A.PRINTER_URI (.str .uri (renderUri (canonUri u)))
        (sinsert A.ATTRIBUTES_NATURAL_LANGUAGE (.str .naturalLanguage enLit)
          (sinsert A.ATTRIBUTES_CHARSET (.str .charset utf8Lit) []))⟩] := by
    simp [newRequest, addAttr]
  exact ⟨_, hg, SM0.sget_sinsert_self _ _ _⟩

/-! ### `transportUrl` -/

theorem arms_eq : transportArms = [(N.ipps, N.https, 443), (N.ipp, N.http, 631)] := by decide

theorem dec_631 : natToDec 631 = port631 := by decide
theorem dec_443 : natToDec 443 = [0x34, 0x34, 0x33] := by decide

theorem transportUrl_ipp (raw path : Bytes) (q pq : Option Bytes) :
    transportUrl ⟨some N.ipp, some raw, path, q, pq⟩ =
      N.http ++ ([cColon, cSlash, cSlash] ++
        ((if (portOf raw).isSome then raw else raw ++ (cColon :: port631)) ++ pq.getD [])) := by
  have h1 : (N.ipps == N.ipp) = false := by decide
  have h2 : (N.ipp == N.ipp) = true := by decide
  simp only [transportUrl, arms_eq, List.find?, h1, h2, dec_631]

theorem transportUrl_ipps (raw path : Bytes) (q pq : Option Bytes) :
    transportUrl ⟨some N.ipps, some raw, path, q, pq⟩ =
      N.https ++ ([cColon, cSlash, cSlash] ++
        ((if (portOf raw).isSome then raw else raw ++ (cColon :: [0x34, 0x34, 0x33])) ++ pq.getD [])) := by
  have h1 : (N.ipps == N.ipps) = true := by decide
  simp only [transportUrl, arms_eq, List.find?, h1, dec_443]

theorem transportUrl_other (u : Uri) (h1 : u.scheme ≠ some N.ipp) (h2 : u.scheme ≠ some N.ipps) :
    transportUrl u = renderUri u := by
  cases hs : u.scheme with
  | none => simp only [transportUrl, hs]
  | some s =>
    have e1 : (N.ipp == s) = false := by
      rw [hs] at h1
      simpa using fun h => h1 (by rw [h])
    have e2 : (N.ipps == s) = false := by
      rw [hs] at h2
      simpa using fun h => h2 (by rw [h])
    simp only [transportUrl, hs, arms_eq, List.find?, e1, e2]

theorem transportUrl_none_authority (u : Uri) (h : u.authority = none) : transportUrl u = renderUri u := by
  simp only [transportUrl, h]
  split
  · rfl
  · split <;> rfl

theorem transportUrl_eq_spec (u : Uri)
    (h : ¬ (u.scheme = some N.ipps ∧ ∃ raw, u.authority = some raw ∧ portOf raw = none)) :
    transportUrl u = transportUrlSpec u := by
  obtain ⟨scheme, authority, path, query, pq⟩ := u
  cases authority with
  | none =>
    rw [transportUrl_none_authority _ rfl]
    simp only [transportUrlSpec]
  | some raw =>
    cases scheme with
    | none => simp only [transportUrl, transportUrlSpec]
    | some s =>
      by_cases hs1 : s = N.ipp
      · subst hs1
        rw [transportUrl_ipp]
        simp [transportUrlSpec]
      · by_cases hs2 : s = N.ipps
        · subst hs2
          have hp : (portOf raw).isSome = true := by
            cases hpo : portOf raw with
            | some p => rfl
            | none => exact absurd ⟨rfl, raw, rfl, hpo⟩ h
          rw [transportUrl_ipps]
          have hne : ¬ (N.ipps = N.ipp) := by decide
          simp [transportUrlSpec, hp, hne]
        · rw [transportUrl_other _ (by simpa using hs1) (by simpa using hs2)]
          simp [transportUrlSpec, hs1, hs2]

end Ipp.UriL
