/-
  Lookup laws of the sorted association list (`sinsert` / `sget`), independent of sortedness.
-/
import IppModel.Model.SMap
namespace Ipp.SM0
open Ipp

variable {α : Type}

theorem sget_sinsert (k j : Bytes) (v : α) (l : List (Bytes × α)) :
    sget j (sinsert k v l) = if j = k then some v else sget j l := by
  induction l with
  | nil => simp [sinsert, sget]
  | cons p r ih =>
    obtain ⟨k', v'⟩ := p
    simp only [sinsert]
    split
    · simp [sget]
    · split
      · rename_i _ heq; subst heq; simp only [sget]; split <;> rfl
      · rename_i _ hne
        simp only [sget, ih]
        by_cases h1 : j = k'
        · subst h1; simp [Ne.symm hne]
        · simp [h1]

theorem sget_sinsert_self (k : Bytes) (v : α) (l : List (Bytes × α)) : sget k (sinsert k v l) = some v := by
  simp [sget_sinsert]

theorem sget_sinsert_ne (k j : Bytes) (v : α) (l : List (Bytes × α)) (h : j ≠ k) :
    sget j (sinsert k v l) = sget j l := by
  simp [sget_sinsert, h]

theorem sget_isSome_sinsert (k j : Bytes) (v : α) (l : List (Bytes × α)) (h : (sget j l).isSome) :
    (sget j (sinsert k v l)).isSome := by
  rw [sget_sinsert]; split <;> simp [h]

/-- `sinsertAll` one step at the end -/
theorem sinsertAll_append (l1 l2 m : List (Bytes × α)) :
    sinsertAll (l1 ++ l2) m = sinsertAll l2 (sinsertAll l1 m) := by
  simp [sinsertAll, List.foldl_append]

theorem sinsertAll_nil (m : List (Bytes × α)) : sinsertAll [] m = m := rfl

theorem sinsertAll_cons (p : Bytes × α) (l m : List (Bytes × α)) :
    sinsertAll (p :: l) m = sinsertAll l (sinsert p.1 p.2 m) := rfl

/-- lookup in a fold of inserts: the last pair with that key wins, else the start map -/
theorem sget_sinsertAll (j : Bytes) (l m : List (Bytes × α)) :
    sget j (sinsertAll l m) =
      match (l.reverse.find? (fun p => p.1 == j)) with
      | some p => some p.2
      | none => sget j m := by
  induction l generalizing m with
  | nil => simp [sinsertAll]
  | cons p r ih =>
    rw [sinsertAll_cons, ih]
    simp only [List.reverse_cons, List.find?_append]
    cases h : r.reverse.find? (fun p => p.1 == j) with
    | some q => simp
    | none =>
      simp only [Option.none_or, List.find?_cons, List.find?_nil]
      by_cases hj : p.1 = j
      · subst hj; simp [sget_sinsert]
      · have : (p.1 == j) = false := by simpa using hj
        simp [this, sget_sinsert, Ne.symm hj]

end Ipp.SM0
