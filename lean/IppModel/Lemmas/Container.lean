/-
  Lemmas about the attribute container (`addAttr`, histories of additions) and the value iterator,
  used by Props/C19 and Props/C17.
-/
import IppModel.Model.Iter
import IppModel.Model.Attr
import IppModel.Lemmas.SMapBasic
namespace Ipp.Container
open Ipp Ipp.Gen Ipp.SM0

abbrev Op := DelimiterTag × Bytes × Value

/-! ### one addition -/

theorem addAttr_into_first (pre post : List Group) (g : Group) (t : DelimiterTag) (n : Bytes) (v : Value)
    (hpre : ∀ x ∈ pre, x.tag ≠ t) (hg : g.tag = t) :
    addAttr t n v (pre ++ g :: post) = pre ++ { g with attrs := sinsert n v g.attrs } :: post := by
  induction pre with
  | nil => simp [addAttr, hg]
  | cons x r ih =>
    have hx : x.tag ≠ t := hpre x (by simp)
    have hr : ∀ y ∈ r, y.tag ≠ t := fun y hy => hpre y (by simp [hy])
    simp only [List.cons_append, addAttr, hx, if_false, ih hr]

theorem addAttr_appends_new (gs : List Group) (t : DelimiterTag) (n : Bytes) (v : Value) (h : ∀ x ∈ gs, x.tag ≠ t) :
    addAttr t n v gs = gs ++ [⟨t, [(n, v)]⟩] := by
  induction gs with
  | nil => simp [addAttr, sinsert]
  | cons x r ih =>
    have hx : x.tag ≠ t := h x (by simp)
    have hr : ∀ y ∈ r, y.tag ≠ t := fun y hy => h y (by simp [hy])
    simp only [List.cons_append, addAttr, hx, if_false, ih hr]

/-- the kinds after one addition -/
theorem tags_addAttr (t : DelimiterTag) (n : Bytes) (v : Value) (gs : List Group) :
    (addAttr t n v gs).map (·.tag) =
      if (gs.map (·.tag)).contains t then gs.map (·.tag) else gs.map (·.tag) ++ [t] := by
  induction gs with
  | nil => simp [addAttr]
  | cons x r ih =>
    simp only [addAttr]
    by_cases hx : x.tag = t
    · simp [hx]
    · have hx' : (t == x.tag) = false := by simpa using Ne.symm hx
      simp only [hx, if_false, List.map_cons, ih, List.contains_cons, hx', Bool.false_or]
      split <;> simp

/-- addition to a duplicate-free, kind-indexed list of groups -/
theorem addAttr_map (f : DelimiterTag → Group) (hf : ∀ t, (f t).tag = t) (t0 : DelimiterTag) (n : Bytes) (v : Value)
    (l : List DelimiterTag) (hl : l.Nodup) :
    addAttr t0 n v (l.map f) =
      if t0 ∈ l then l.map (fun t => if t = t0 then ⟨t, sinsert n v (f t).attrs⟩ else f t)
      else l.map f ++ [⟨t0, [(n, v)]⟩] := by
  induction l with
  | nil => simp [addAttr, sinsert]
  | cons x r ih =>
    have hxr : x ∉ r := (List.nodup_cons.mp hl).1
    have hr : r.Nodup := (List.nodup_cons.mp hl).2
    simp only [List.map_cons, addAttr, hf]
    by_cases hx : x = t0
    · subst hx
      have : r.map (fun t => if t = x then (⟨t, sinsert n v (f t).attrs⟩ : Group) else f t) = r.map f := by
        apply List.map_congr_left
        intro a ha
        have : a ≠ x := fun e => hxr (e ▸ ha)
        simp [this]
      simp [this]
    · have hx' : t0 ≠ x := Ne.symm hx
      simp only [hx, if_false, ih hr, List.mem_cons, hx', false_or]
      split <;> simp

/-! ### histories -/

/-- kinds in order of first use, starting from `acc` -/
def fuA (acc : List DelimiterTag) (ts : List DelimiterTag) : List DelimiterTag :=
  ts.foldl (fun acc t => if acc.contains t then acc else acc ++ [t]) acc

def adds (gs : List Group) (ops : List Op) : List Group :=
  ops.foldl (fun g o => addAttr o.1 o.2.1 o.2.2 g) gs

def opsFor (t : DelimiterTag) (ops : List Op) : List (Bytes × Value) :=
  (ops.filter fun o => o.1 = t).map fun o => (o.2.1, o.2.2)

theorem fuA_nodup (acc ts : List DelimiterTag) (h : acc.Nodup) : (fuA acc ts).Nodup := by
  induction ts generalizing acc with
  | nil => exact h
  | cons t r ih =>
    simp only [fuA, List.foldl_cons]
    apply ih
    split
    · exact h
    · rename_i hc
      have : t ∉ acc := by simpa using hc
      rw [List.nodup_append]
      refine ⟨h, by simp, ?_⟩
      intro a ha b hb
      simp at hb; subst hb
      exact fun e => this (e ▸ ha)

theorem mem_fuA (acc ts : List DelimiterTag) (t : DelimiterTag) : t ∈ fuA acc ts ↔ t ∈ acc ∨ t ∈ ts := by
  induction ts generalizing acc with
  | nil => simp [fuA]
  | cons x r ih =>
    simp only [fuA, List.foldl_cons] at ih ⊢
    rw [ih]
    split
    · rename_i hc
      have hx : x ∈ acc := by simpa using hc
      simp only [List.mem_cons]
      constructor
      · rintro (h | h)
        · exact Or.inl h
        · exact Or.inr (Or.inr h)
      · rintro (h | h | h)
        · exact Or.inl h
        · exact Or.inl (h ▸ hx)
        · exact Or.inr h
    · simp only [List.mem_append, List.mem_cons, List.not_mem_nil, or_false, or_assoc]

theorem fuA_snoc (acc ts : List DelimiterTag) (t : DelimiterTag) :
    fuA acc (ts ++ [t]) = if (fuA acc ts).contains t then fuA acc ts else fuA acc ts ++ [t] := by
  simp [fuA, List.foldl_append]

theorem opsFor_snoc (t : DelimiterTag) (ops : List Op) (o : Op) :
    opsFor t (ops ++ [o]) = opsFor t ops ++ (if o.1 = t then [(o.2.1, o.2.2)] else []) := by
  simp only [opsFor, List.filter_append, List.map_append, List.filter_cons, List.filter_nil]
  by_cases h : o.1 = t <;> simp [h]

/-- the state described by a history -/
def S (ops : List Op) : List Group :=
  (fuA [] (ops.map (·.1))).map fun t => ⟨t, sinsertAll (opsFor t ops) []⟩

theorem S_step (pre : List Op) (o : Op) : addAttr o.1 o.2.1 o.2.2 (S pre) = S (pre ++ [o]) := by
  obtain ⟨t0, n, v⟩ := o
  simp only [S]
  rw [addAttr_map (fun t => ⟨t, sinsertAll (opsFor t pre) []⟩) (fun _ => rfl) t0 n v _
    (fuA_nodup [] _ List.nodup_nil)]
  simp only [List.map_append, List.map_cons, List.map_nil, fuA_snoc, List.contains_iff_mem]
  split
  · apply List.map_congr_left
    intro a _
    rw [opsFor_snoc, sinsertAll_append]
    by_cases h : a = t0
    · subst h; simp [sinsertAll]
    · simp [h, Ne.symm h, sinsertAll]
  · rename_i hn
    rw [List.map_append]
    congr 1
    · apply List.map_congr_left
      intro a ha
      have h : t0 ≠ a := fun e => hn (e ▸ ha)
      rw [opsFor_snoc]
      simp [h]
    · have : opsFor t0 pre = [] := by
        simp only [opsFor, List.map_eq_nil_iff, List.filter_eq_nil_iff]
        intro o ho
        simp only [decide_eq_true_eq]
        intro e
        apply hn
        rw [mem_fuA]
        exact Or.inr (List.mem_map.mpr ⟨o, ho, e⟩)
      simp [opsFor_snoc, this, sinsertAll, sinsert]

theorem adds_S (pre ops : List Op) : adds (S pre) ops = S (pre ++ ops) := by
  induction ops generalizing pre with
  | nil => simp [adds]
  | cons o r ih =>
    have := ih (pre ++ [o])
    simp only [adds, List.foldl_cons, List.append_assoc, List.cons_append, List.nil_append] at this ⊢
    rw [S_step]
    exact this

theorem adds_from_empty (ops : List Op) :
    adds [] ops = (fuA [] (ops.map (·.1))).map fun t => ⟨t, sinsertAll (opsFor t ops) []⟩ := by
  have := adds_S [] ops
  simpa [S, fuA] using this

/-- first-use order from an arbitrary start, in terms of the one from the empty start -/
theorem fuA_eq (acc ts : List DelimiterTag) :
    fuA acc ts = acc ++ (fuA [] ts).filter (fun t => !acc.contains t) := by
  induction ts generalizing acc with
  | nil => simp [fuA]
  | cons x r ih =>
    have e1 : fuA acc (x :: r) = fuA (if acc.contains x then acc else acc ++ [x]) r := rfl
    have e2 : fuA [] (x :: r) = fuA [x] r := rfl
    rw [e1, e2, ih [x]]
    split
    · rename_i hc
      rw [ih acc, List.filter_append, List.filter_filter]
      have hx : x ∈ acc := by simpa using hc
      have : List.filter (fun t => !acc.contains t) [x] = [] := by simp [hx]
      rw [this, List.nil_append]
      congr 1
      apply List.filter_congr
      intro a _
      by_cases ha : a ∈ acc
      · simp [ha]
      · have : a ≠ x := fun e => ha (e ▸ hx)
        simp [ha, this]
    · rename_i hc
      have hx : x ∉ acc := by simpa using hc
      rw [ih (acc ++ [x]), List.filter_append, List.filter_filter]
      have : List.filter (fun t => !acc.contains t) [x] = [x] := by simp [hx]
      rw [this, List.append_assoc]
      congr 2
      apply List.filter_congr
      intro a _
      by_cases ha : a ∈ acc <;> by_cases hax : a = x <;> simp [ha, hax, hx]

theorem tags_adds (gs : List Group) (ops : List Op) :
    (adds gs ops).map (·.tag) = fuA (gs.map (·.tag)) (ops.map (·.1)) := by
  induction ops generalizing gs with
  | nil => simp [adds, fuA]
  | cons o r ih =>
    have := ih (addAttr o.1 o.2.1 o.2.2 gs)
    simp only [adds, fuA, List.foldl_cons, List.map_cons] at this ⊢
    rw [this, tags_addAttr]

end Ipp.Container
