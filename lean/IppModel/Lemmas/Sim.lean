/-
  Simulation between readers: if two readers answer every `read_exact` alike (same error kind, or the
  same bytes and related remainders), the drive loop and the whole parser produce related outcomes.
  Instances for the scripted readers against the flat reader (`cutRd e`: the flat reader whose
  end-of-input error is `e`), of the async reader against the blocking one, and of `deliver`.
-/
import IppModel.Model.Sources
import IppModel.Lemmas.Total
namespace Ipp
open Gen

variable {ρ1 ρ2 σ α : Type}

/-! ### relational outcomes -/

inductive RdRel (R : ρ1 → ρ2 → Prop) : Except IoKind (Bytes × ρ1) → Except IoKind (Bytes × ρ2) → Prop
  | ok (bs : Bytes) (r1 : ρ1) (r2 : ρ2) : R r1 r2 → RdRel R (.ok (bs, r1)) (.ok (bs, r2))
  | error (k : IoKind) : RdRel R (.error k) (.error k)

inductive OutRel (R : ρ1 → ρ2 → Prop) : Outcome (α × ρ1) → Outcome (α × ρ2) → Prop
  | ok (a : α) (r1 : ρ1) (r2 : ρ2) : R r1 r2 → OutRel R (.ok (a, r1)) (.ok (a, r2))
  | err (e : Err) : OutRel R (.err e) (.err e)
  | panic : OutRel R .panic .panic
  | oof : OutRel R .outOfFuel .outOfFuel

/-- the two readers answer alike on related states -/
def Sim (rd1 : Reader ρ1) (rd2 : Reader ρ2) (R : ρ1 → ρ2 → Prop) : Prop :=
  ∀ n r1 r2, R r1 r2 → RdRel R (rd1.readExact n r1) (rd2.readExact n r2)

theorem OutRel.mapRest_eq {R : ρ1 → ρ2 → Prop} {f : ρ1 → ρ2} {o1 : Outcome (α × ρ1)} {o2 : Outcome (α × ρ2)}
    (h : OutRel R o1 o2) (hf : ∀ r1 r2, R r1 r2 → f r1 = r2) : o1.mapRest f = o2 := by
  cases h with
  | ok a r1 r2 hR => simp only [Outcome.mapRest, hf r1 r2 hR]
  | err e => rfl
  | panic => rfl
  | oof => rfl

theorem OutRel.eq_of_eq {R : ρ1 → ρ1 → Prop} {o1 o2 : Outcome (α × ρ1)}
    (h : OutRel R o1 o2) (hf : ∀ r1 r2, R r1 r2 → r1 = r2) : o1 = o2 := by
  cases h with
  | ok a r1 r2 hR => rw [hf r1 r2 hR]
  | err e => rfl
  | panic => rfl
  | oof => rfl

theorem OutRel.err_right {R : ρ1 → ρ2 → Prop} {o1 : Outcome (α × ρ1)} {o2 : Outcome (α × ρ2)} {e : Err}
    (h : OutRel R o1 o2) (h2 : o2 = .err e) : o1 = .err e := by
  cases h with
  | ok a r1 r2 hR => cases h2
  | err e' => cases h2; rfl
  | panic => cases h2
  | oof => cases h2

/-! ### lifting through the field readers -/

section lift
variable {rd1 : Reader ρ1} {rd2 : Reader ρ2} {R : ρ1 → ρ2 → Prop}

theorem rdU8_sim (H : Sim rd1 rd2 R) {r1 : ρ1} {r2 : ρ2} (hR : R r1 r2) :
    OutRel R (rdU8 rd1 r1) (rdU8 rd2 r2) := by
  have h := H 1 r1 r2 hR
  unfold rdU8
  generalize rd1.readExact 1 r1 = x at h ⊢
  generalize rd2.readExact 1 r2 = y at h ⊢
  cases h with
  | error k => exact .err _
  | ok bs r1' r2' hR' =>
    cases bs with
    | nil => exact .panic
    | cons b t => exact .ok _ _ _ hR'

theorem rdU16_sim (H : Sim rd1 rd2 R) {r1 : ρ1} {r2 : ρ2} (hR : R r1 r2) :
    OutRel R (rdU16 rd1 r1) (rdU16 rd2 r2) := by
  have h := H 2 r1 r2 hR
  unfold rdU16
  generalize rd1.readExact 2 r1 = x at h ⊢
  generalize rd2.readExact 2 r2 = y at h ⊢
  cases h with
  | error k => exact .err _
  | ok bs r1' r2' hR' =>
    rcases bs with _ | ⟨a, _ | ⟨b, t⟩⟩
    · exact .panic
    · exact .panic
    · exact .ok _ _ _ hR'

theorem rdU32_sim (H : Sim rd1 rd2 R) {r1 : ρ1} {r2 : ρ2} (hR : R r1 r2) :
    OutRel R (rdU32 rd1 r1) (rdU32 rd2 r2) := by
  have h := H 4 r1 r2 hR
  unfold rdU32
  generalize rd1.readExact 4 r1 = x at h ⊢
  generalize rd2.readExact 4 r2 = y at h ⊢
  cases h with
  | error k => exact .err _
  | ok bs r1' r2' hR' =>
    rcases bs with _ | ⟨a, _ | ⟨b, _ | ⟨c, _ | ⟨d, t⟩⟩⟩⟩
    · exact .panic
    · exact .panic
    · exact .panic
    · exact .panic
    · exact .ok _ _ _ hR'

theorem rdLV_sim (H : Sim rd1 rd2 R) {r1 : ρ1} {r2 : ρ2} (hR : R r1 r2) :
    OutRel R (rdLV rd1 r1) (rdLV rd2 r2) := by
  have h := rdU16_sim H hR
  unfold rdLV
  generalize rdU16 rd1 r1 = x at h ⊢
  generalize rdU16 rd2 r2 = y at h ⊢
  cases h with
  | err e => exact .err _
  | panic => exact .panic
  | oof => exact .oof
  | ok n r1' r2' hR' =>
    have h2 := H n r1' r2' hR'
    simp only []
    generalize rd1.readExact n r1' = x at h2 ⊢
    generalize rd2.readExact n r2' = y at h2 ⊢
    cases h2 with
    | error k => exact .err _
    | ok bs r1'' r2'' hR'' => exact .ok _ _ _ hR''

theorem rdHeader_sim (H : Sim rd1 rd2 R) {r1 : ρ1} {r2 : ρ2} (hR : R r1 r2) :
    OutRel R (rdHeader rd1 r1) (rdHeader rd2 r2) := by
  have h := rdU16_sim H hR
  unfold rdHeader
  generalize rdU16 rd1 r1 = x at h ⊢
  generalize rdU16 rd2 r2 = y at h ⊢
  cases h with
  | err e => exact .err _
  | panic => exact .panic
  | oof => exact .oof
  | ok v r1' r2' hR' =>
    have h2 := rdU16_sim H hR'
    simp only []
    generalize rdU16 rd1 r1' = x at h2 ⊢
    generalize rdU16 rd2 r2' = y at h2 ⊢
    cases h2 with
    | err e => exact .err _
    | panic => exact .panic
    | oof => exact .oof
    | ok o r1'' r2'' hR'' =>
      have h3 := rdU32_sim H hR''
      simp only []
      generalize rdU32 rd1 r1'' = x at h3 ⊢
      generalize rdU32 rd2 r2'' = y at h3 ⊢
      cases h3 with
      | err e => exact .err _
      | panic => exact .panic
      | oof => exact .oof
      | ok i r1''' r2''' hR''' => exact .ok _ _ _ hR'''

/-- the drive loop over two readers that answer alike gives related outcomes -/
theorem driveLoop_sim (H : Sim rd1 rd2 R) (cfg : LoopCfg) (m : Machine σ) (fuel : Nat) :
    ∀ (r1 : ρ1) (r2 : ρ2) (st : σ), R r1 r2 →
      OutRel R (driveLoop rd1 cfg m fuel r1 st) (driveLoop rd2 cfg m fuel r2 st) := by
  induction fuel with
  | zero => intro r1 r2 st _; exact .oof
  | succ f ih =>
    intro r1 r2 st hR
    have h0 := rdU8_sim H hR
    simp only [driveLoop]
    generalize rdU8 rd1 r1 = x at h0 ⊢
    generalize rdU8 rd2 r2 = y at h0 ⊢
    cases h0 with
    | err e => exact .err _
    | panic => exact .panic
    | oof => exact .oof
    | ok tag r1' r2' hR' =>
      simp only []
      by_cases hd : cfg.delimLo ≤ tag.toNat ∧ tag.toNat ≤ cfg.delimHi
      · simp only [if_pos hd]
        cases m.delim st tag with
        | error e => exact .err _
        | ok q =>
          obtain ⟨st', code⟩ := q
          simp only []
          by_cases hc : code = cfg.endTag
          · simp only [if_pos hc]; exact .ok _ _ _ hR'
          · simp only [if_neg hc]; exact ih _ _ _ hR'
      · simp only [if_neg hd]
        by_cases hv : cfg.valueLo ≤ tag.toNat ∧ tag.toNat ≤ cfg.valueHi
        · simp only [if_pos hv]
          have h1 := rdLV_sim H hR'
          generalize rdLV rd1 r1' = x at h1 ⊢
          generalize rdLV rd2 r2' = y at h1 ⊢
          cases h1 with
          | err e => exact .err _
          | panic => exact .panic
          | oof => exact .oof
          | ok name r1'' r2'' hR'' =>
            simp only []
            have h2 := rdLV_sim H hR''
            generalize rdLV rd1 r1'' = x at h2 ⊢
            generalize rdLV rd2 r2'' = y at h2 ⊢
            cases h2 with
            | err e => exact .err _
            | panic => exact .panic
            | oof => exact .oof
            | ok body r1''' r2''' hR''' =>
              simp only []
              cases m.value st tag name body with
              | err e => exact .err _
              | panic => exact .panic
              | outOfFuel => exact .oof
              | ok st' => exact ih _ _ _ hR'''
        · simp only [if_neg hv]; exact .err _

theorem parseWith_sim (H : Sim rd1 rd2 R) (cfg : LoopCfg) (fuel : Nat) (r1 : ρ1) (r2 : ρ2) (hR : R r1 r2) :
    OutRel R (parseWith rd1 cfg fuel r1) (parseWith rd2 cfg fuel r2) := by
  have h0 := rdHeader_sim H hR
  unfold parseWith
  generalize rdHeader rd1 r1 = x at h0 ⊢
  generalize rdHeader rd2 r2 = y at h0 ⊢
  cases h0 with
  | err e => exact .err _
  | panic => exact .panic
  | oof => exact .oof
  | ok hd r1' r2' hR' =>
    simp only []
    have h1 := driveLoop_sim H cfg pMachine fuel r1' r2' PState.init hR'
    generalize driveLoop rd1 cfg pMachine fuel r1' PState.init = x at h1 ⊢
    generalize driveLoop rd2 cfg pMachine fuel r2' PState.init = y at h1 ⊢
    cases h1 with
    | err e => exact .err _
    | panic => exact .panic
    | oof => exact .oof
    | ok st r1'' r2'' hR'' => exact .ok _ _ _ hR''

end lift

/-! ### the flat reader with a configurable end-of-input error -/

/-- the flat reader, failing with `e` when the bytes run out (`flatRd` is `cutRd .unexpectedEof`) -/
def cutRd (e : IoKind) : Reader Bytes where
  readExact := fun n bs => if n ≤ bs.length then .ok (bs.take n, bs.drop n) else .error e

theorem flatRd_eq_cutRd : flatRd = cutRd .unexpectedEof := rfl

theorem cutRd_laws (e : IoKind) : ReaderLaws (cutRd e) List.length where
  len := by
    intro n r bs r' h
    simp only [cutRd] at h
    split at h <;> simp at h
    obtain ⟨rfl, _⟩ := h
    simp; omega
  dec := by
    intro n r bs r' h
    simp only [cutRd] at h
    split at h <;> simp at h
    obtain ⟨_, rfl⟩ := h
    simp; omega

/-! ### facts about scripts -/

theorem size_eq_flat_length (src : Source) : Source.size src = (Source.flat src).length := by
  induction src with
  | nil => rfl
  | cons e r ih => cases e <;> simp [Source.size, Source.flat, ih]

theorem size_append (a b : Source) : Source.size (a ++ b) = Source.size a + Source.size b := by
  induction a with
  | nil => simp [Source.size]
  | cons e r ih => cases e <;> simp [Source.size, ih] <;> omega

theorem deliver_cons (e : Ev) (r : Source) :
    deliver (e :: r) = if e.isPending = true then deliver r else e :: deliver r := by
  simp only [deliver, List.filter_cons]
  cases e.isPending <;> rfl

theorem size_deliver (src : Source) : Source.size (deliver src) = Source.size src := by
  induction src with
  | nil => rfl
  | cons e r ih => cases e <;> simp [deliver_cons, Ev.isPending, Source.size, ih]

theorem deliver_deliver (src : Source) : deliver (deliver src) = deliver src := by
  simp [deliver, List.filter_filter]

/-! ### the blocking reader on `s ++ t`, `s` fault-free, every non-empty read of `t` failing with `e` -/

theorem readExactStd_app (t : Source) (e : IoKind) (ht : ∀ m, readExactStd (m + 1) t = .error e) :
    ∀ (s : Source) (n : Nat), noFault s = true →
      (n ≤ (Source.flat s).length → ∃ s', readExactStd n (s ++ t) = .ok ((Source.flat s).take n, s' ++ t) ∧
          noFault s' = true ∧ (noIntr s = true → noIntr s' = true) ∧ Source.flat s' = (Source.flat s).drop n) ∧
      ((Source.flat s).length < n → readExactStd n (s ++ t) = .error e) := by
  intro s
  induction s with
  | nil =>
    intro n _
    cases n with
    | zero => exact ⟨fun _ => ⟨[], by simp [readExactStd, Source.flat, noFault, noIntr]⟩, fun h => by simp at h⟩
    | succ m => exact ⟨fun h => by simp [Source.flat] at h, fun _ => by simpa using ht m⟩
  | cons ev rest ih =>
    intro n hf
    cases n with
    | zero =>
      exact ⟨fun _ => ⟨ev :: rest, by simp [readExactStd], hf, fun h => h, by simp⟩, fun h => by simp at h⟩
    | succ m =>
      cases ev with
      | data b =>
        have hf' : noFault rest = true := by simpa [noFault, Ev.isFail] using hf
        simp only [List.cons_append, readExactStd, Source.flat, List.length_append]
        by_cases hle : b.length ≤ m
        · simp only [if_pos hle]
          by_cases hemp : b.isEmpty = true
          · have hb : b = [] := by simpa using hemp
            subst hb
            simp only [List.isEmpty_nil, if_true, List.nil_append, List.length_nil, Nat.zero_add]
            obtain ⟨i1, i2⟩ := ih (m + 1) hf'
            refine ⟨fun h => ?_, i2⟩
            obtain ⟨s', h1, h2, h3, h4⟩ := i1 h
            exact ⟨s', h1, h2, fun hi => h3 (by simpa [noIntr, Ev.isIntr] using hi), h4⟩
          · simp only [hemp, Bool.false_eq_true, if_false]
            obtain ⟨i1, i2⟩ := ih (m + 1 - b.length) hf'
            constructor
            · intro h
              obtain ⟨s', h1, h2, h3, h4⟩ := i1 (by omega)
              refine ⟨s', ?_, h2, fun hi => h3 (by simpa [noIntr, Ev.isIntr] using hi), ?_⟩
              · rw [h1]
                simp only [List.take_append, List.take_of_length_le (Nat.le_succ_of_le hle)]
              · rw [h4]
                simp only [List.drop_append, List.drop_of_length_le (Nat.le_succ_of_le hle), List.nil_append]
            · intro h
              rw [i2 (by omega)]
        · simp only [if_neg hle]
          constructor
          · intro _
            refine ⟨.data (b.drop (m + 1)) :: rest, ?_, ?_, ?_, ?_⟩
            · simp only [List.cons_append, List.take_append_of_le_length (Nat.not_le.mp hle)]
            · simpa [noFault, Ev.isFail] using hf'
            · intro hi; simpa [noIntr, Ev.isIntr] using hi
            · simp only [Source.flat, List.drop_append_of_le_length (Nat.not_le.mp hle)]
          · intro h; omega
      | pending =>
        have hf' : noFault rest = true := by simpa [noFault, Ev.isFail] using hf
        simp only [List.cons_append, readExactStd, Source.flat]
        obtain ⟨i1, i2⟩ := ih (m + 1) hf'
        refine ⟨fun h => ?_, i2⟩
        obtain ⟨s', h1, h2, h3, h4⟩ := i1 h
        exact ⟨s', h1, h2, fun hi => h3 (by simpa [noIntr, Ev.isIntr] using hi), h4⟩
      | interrupted =>
        have hf' : noFault rest = true := by simpa [noFault, Ev.isFail] using hf
        simp only [List.cons_append, readExactStd, Source.flat]
        obtain ⟨i1, i2⟩ := ih (m + 1) hf'
        refine ⟨fun h => ?_, i2⟩
        obtain ⟨s', h1, h2, h3, h4⟩ := i1 h
        exact ⟨s', h1, h2, fun hi => h3 (by simp [noIntr, Ev.isIntr] at hi), h4⟩
      | fail k => simp [noFault, Ev.isFail] at hf

/-- the same for the async reader, on an `s` that additionally reports no `Interrupted` -/
theorem readExactFut_app (t : Source) (e : IoKind) (ht : ∀ m, readExactFut (m + 1) t = .error e) :
    ∀ (s : Source) (n : Nat), noFault s = true → noIntr s = true →
      (n ≤ (Source.flat s).length → ∃ s', readExactFut n (s ++ t) = .ok ((Source.flat s).take n, s' ++ t) ∧
          noFault s' = true ∧ noIntr s' = true ∧ Source.flat s' = (Source.flat s).drop n) ∧
      ((Source.flat s).length < n → readExactFut n (s ++ t) = .error e) := by
  intro s
  induction s with
  | nil =>
    intro n _ _
    cases n with
    | zero => exact ⟨fun _ => ⟨[], by simp [readExactFut, Source.flat, noFault, noIntr]⟩, fun h => by simp at h⟩
    | succ m => exact ⟨fun h => by simp [Source.flat] at h, fun _ => by simpa using ht m⟩
  | cons ev rest ih =>
    intro n hf hi
    cases n with
    | zero =>
      exact ⟨fun _ => ⟨ev :: rest, by simp [readExactFut], hf, hi, by simp⟩, fun h => by simp at h⟩
    | succ m =>
      cases ev with
      | data b =>
        have hf' : noFault rest = true := by simpa [noFault, Ev.isFail] using hf
        have hi' : noIntr rest = true := by simpa [noIntr, Ev.isIntr] using hi
        simp only [List.cons_append, readExactFut, Source.flat, List.length_append]
        by_cases hle : b.length ≤ m
        · simp only [if_pos hle]
          by_cases hemp : b.isEmpty = true
          · have hb : b = [] := by simpa using hemp
            subst hb
            simp only [List.isEmpty_nil, if_true, List.nil_append, List.length_nil, Nat.zero_add]
            exact ih (m + 1) hf' hi'
          · simp only [hemp, Bool.false_eq_true, if_false]
            obtain ⟨i1, i2⟩ := ih (m + 1 - b.length) hf' hi'
            constructor
            · intro h
              obtain ⟨s', h1, h2, h3, h4⟩ := i1 (by omega)
              refine ⟨s', ?_, h2, h3, ?_⟩
              · rw [h1]
                simp only [List.take_append, List.take_of_length_le (Nat.le_succ_of_le hle)]
              · rw [h4]
                simp only [List.drop_append, List.drop_of_length_le (Nat.le_succ_of_le hle), List.nil_append]
            · intro h
              rw [i2 (by omega)]
        · simp only [if_neg hle]
          constructor
          · intro _
            refine ⟨.data (b.drop (m + 1)) :: rest, ?_, ?_, ?_, ?_⟩
            · simp only [List.cons_append, List.take_append_of_le_length (Nat.not_le.mp hle)]
            · simpa [noFault, Ev.isFail] using hf'
            · simpa [noIntr, Ev.isIntr] using hi'
            · simp only [Source.flat, List.drop_append_of_le_length (Nat.not_le.mp hle)]
          · intro h; omega
      | pending =>
        have hf' : noFault rest = true := by simpa [noFault, Ev.isFail] using hf
        have hi' : noIntr rest = true := by simpa [noIntr, Ev.isIntr] using hi
        simp only [List.cons_append, readExactFut, Source.flat]
        exact ih (m + 1) hf' hi'
      | interrupted => simp [noIntr, Ev.isIntr] at hi
      | fail k => simp [noFault, Ev.isFail] at hf

/-- relation "scripted state `s' ++ t` with fault-free `s'` whose bytes are the flat state" -/
def RStd (t : Source) (r1 : Source) (r2 : Bytes) : Prop :=
  ∃ s', r1 = s' ++ t ∧ noFault s' = true ∧ Source.flat s' = r2

def RFut (t : Source) (r1 : Source) (r2 : Bytes) : Prop :=
  ∃ s', r1 = s' ++ t ∧ noFault s' = true ∧ noIntr s' = true ∧ Source.flat s' = r2

theorem std_cut_sim (t : Source) (e : IoKind) (ht : ∀ m, readExactStd (m + 1) t = .error e) :
    Sim stdRd (cutRd e) (RStd t) := by
  intro n r1 r2 ⟨s, h1, h2, h3⟩
  subst h1 h3
  obtain ⟨i1, i2⟩ := readExactStd_app t e ht s n h2
  simp only [stdRd, cutRd]
  by_cases hn : n ≤ (Source.flat s).length
  · obtain ⟨s', h1, h2, _, h4⟩ := i1 hn
    rw [h1, if_pos hn]
    exact .ok _ _ _ ⟨s', rfl, h2, h4⟩
  · rw [i2 (by omega), if_neg hn]
    exact .error _

theorem fut_cut_sim (t : Source) (e : IoKind) (ht : ∀ m, readExactFut (m + 1) t = .error e) :
    Sim futRd (cutRd e) (RFut t) := by
  intro n r1 r2 ⟨s, h1, h2, h3, h4⟩
  subst h1 h4
  obtain ⟨i1, i2⟩ := readExactFut_app t e ht s n h2 h3
  simp only [futRd, cutRd]
  by_cases hn : n ≤ (Source.flat s).length
  · obtain ⟨s', h1, h2, h3, h4⟩ := i1 hn
    rw [h1, if_pos hn]
    exact .ok _ _ _ ⟨s', rfl, h2, h3, h4⟩
  · rw [i2 (by omega), if_neg hn]
    exact .error _

/-! ### async reader against blocking reader (no `Interrupted`), `deliver` -/

theorem readExactFut_eq_std (src : Source) :
    ∀ n, noIntr src = true → readExactFut n src = readExactStd n src ∧
      ∀ bs src', readExactStd n src = .ok (bs, src') → noIntr src' = true := by
  induction src with
  | nil =>
    intro n _
    cases n with
    | zero => simp [readExactFut, readExactStd, noIntr]
    | succ m => simp [readExactFut, readExactStd]
  | cons ev rest ih =>
    intro n hi
    cases n with
    | zero =>
      refine ⟨by simp [readExactFut, readExactStd], ?_⟩
      intro bs src' h
      simp only [readExactStd, Except.ok.injEq, Prod.mk.injEq] at h
      rw [← h.2]; exact hi
    | succ m =>
      cases ev with
      | data b =>
        have hi' : noIntr rest = true := by simpa [noIntr, Ev.isIntr] using hi
        simp only [readExactFut, readExactStd]
        by_cases hle : b.length ≤ m
        · simp only [if_pos hle]
          by_cases hemp : b.isEmpty = true
          · simp only [hemp, if_true]; exact ih (m + 1) hi'
          · simp only [hemp, Bool.false_eq_true, if_false]
            obtain ⟨i1, i2⟩ := ih (m + 1 - b.length) hi'
            rw [i1]
            refine ⟨rfl, ?_⟩
            intro bs src' h
            cases hr : readExactStd (m + 1 - b.length) rest with
            | error k => simp [hr] at h
            | ok p =>
              obtain ⟨bs2, s2⟩ := p
              simp only [hr, Except.ok.injEq, Prod.mk.injEq] at h
              rw [← h.2]; exact i2 _ _ hr
        · simp only [if_neg hle, true_and]
          intro bs src' h
          simp only [Except.ok.injEq, Prod.mk.injEq] at h
          rw [← h.2]; simpa [noIntr, Ev.isIntr] using hi'
      | pending =>
        have hi' : noIntr rest = true := by simpa [noIntr, Ev.isIntr] using hi
        simp only [readExactFut, readExactStd]
        exact ih (m + 1) hi'
      | interrupted => simp [noIntr, Ev.isIntr] at hi
      | fail k => simp [readExactFut, readExactStd]

theorem fut_std_sim : Sim futRd stdRd (fun r1 r2 => noIntr r1 = true ∧ r1 = r2) := by
  intro n r1 r2 ⟨hi, h⟩
  subst h
  obtain ⟨i1, i2⟩ := readExactFut_eq_std r1 n hi
  simp only [futRd, stdRd]
  rw [i1]
  cases hr : readExactStd n r1 with
  | error k => exact .error _
  | ok p =>
    obtain ⟨bs, s'⟩ := p
    exact .ok _ _ _ ⟨i2 _ _ hr, rfl⟩

theorem readExactStd_deliver (src : Source) : ∀ n,
    readExactStd n (deliver src) =
      match readExactStd n src with
      | .ok (bs, s') => .ok (bs, deliver s')
      | .error k => .error k := by
  induction src with
  | nil =>
    intro n
    cases n with
    | zero => simp [readExactStd, deliver]
    | succ m => simp [readExactStd, deliver]
  | cons ev rest ih =>
    intro n
    cases n with
    | zero => simp [readExactStd]
    | succ m =>
      cases ev with
      | data b =>
        have hd : deliver (.data b :: rest) = .data b :: deliver rest := by
          simp [deliver_cons, Ev.isPending]
        have hd2 : deliver (.data (b.drop (m + 1)) :: rest) = .data (b.drop (m + 1)) :: deliver rest := by
          simp [deliver_cons, Ev.isPending]
        rw [hd]
        simp only [readExactStd]
        by_cases hle : b.length ≤ m
        · simp only [if_pos hle]
          by_cases hemp : b.isEmpty = true
          · simp only [hemp, if_true]; exact ih (m + 1)
          · simp only [hemp, Bool.false_eq_true, if_false]
            rw [ih]
            cases readExactStd (m + 1 - b.length) rest with
            | error k => rfl
            | ok p => rfl
        · simp only [if_neg hle, hd2]
      | pending =>
        have hd : deliver (.pending :: rest) = deliver rest := by
          simp [deliver_cons, Ev.isPending]
        rw [hd]
        simp only [readExactStd]
        exact ih (m + 1)
      | interrupted =>
        have hd : deliver (.interrupted :: rest) = .interrupted :: deliver rest := by
          simp [deliver_cons, Ev.isPending]
        rw [hd]
        simp only [readExactStd]
        exact ih (m + 1)
      | fail k =>
        have hd : deliver (.fail k :: rest) = .fail k :: deliver rest := by
          simp [deliver_cons, Ev.isPending]
        rw [hd]
        simp only [readExactStd]

theorem std_deliver_sim : Sim stdRd stdRd (fun r1 r2 => deliver r1 = r2) := by
  intro n r1 r2 h
  subst h
  simp only [stdRd]
  rw [readExactStd_deliver]
  cases readExactStd n r1 with
  | error k => exact .error _
  | ok p => exact .ok _ _ _ rfl

end Ipp
