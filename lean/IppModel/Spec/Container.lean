/-
  The ordered abstract model of the attribute container (C19), stated without folding `add`:
  what a message looks like after a history of additions, from any start state.
-/
import IppModel.Model.Attr
namespace Ipp.Spec
open Ipp Gen

abbrev AddOp := DelimiterTag × Bytes × Value

/-- the (name, value) pairs added to kind `t`, in order -/
def addsFor (t : DelimiterTag) (ops : List AddOp) : List (Bytes × Value) :=
  (ops.filter fun o => o.1 = t).map fun o => (o.2.1, o.2.2)

/-- kinds of `ops` in order of first use that have no group in `gs` -/
def newKinds (gs : List Group) (ops : List AddOp) : List DelimiterTag :=
  (ops.map (·.1)).foldl (fun acc t => if acc.contains t || gs.any (fun g => g.tag = t) then acc else acc ++ [t]) []

/-- every existing group that is the first of its kind receives, in order, the additions made to that
    kind (last wins per name); other groups are untouched; new kinds are appended in order of first use -/
def existingAfter : List Group → List Group → List AddOp → List Group
  | _, [], _ => []
  | before, g :: rest, ops =>
    (if before.any (fun x => x.tag = g.tag) then g else { g with attrs := sinsertAll (addsFor g.tag ops) g.attrs })
      :: existingAfter (before ++ [g]) rest ops

def addHistory (gs : List Group) (ops : List AddOp) : List Group :=
  existingAfter [] gs ops ++ (newKinds gs ops).map fun t => ⟨t, sinsertAll (addsFor t ops) []⟩

end Ipp.Spec
