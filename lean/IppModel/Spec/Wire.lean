/-
  RFC 8010 §3.1 message grammar as data (a *wire tree*), its serialisation `ser` (the RFC's layout), its
  meaning `interp` (what an independent reading of the RFC assigns), and well-formedness `wfWire`.
  Written from the RFC, not from the implementation: tags are the RFC's literal numbers, bodies are
  decoded by the RFC's syntaxes.  Only the *carrier* of the meaning (`Value`, `Group`, `Header`, the
  sorted-map representation of a map, `lossy` for "undecodable text replaced") is shared with the model.
-/
import IppModel.Model.Attr
import IppModel.Model.ParserState
namespace Ipp.Spec
open Ipp

/-- a value on the wire: a tagged body, or a collection = members, each a name and ≥ 1 values -/
inductive WVal where
  | plain (tag : UInt8) (body : Bytes)
  | coll (ms : List (Bytes × List WVal))
  deriving Repr, Inhabited

/-- an attribute: name and ≥ 1 values (the first value carries the name, additional values an empty name) -/
structure WAttr where
  name : Bytes
  vals : List WVal
  deriving Repr, Inhabited

structure WGroup where
  tag : UInt8
  attrs : List WAttr
  deriving Repr, Inhabited

structure WMsg where
  version : UInt16
  op : UInt16
  id : UInt32
  groups : List WGroup
  deriving Repr, Inhabited

/-- one attribute-with-one-value field of RFC 8010 §3.1.4/3.1.5: value-tag, name, value -/
structure Tok where
  tag : UInt8
  name : Bytes
  body : Bytes
  deriving Repr, Inhabited, DecidableEq

/-- value-tag, name-length, name, value-length, value -/
def tokBytes (t : Tok) : Bytes :=
  t.tag :: (be16 t.name.length ++ (t.name ++ (be16 t.body.length ++ t.body)))

def toksBytes : List Tok → Bytes
  | [] => []
  | t :: ts => tokBytes t ++ toksBytes ts

mutual
/-- the fields of one value; `name` goes on its first field (§3.1.6 for collections) -/
def toksV (name : Bytes) : WVal → List Tok
  | .plain t b => [⟨t, name, b⟩]
  | .coll ms => ⟨0x34, name, []⟩ :: (toksMs ms ++ [⟨0x37, [], []⟩])
/-- additional values: empty names -/
def toksVs : List WVal → List Tok
  | [] => []
  | v :: vs => toksV [] v ++ toksVs vs
/-- member attributes: memberAttrName field (the member's name is its *value*), then the member's values -/
def toksMs : List (Bytes × List WVal) → List Tok
  | [] => []
  | (k, vs) :: ms => ⟨0x4a, [], k⟩ :: (toksVs vs ++ toksMs ms)
end

def toksAttr (a : WAttr) : List Tok :=
  match a.vals with
  | [] => []
  | v :: vs => toksV a.name v ++ toksVs vs

def toksAttrs : List WAttr → List Tok
  | [] => []
  | a :: as => toksAttr a ++ toksAttrs as

def serGroup (g : WGroup) : Bytes := g.tag :: toksBytes (toksAttrs g.attrs)

def serGroups : List WGroup → Bytes
  | [] => []
  | g :: gs => serGroup g ++ serGroups gs

/-- version-number, operation-id or status-code, request-id, attribute groups, end-of-attributes-tag -/
def ser (w : WMsg) : Bytes :=
  be16 w.version.toNat ++ (be16 w.op.toNat ++ (be32 w.id ++ (serGroups w.groups ++ [0x03])))

/-! ### meaning -/

/-- RFC 8010 §3.9 syntaxes by tag (§3.5.2); bodies that do not fit their syntax are not well-formed
    (`wfBody`) and get an arbitrary reading here -/
def decodePlain (t : UInt8) (b : Bytes) : Value :=
  if t = 0x21 then (match b with | [a, b, c, d] => .int .integer (unbe32 a b c d) | _ => .other t b)
  else if t = 0x23 then (match b with | [a, b, c, d] => .int .enum (unbe32 a b c d) | _ => .other t b)
  else if t = 0x22 then (match b with | [x] => .bool (x != 0) | _ => .other t b)
  else if t = 0x33 then
    (match b with | [a, b, c, d, e, f, g, h] => .range (unbe32 a b c d) (unbe32 e f g h) | _ => .other t b)
  else if t = 0x31 then
    (match b with
     | [y1, y0, mo, d, h, mi, s, ds, dir, uh, um] => .dateTime (UInt16.ofNat (unbe16 y1 y0)) mo d h mi s ds dir.toNat uh um
     | _ => .other t b)
  else if t = 0x32 then
    (match b with
     | [a, b, c, d, e, f, g, h, u] => .resolution (unbe32 a b c d) (unbe32 e f g h) u
     | _ => .other t b)
  else if t = 0x35 ∨ t = 0x36 then
    (match b with
     | l1 :: l0 :: r =>
       let n := unbe16 l1 l0
       (match r.drop n with
        | t1 :: t0 :: r2 => .lang (if t = 0x35 then .text else .name) (lossy (r.take n)) (lossy (r2.take (unbe16 t1 t0)))
        | _ => .other t b)
     | _ => .other t b)
  else if t = 0x30 then .str .octetString (lossy b)
  else if t = 0x41 then .str .textWithoutLanguage (lossy b)
  else if t = 0x42 then .str .nameWithoutLanguage (lossy b)
  else if t = 0x44 then .str .keyword (lossy b)
  else if t = 0x45 then .str .uri (lossy b)
  else if t = 0x46 then .str .uriScheme (lossy b)
  else if t = 0x47 then .str .charset (lossy b)
  else if t = 0x48 then .str .naturalLanguage (lossy b)
  else if t = 0x49 then .str .mimeMediaType (lossy b)
  else if t = 0x4a then .str .memberAttrName (lossy b)
  else if t = 0x13 then .noValue
  else .other t b

/-- the body fits the tag's syntax -/
def wfBody (t : UInt8) (b : Bytes) : Bool :=
  if t = 0x21 ∨ t = 0x23 then b.length == 4
  else if t = 0x22 then b.length == 1
  else if t = 0x33 then b.length == 8
  else if t = 0x31 then b.length == 11
  else if t = 0x32 then b.length == 9
  else if t = 0x35 ∨ t = 0x36 then
    (match b with
     | l1 :: l0 :: r =>
       (match r.drop (unbe16 l1 l0) with
        | t1 :: t0 :: r2 => unbe16 l1 l0 ≤ r.length && r2.length == unbe16 t1 t0
        | _ => false)
     | _ => false)
  else if t = 0x13 then b.isEmpty
  else true

mutual
def interpV : WVal → Value
  | .plain t b => decodePlain t b
  | .coll ms => .coll (interpMs ms [])
def interpVs : List WVal → List Value
  | [] => []
  | v :: vs => interpV v :: interpVs vs
/-- members into a name-to-value map; a repeated member name keeps the last (as a map does) -/
def interpMs : List (Bytes × List WVal) → List (Bytes × Value) → List (Bytes × Value)
  | [], m => m
  | (k, vs) :: ms, m => interpMs ms (sinsert (lossy k) (listOrValue (interpVs vs)) m)
end

/-- one value is a scalar, several are an ordered set -/
def interpAttr (a : WAttr) : Bytes × Value := (lossy a.name, listOrValue (interpVs a.vals))

def interpAttrs : List WAttr → List (Bytes × Value) → List (Bytes × Value)
  | [], m => m
  | a :: as, m => interpAttrs as (sinsert (interpAttr a).1 (interpAttr a).2 m)

/-- group delimiter tags of RFC 8010 §3.5.1 that open a group -/
def delimOf (t : UInt8) : Option Gen.DelimiterTag :=
  if t = 0x01 then some .OperationAttributes
  else if t = 0x02 then some .JobAttributes
  else if t = 0x04 then some .PrinterAttributes
  else if t = 0x05 then some .UnsupportedAttributes
  else none

def interpGroup (g : WGroup) : Group :=
  ⟨(delimOf g.tag).getD .OperationAttributes, interpAttrs g.attrs []⟩

def interpGroups : List WGroup → List Group
  | [] => []
  | g :: gs => interpGroup g :: interpGroups gs

def interp (w : WMsg) : Header × List Group := (⟨w.version, w.op, w.id⟩, interpGroups w.groups)

/-! ### well-formedness -/

def valueTagOk (t : UInt8) : Bool := 0x10 ≤ t && t ≤ 0x4a

mutual
/-- `inColl`: inside a collection the member-name tag is structural and cannot be a value -/
def wfV (inColl : Bool) : WVal → Bool
  | .plain t b => valueTagOk t && t != 0x34 && t != 0x37 && (!inColl || t != 0x4a) && b.length < 65536 && wfBody t b
  | .coll ms => wfMs ms
def wfVs (inColl : Bool) : List WVal → Bool
  | [] => true
  | v :: vs => wfV inColl v && wfVs inColl vs
def wfMs : List (Bytes × List WVal) → Bool
  | [] => true
  | (k, vs) :: ms => k.length < 65536 && !vs.isEmpty && wfVs true vs && wfMs ms
end

def wfAttr (a : WAttr) : Bool :=
  !a.name.isEmpty && a.name.length < 65536 && !a.vals.isEmpty && wfVs false a.vals

def wfAttrs : List WAttr → Bool
  | [] => true
  | a :: as => wfAttr a && wfAttrs as

def wfGroup (g : WGroup) : Bool := (delimOf g.tag).isSome && wfAttrs g.attrs

def wfGroups : List WGroup → Bool
  | [] => true
  | g :: gs => wfGroup g && wfGroups gs

def wfWire (w : WMsg) : Bool := wfGroups w.groups

end Ipp.Spec
