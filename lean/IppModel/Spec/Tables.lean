/-
  What "the library's table matches the registry" means (C16), as a decidable check on two tables of
  (symbol, code) pairs.
-/
import IppModel.Spec.Registry
namespace Ipp.Spec
open Ipp

def codeOf (sym : Bytes) (t : List (Bytes × Nat)) : Option Nat := (t.find? (fun p => p.1 == sym)).map (·.2)
def symOf (c : Nat) (t : List (Bytes × Nat)) : Option Bytes := (t.find? (fun p => p.2 == c)).map (·.1)

def nodupB {α} [BEq α] : List α → Bool
  | [] => true
  | a :: r => !r.contains a && nodupB r

/-- every registry entry is in the library's table under the same symbol and code; a library entry
    outside the registry neither reuses an assigned code nor a registered symbol; no duplicates -/
def tableOk (lib reg : List (Bytes × Nat)) : Bool :=
  reg.all (fun p => lib.contains p) &&
  lib.all (fun p => match symOf p.2 reg with
                    | some s => s == p.1
                    | none => (codeOf p.1 reg).isNone) &&
  nodupB (lib.map (·.2)) && nodupB (lib.map (·.1)) && nodupB (reg.map (·.2)) && nodupB (reg.map (·.1))

end Ipp.Spec
