/-
  Declarative description of what each operation request must contain (C10), written from RFC 8011 §4.2/§4.3
  and the property text: operation codes are the registry's literals; the content is given as the finite
  map of attributes per group, not as a sequence of additions.
-/
import IppModel.Model.Request
import IppModel.Spec.Names
namespace Ipp.Spec
open Ipp

/-- what a sequence of builder calls *describes*: the last value of each single-valued setter, everything
    given to the accumulating ones, in the order given -/
structure Summary where
  user : Option Bytes
  title : Option Bytes
  jobAttrs : List (Bytes × Value)
  last : Bool
  requested : List Bytes
  deriving Repr, Inhabited

def lastSome {α} : List (Option α) → Option α
  | [] => none
  | x :: r => match lastSome r with
    | some y => some y
    | none => x

def summary (calls : List Call) : Summary :=
  { user := lastSome (calls.map fun | .userName s => some s | _ => none),
    title := lastSome (calls.map fun | .jobTitle s => some s | _ => none),
    jobAttrs := (calls.map fun | .attribute n v => [(n, v)] | .attributes as => as | _ => []).flatten,
    last := (lastSome (calls.map fun | .last b => some b | _ => none)).getD true,
    requested := (calls.map fun | .reqAttr s => [s] | .reqAttrs ss => ss | _ => []).flatten }

/-- operation-id of RFC 8011 §5.4.15 / the CUPS registry -/
def opCode : OpKind → Nat
  | .printJob => 0x0002
  | .createJob => 0x0005
  | .sendDocument => 0x0006
  | .cancelJob => 0x0008
  | .getJobAttributes => 0x0009
  | .getJobs => 0x000a
  | .getPrinterAttributes => 0x000b
  | .purgeJobs => 0x0012
  | .cupsGetPrinters => 0x4002
  | .cupsDeletePrinter => 0x4004

def optAttr (n : Bytes) (v : Option Value) : List (Bytes × Value) :=
  match v with
  | some x => [(n, x)]
  | none => []

/-- the operation attributes the arguments imply, as (name, value) pairs; names are the RFC's literals -/
def opAttrs (k : OpKind) (uri : Uri) (jobId : UInt32) (sm : Summary) : List (Bytes × Value) :=
  [(A_charset, .str .charset N.utf8), (A_language, .str .naturalLanguage N.en)] ++
  (if k = .cupsGetPrinters then [] else [(A_printerUri, .str .uri (renderUri (canonUri uri)))]) ++
  (match k with
   | .printJob => optAttr A_user (sm.user.map (.str .nameWithoutLanguage)) ++ optAttr A_jobName (sm.title.map (.str .nameWithoutLanguage))
   | .createJob => optAttr A_jobName (sm.title.map (.str .nameWithoutLanguage))
   | .getPrinterAttributes =>
       if sm.requested.isEmpty then [] else [(A_requested, .array (sm.requested.map (.str .keyword)))]
   | .sendDocument => [(A_jobId, .int .integer jobId), (A_lastDocument, .bool sm.last)] ++ optAttr A_user (sm.user.map (.str .nameWithoutLanguage))
   | .cancelJob | .getJobAttributes => [(A_jobId, .int .integer jobId)] ++ optAttr A_user (sm.user.map (.str .nameWithoutLanguage))
   | .purgeJobs | .getJobs => optAttr A_user (sm.user.map (.str .nameWithoutLanguage))
   | .cupsGetPrinters | .cupsDeletePrinter => [])
where
  A_charset := N.attributes_charset
  A_language := N.attributes_natural_language
  A_printerUri := N.printer_uri
  A_user := N.requesting_user_name
  A_jobName := N.job_name
  A_jobId := N.job_id
  A_lastDocument := N.last_document
  A_requested := N.requested_attributes

def hasJobAttrs (k : OpKind) : Bool := k = .printJob ∨ k = .createJob
def hasPayload (k : OpKind) : Bool := k = .printJob ∨ k = .sendDocument

/-- the request the arguments describe: version 1.1, the registry's operation code, request-id 1, one
    operation group holding exactly `opAttrs`, a job group holding the extra job attributes (last one given
    wins per name) when there are any, the payload unmodified — and nothing else -/
def request (k : OpKind) (uri : Uri) (jobId : UInt32) (payload : Bytes) (sm : Summary) : Request :=
  { header := ⟨0x0101, UInt16.ofNat (opCode k), 1⟩,
    groups := ⟨.OperationAttributes, sinsertAll (opAttrs k uri jobId sm) []⟩ ::
      (if hasJobAttrs k ∧ !sm.jobAttrs.isEmpty then [⟨.JobAttributes, sinsertAll sm.jobAttrs []⟩] else []),
    payload := if hasPayload k then payload else [] }

end Ipp.Spec
