/-
  The independent decoder of C03: a reader of the RFC 8010 grammar, `unser : Bytes → Option (WMsg × Bytes)`,
  that finds the wire tree a byte string serialises (and the trailing data).  It shares nothing with the
  model parser: no state machine, no stack – plain recursive descent over the token list.
-/
import IppModel.Spec.Wire
namespace Ipp.Spec
open Ipp

def takeN (n : Nat) (bs : Bytes) : Option (Bytes × Bytes) :=
  if n ≤ bs.length then some (bs.take n, bs.drop n) else none

def readLen (bs : Bytes) : Option (Nat × Bytes) :=
  match bs with
  | a :: b :: r => some (unbe16 a b, r)
  | _ => none

/-- split the attribute section into (group tag, fields of the group) up to the end tag; returns the trailing data -/
def lexGroups : Nat → Bytes → List (UInt8 × List Tok) → Option (List (UInt8 × List Tok) × Bytes)
  | 0, _, _ => none
  | fuel + 1, bs, acc =>
    match bs with
    | [] => none
    | t :: r =>
      if t = 0x03 then some (acc.reverse.map (fun g => (g.1, g.2.reverse)), r)
      else if t = 0x01 ∨ t = 0x02 ∨ t = 0x04 ∨ t = 0x05 then lexGroups fuel r ((t, []) :: acc)
      else if 0x10 ≤ t ∧ t ≤ 0x4a then
        match readLen r with
        | none => none
        | some (nl, r1) =>
          match takeN nl r1 with
          | none => none
          | some (name, r2) =>
            match readLen r2 with
            | none => none
            | some (vl, r3) =>
              match takeN vl r3 with
              | none => none
              | some (body, r4) =>
                match acc with
                | [] => none                       -- a value before any group delimiter
                | (g, ts) :: rest => lexGroups fuel r4 ((g, ⟨t, name, body⟩ :: ts) :: rest)
      else none

mutual
/-- one value starting at the head field (whose name the caller has checked) -/
def treeV : Nat → List Tok → Option (WVal × List Tok)
  | 0, _ => none
  | _ + 1, [] => none
  | fuel + 1, t :: ts =>
    if t.tag = 0x34 then
      (if t.body.isEmpty then
        match treeMs fuel ts with
        | some (ms, rest) => some (.coll ms, rest)
        | none => none
       else none)
    else if t.tag = 0x37 then none
    else some (.plain t.tag t.body, ts)
/-- additional values (empty names) up to the next named field or, inside a collection, the next member
    name or the end of the collection -/
def treeVs (inColl : Bool) : Nat → List Tok → Option (List WVal × List Tok)
  | 0, _ => none
  | _ + 1, [] => some ([], [])
  | fuel + 1, t :: ts =>
    if !t.name.isEmpty ∨ (inColl ∧ (t.tag = 0x4a ∨ t.tag = 0x37)) then some ([], t :: ts)
    else match treeV fuel (t :: ts) with
      | none => none
      | some (v, rest) =>
        match treeVs inColl fuel rest with
        | none => none
        | some (vs, rest') => some (v :: vs, rest')
/-- members up to and including the end-of-collection field -/
def treeMs : Nat → List Tok → Option (List (Bytes × List WVal) × List Tok)
  | 0, _ => none
  | _ + 1, [] => none
  | fuel + 1, t :: ts =>
    if !t.name.isEmpty then none
    else if t.tag = 0x37 then (if t.body.isEmpty then some ([], ts) else none)
    else if t.tag = 0x4a then
      match treeVs true fuel ts with
      | none => none
      | some (vs, rest) =>
        if vs.isEmpty then none else
        match treeMs fuel rest with
        | none => none
        | some (ms, rest') => some ((t.body, vs) :: ms, rest')
    else none
end

def treeAttrs : Nat → List Tok → Option (List WAttr)
  | 0, _ => none
  | _ + 1, [] => some []
  | fuel + 1, t :: ts =>
    if t.name.isEmpty then none
    else match treeV (fuel + 1) (t :: ts) with
      | none => none
      | some (v, rest) =>
        match treeVs false (fuel + 1) rest with
        | none => none
        | some (vs, rest') =>
          if rest'.length < (t :: ts).length then
            match treeAttrs fuel rest' with
            | none => none
            | some as => some (⟨t.name, v :: vs⟩ :: as)
          else none

def treeGroups : List (UInt8 × List Tok) → Option (List WGroup)
  | [] => some []
  | (t, ts) :: gs =>
    match treeAttrs (2 * ts.length + 2) ts, treeGroups gs with
    | some as, some r => some (⟨t, as⟩ :: r)
    | _, _ => none

/-- the wire tree of a byte string, and the data after the end-of-attributes tag -/
def unser (bs : Bytes) : Option (WMsg × Bytes) :=
  match bs with
  | v1 :: v0 :: o1 :: o0 :: i3 :: i2 :: i1 :: i0 :: r =>
    (match lexGroups (r.length + 1) r [] with
     | none => none
     | some (gs, rest) =>
       match treeGroups gs with
       | none => none
       | some groups => some (⟨UInt16.ofNat (unbe16 v1 v0), UInt16.ofNat (unbe16 o1 o0), unbe32 i3 i2 i1 i0, groups⟩, rest))
  | _ => none

/-- attribute names (as read) are unique within every group -/
def namesUnique (w : WMsg) : Bool :=
  w.groups.all fun g => nodupNames (g.attrs.map (·.name))
where nodupNames : List Bytes → Bool
  | [] => true
  | n :: r => !r.contains n && nodupNames r

end Ipp.Spec
