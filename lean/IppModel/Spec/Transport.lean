/-
  The transport URL RFC 3510 / RFC 7472 prescribe for an IPP target (C14): ipp → http, ipps → https,
  port 631 for both when the target gives none, everything else unchanged.
-/
import IppModel.Model.Uri
import IppModel.Spec.Names
namespace Ipp.Spec
open Ipp

/-- "631" -/
def port631 : Bytes := [0x36, 0x33, 0x31]

def transportUrlSpec (u : Uri) : Bytes :=
  match u.scheme, u.authority with
  | some sch, some raw =>
    if sch = N.ipp ∨ sch = N.ipps then
      (if sch = N.ipp then N.http else N.https) ++ ([cColon, cSlash, cSlash] ++
        ((if (portOf raw).isSome then raw else raw ++ (cColon :: port631)) ++ u.pq.getD []))
    else renderUri u
  | _, _ => renderUri u

end Ipp.Spec
