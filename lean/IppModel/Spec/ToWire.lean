/-
  The reference encoding of a message of the public value model (C01/C03): the wire tree RFC 8010
  prescribes for it (`toWireMsg`), and the domain of the round-trip theorems (`wfMsg`).
  Tags are the RFC's literal numbers (§3.5.2); bodies are the RFC's syntaxes (§3.9).
-/
import IppModel.Spec.Wire
namespace Ipp.Spec
open Ipp

/-- registered tag of a value's syntax (RFC 8010 §3.5.2) -/
def registryTag : Value → UInt8
  | .int .integer _ => 0x21
  | .int .enum _ => 0x23
  | .bool _ => 0x22
  | .str .octetString _ => 0x30
  | .str .textWithoutLanguage _ => 0x41
  | .str .nameWithoutLanguage _ => 0x42
  | .str .keyword _ => 0x44
  | .str .uri _ => 0x45
  | .str .uriScheme _ => 0x46
  | .str .charset _ => 0x47
  | .str .naturalLanguage _ => 0x48
  | .str .mimeMediaType _ => 0x49
  | .str .memberAttrName _ => 0x4a
  | .lang .text _ _ => 0x35
  | .lang .name _ _ => 0x36
  | .range _ _ => 0x33
  | .dateTime .. => 0x31
  | .resolution .. => 0x32
  | .noValue => 0x13
  | .other t _ => t
  | .array _ => 0x12
  | .coll _ => 0x34

/-- value field of a non-set, non-collection value (RFC 8010 §3.9) -/
def scalarBody : Value → Bytes
  | .int _ v => be32 v
  | .bool b => [if b then 1 else 0]
  | .str _ s => s
  | .lang _ l t => be16 l.length ++ (l ++ (be16 t.length ++ t))
  | .range lo hi => be32 lo ++ be32 hi
  | .dateTime y mo d h mi s ds dir uh um => be16 y.toNat ++ [mo, d, h, mi, s, ds, UInt8.ofNat dir, uh, um]
  | .resolution c f u => be32 c ++ (be32 f ++ [u])
  | .noValue => []
  | .other _ d => d
  | .array _ => []
  | .coll _ => []

mutual
/-- a non-set value as one wire value -/
def toWV : Value → WVal
  | .coll ms => .coll (toWMs ms)
  | .array _ => .plain 0x12 []
  | v => .plain (registryTag v) (scalarBody v)
/-- an attribute or member value as its wire values: a set is its elements, anything else one value -/
def toWVs : Value → List WVal
  | .array vs => toWVl vs
  | .coll ms => [.coll (toWMs ms)]
  | v => [.plain (registryTag v) (scalarBody v)]
def toWVl : List Value → List WVal
  | [] => []
  | v :: vs => toWV v :: toWVl vs
def toWMs : List (Bytes × Value) → List (Bytes × List WVal)
  | [] => []
  | (k, v) :: ms => (k, toWVs v) :: toWMs ms
end

def toWAttr (p : Bytes × Value) : WAttr := ⟨p.1, toWVs p.2⟩

def toWAttrs : List (Bytes × Value) → List WAttr
  | [] => []
  | p :: r => toWAttr p :: toWAttrs r

/-- RFC 8011 §4.1.4–4.1.5: charset, natural language, then the operation target attributes -/
def rfc8011Order : List Bytes :=
  [ [0x61,0x74,0x74,0x72,0x69,0x62,0x75,0x74,0x65,0x73,0x2d,0x63,0x68,0x61,0x72,0x73,0x65,0x74],                       -- attributes-charset
    [0x61,0x74,0x74,0x72,0x69,0x62,0x75,0x74,0x65,0x73,0x2d,0x6e,0x61,0x74,0x75,0x72,0x61,0x6c,0x2d,0x6c,0x61,0x6e,0x67,0x75,0x61,0x67,0x65],  -- attributes-natural-language
    [0x70,0x72,0x69,0x6e,0x74,0x65,0x72,0x2d,0x75,0x72,0x69],                                                           -- printer-uri
    [0x6a,0x6f,0x62,0x2d,0x75,0x72,0x69],                                                                               -- job-uri
    [0x6a,0x6f,0x62,0x2d,0x69,0x64] ]                                                                                   -- job-id

/-- the operation group's attributes in the order they go on the wire: the RFC 8011 header attributes
    that are present, in the RFC's order, then all others in the listing's order -/
def opOrder (attrs : List (Bytes × Value)) : List (Bytes × Value) :=
  (rfc8011Order.filterMap fun h => (sget h attrs).map fun v => (h, v)) ++
  attrs.filter (fun p => !rfc8011Order.contains p.1)

def toWGroup (g : Group) : WGroup := ⟨UInt8.ofNat g.tag.code, toWAttrs g.attrs⟩

def toWGroups : List Group → List WGroup
  | [] => []
  | g :: gs => toWGroup g :: toWGroups gs

/-- the reference wire tree of a message whose groups carry their listings; the first group is the
    operation group (domain of C01) -/
def toWireMsg (h : Header) (L : List Group) : WMsg :=
  match L with
  | [] => ⟨h.version, h.opOrStatus, h.requestId, [⟨0x01, []⟩]⟩
  | g :: gs => ⟨h.version, h.opOrStatus, h.requestId, ⟨0x01, toWAttrs (opOrder g.attrs)⟩ :: toWGroups gs⟩

/-! ### the domain of C01 / C03: messages expressible in the public value model, within the wire limits -/

/-- tags the library holds as `Other` and that read back as `Other`: in the value range, not a tag
    with a dedicated kind, not a collection bracket -/
def otherTagOk (t : UInt8) : Bool :=
  0x10 ≤ t && t ≤ 0x4a &&
  !([0x13, 0x21, 0x22, 0x23, 0x30, 0x31, 0x32, 0x33, 0x34, 0x35, 0x36, 0x37,
     0x41, 0x42, 0x44, 0x45, 0x46, 0x47, 0x48, 0x49, 0x4a] : List UInt8).contains t

mutual
/-- `inColl`: inside a collection (the member-name kind is structural there);
    `allowSet`: at attribute / member level a set of ≥ 2 non-set elements is allowed -/
def wfVal (inColl allowSet : Bool) : Value → Bool
  | .int _ _ => true
  | .bool _ => true
  | .str k s => validUtf8 s && s.length < 65536 && (!inColl || k != .memberAttrName)
  | .lang _ l t => validUtf8 l && validUtf8 t && l.length + t.length + 4 < 65536
  | .range _ _ => true
  | .dateTime _ _ _ _ _ _ _ dir _ _ => dir < 256
  | .resolution _ _ _ => true
  | .noValue => true
  | .other t d => otherTagOk t && d.length < 65536
  | .array vs => allowSet && 2 ≤ vs.length && wfElems inColl vs
  | .coll ms => wfMembers ms
def wfElems (inColl : Bool) : List Value → Bool
  | [] => true
  | v :: vs => wfVal inColl false v && wfElems inColl vs
def wfMembers : List (Bytes × Value) → Bool
  | [] => true
  | (k, v) :: ms => validUtf8 k && k.length < 65536 && wfVal true true v && wfMembers ms
end

mutual
/-- typing invariant of `BTreeMap`: every collection's members are strictly sorted by name -/
def collsSorted : Value → Bool
  | .array vs => collsSortedL vs
  | .coll ms => sortedB ms && collsSortedM ms
  | _ => true
def collsSortedL : List Value → Bool
  | [] => true
  | v :: vs => collsSorted v && collsSortedL vs
def collsSortedM : List (Bytes × Value) → Bool
  | [] => true
  | (_, v) :: ms => collsSorted v && collsSortedM ms
end

def wfAttrC (p : Bytes × Value) : Bool :=
  !p.1.isEmpty && validUtf8 p.1 && p.1.length < 65536 && wfVal false true p.2 && collsSorted p.2

/-- a group in canonical form: unique names (strictly sorted), every attribute in the domain -/
def wfGroupC (g : Group) : Bool :=
  g.tag != .EndOfAttributes && sortedB g.attrs && g.attrs.all wfAttrC

/-- ≥ 1 group, the first is the operation group -/
def wfMsg (gs : List Group) : Bool :=
  (match gs with
   | [] => false
   | g :: _ => g.tag == .OperationAttributes) && gs.all wfGroupC

/-- RFC 8011 §4.1.1 puts the operation attributes first.  What any list of groups becomes on the wire: its
    first operation group moved to the front (an empty one supplied when there is none), every other
    group kept, in order.  The identity on `wfMsg` messages. -/
def opFirst (gs : List Group) : List Group :=
  ((gs.find? fun g => g.tag == .OperationAttributes).getD ⟨.OperationAttributes, []⟩) ::
    gs.eraseP fun g => g.tag == .OperationAttributes

/-- `L` lists the same groups, each group's attributes in some iteration order -/
def ListingOf : List Group → List Group → Prop
  | [], [] => True
  | g :: gs, l :: ls => l.tag = g.tag ∧ l.attrs.Perm g.attrs ∧ ListingOf gs ls
  | _, _ => False

end Ipp.Spec
