/-
  C16 — protocol code tables match the IPP registries; status decoding is total.
  The tables on the left are regenerated from /repo's sources on every run (Generated/Source.lean); the
  registries on the right are written from the RFCs (spec/registry.txt).
-/
import IppModel.Model.Status
import IppModel.Spec.Tables
namespace Ipp.Props.C16
open Ipp Ipp.Gen Ipp.Spec

/-- the translator found every anchor it looks for -/
theorem extraction_complete : Gen.extractionErrors = [] := by decide

theorem status_table : tableOk StatusCode.table Registry.statusCode = true := by decide +kernel
theorem operation_table : tableOk Operation.table Registry.operation = true := by decide +kernel
theorem delimiter_table : tableOk DelimiterTag.table Registry.delimiterTag = true := by decide +kernel
theorem value_tag_table : tableOk ValueTag.table Registry.valueTag = true := by decide +kernel
theorem printer_state_table : tableOk PrinterState.table Registry.printerState = true := by decide +kernel
theorem job_state_table : tableOk JobState.table Registry.jobState = true := by decide +kernel
theorem orientation_table : tableOk Orientation.table Registry.orientation = true := by decide +kernel
theorem print_quality_table : tableOk PrintQuality.table Registry.printQuality = true := by decide +kernel
theorem finishings_table : tableOk Finishings.table Registry.finishings = true := by decide +kernel

/-- same entries, in any order -/
def sameEntries (a b : List (Bytes × Nat)) : Bool := a.all (fun p => b.contains p) && b.all (fun p => a.contains p)

/-- the delimiter tags, value tags and operation ids the library *emits* (`as u8` / `as u16`) are exactly the
    registries': the tables coincide as sets (the order of the variants in the source is irrelevant) -/
theorem delimiter_table_exact : sameEntries DelimiterTag.table Registry.delimiterTag = true := by decide +kernel
theorem value_tag_table_exact : sameEntries ValueTag.table Registry.valueTag = true := by decide +kernel
theorem operation_table_exact : sameEntries Operation.table Registry.operation = true := by decide +kernel

/-! ### status decoding is total and never confuses codes -/

theorem fromCode_code {c : Nat} {s : StatusCode} (h : StatusCode.fromCode c = some s) : s.code = c := by
  unfold StatusCode.fromCode at h
  have := List.find?_some h
  simpa using this

/-- every variant's (symbol, code) pair agrees with the registry wherever the registry speaks -/
theorem variant_vs_registry :
    ∀ v ∈ StatusCode.all, ∀ p ∈ Registry.statusCode, p.2 = v.code → p.1 = v.ident := by decide +kernel

/-- every registry code has a variant -/
theorem registry_has_variant :
    ∀ p ∈ Registry.statusCode, ∃ v ∈ StatusCode.all, v.code = p.2 := by decide +kernel

theorem mem_all (v : StatusCode) : v ∈ StatusCode.all := by cases v <;> decide

/-- A code RFC 8011 defines decodes to the registry's symbol for it. -/
theorem status_defined (c : Nat) (sym : Bytes) (h : (sym, c) ∈ Registry.statusCode) :
    (statusOf c).ident = sym := by
  obtain ⟨v, hv, hc⟩ := registry_has_variant _ h
  have hne : StatusCode.fromCode c ≠ none := by
    unfold StatusCode.fromCode
    intro hn
    have := List.find?_eq_none.mp hn v hv
    simp at hc
    simp [hc] at this
  cases hf : StatusCode.fromCode c with
  | none => exact absurd hf hne
  | some s =>
    have hs := fromCode_code hf
    unfold statusOf
    rw [hf]
    simp only [Option.getD_some]
    exact (variant_vs_registry s (mem_all s) (sym, c) h (by simp [hs])).symm

/-- Any other code decodes to `UnknownStatusCode` or to a variant whose own discriminant is that code
    (never the symbol of a different code). -/
theorem status_total (c : Nat) :
    statusOf c = .UnknownStatusCode ∨ (statusOf c).code = c := by
  unfold statusOf
  cases hf : StatusCode.fromCode c with
  | none => left; rfl
  | some s => right; simpa using fromCode_code hf

/-- the symbol reported for a code the registry does not define is not a registered symbol of another code -/
theorem status_never_foreign (c : Nat) (sym : Bytes) (c' : Nat)
    (h : (sym, c') ∈ Registry.statusCode) (hs : (statusOf c).ident = sym) : c = c' ∨ statusOf c = .UnknownStatusCode := by
  rcases status_total c with hu | hc
  · right; exact hu
  · left
    have key : ∀ v ∈ StatusCode.all, ∀ p ∈ Registry.statusCode, p.1 = v.ident → p.2 = v.code := by decide +kernel
    have := key (statusOf c) (mem_all _) (sym, c') h (by simp [hs])
    simp at this
    omega

theorem unknown_not_success : isSuccess .UnknownStatusCode = false := by decide

theorem success_codes_small : ∀ v ∈ Gen.successVariants, v.code ≤ 0xff := by decide

/-- Nothing outside the successful class 0x0000–0x00ff is ever reported as success. -/
theorem success_class (c : Nat) (h : isSuccess (statusOf c) = true) : c ≤ 0xff := by
  rcases status_total c with hu | hc
  · rw [hu, unknown_not_success] at h; cases h
  · have hm : statusOf c ∈ Gen.successVariants := by
      unfold isSuccess at h
      exact List.contains_iff_mem.mp h
    have := success_codes_small _ hm
    omega

/-- The RFC 8011 successful codes are reported as success. -/
theorem rfc_success : isSuccess (statusOf 0) = true ∧ isSuccess (statusOf 1) = true ∧ isSuccess (statusOf 2) = true := by
  decide

/-- non-vacuity: a defined code, an undefined code -/
example : (statusOf 0x0407).ident = StatusCode.ClientErrorGone.ident ∧ statusOf 0x1234 = .UnknownStatusCode := by decide

end Ipp.Props.C16
