/-
  C15 — parsing cost is linear in the input: no amplification by nesting or width.
  PARTIAL: the theorem is about the cost model of Model/Cost.lean (what the code does per token, with the
  cost semantics of Vec / HashMap / BTreeMap as constants); the real allocator is observed by the harness.
-/
import IppModel.Lemmas.CostLin
namespace Ipp.Props.C15
open Ipp

/-- the cost-annotated parser is the parser: same result, same rest, same errors -/
theorem cost_model_is_the_parser (bs : Bytes) :
    (match parseCost bs with
     | .ok ((r, _), rest) => Outcome.ok (r, rest)
     | .err e => .err e
     | .panic => .panic
     | .outOfFuel => .outOfFuel) = parseFlat bs :=
  parseCost_erase bs

/-- For every input – any nesting depth, set width, number of attributes, members or groups, well-formed
    or not – the work done is at most 8 units per byte consumed plus 8. -/
theorem linear (bs : Bytes) (r : Header × List Group) (cost : Nat) (rest : Bytes)
    (h : parseCost bs = .ok ((r, cost), rest)) : cost ≤ 8 * (bs.length - rest.length) + 8 :=
  parseCost_linear bs r cost rest h

end Ipp.Props.C15
