/-
  C11 — the HTTP clients put the exact request on the wire and return the exact response.
  PARTIAL: everything below `send`'s own lines (reqwest / ureq / hyper, de-framing, sockets, timers) is a
  parameter; the theorems are about the decision logic of Model/Http.lean composed with the codec theorems
  (C01, C04, C07).  Timeouts and concurrency are observed by the harness, not proved.
-/
import IppModel.Lemmas.Base64
import IppModel.Lemmas.Encode
import IppModel.Lemmas.Refine
import IppModel.Lemmas.Streams
import IppModel.Lemmas.SMapBasic
namespace Ipp.Props.C11
open Ipp Ipp.Spec

/-- exactly one request: a POST to the mapped path and query with Content-Type application/ipp -/
theorem one_post (calls : List CfgCall) (pq : Bytes) (h : Header) (L : List Group) (p : Bytes) :
    ∃ r, wireRequest calls pq h L p = [r] ∧ r.method = postLit ∧ r.target = pq ∧ r.contentType = applicationIpp := by
  exact ⟨_, rfl, rfl, rfl, rfl⟩

/-- the body decodes to exactly the request and its payload bytes -/
theorem body_decodes_to_request (calls : List CfgCall) (pq : Bytes) (h : Header) (gs L : List Group) (p : Bytes)
    (hwf : wfMsg gs = true) (hL : ListingOf gs L) :
    ∀ r ∈ wireRequest calls pq h L p, parseFlat r.body = .ok ((h, gs), p) := by
  intro r hr
  simp only [wireRequest, List.mem_singleton] at hr
  subst hr
  simp only []
  rw [encodeMsg_eq_ser h gs L hwf hL, parseFlat_ser _ p (toWireMsg_wf h gs L hwf hL), interp_toWireMsg h gs L hwf hL]

/-- every configured custom header is on the wire with the value given last for that name -/
theorem custom_header_last_wins (calls : List CfgCall) (k v : Bytes) :
    sget k (cfgHeaders (calls ++ [.header k v])) = some v := by
  simp [cfgHeaders, List.foldl_append, SM0.sget_sinsert]

/-- the Basic credentials decode to exactly `user:password` (RFC 7617) -/
theorem basic_credentials (user pass : Bytes) :
    ∃ enc, authValue user pass = basicLit ++ enc ∧ b64Decode enc = some (user ++ (0x3a :: pass)) :=
  ⟨_, rfl, b64_roundtrip _⟩

theorem basic_header_on_wire (calls : List CfgCall) (user pass : Bytes) :
    sget authorizationLit (cfgHeaders (calls ++ [.basicAuth user pass])) = some (authValue user pass) := by
  simp [cfgHeaders, List.foldl_append, SM0.sget_sinsert]

/-- an HTTP error status (4xx, 5xx) yields an error, never a success -/
theorem error_status_is_error (t : Option Nat) (r : ServerReply) (hs : 400 ≤ r.status) :
    sendResult t r = .status r.status ∨ sendResult t r = .other := by
  unfold sendResult
  by_cases h : timedOut t r = true
  · right; simp [h]
  · left; simp [h, hs]

/-- an exceeded request timeout yields an error -/
theorem timeout_is_error (t s : Nat) (r : ServerReply) (hs : r.stallMs = some s) (hlt : t < s) :
    sendResult (some t) r = .other := by
  simp [sendResult, timedOut, hs, hlt]

/-- the value returned is exactly the server's response – header, attributes, trailing data – for every
    well-formed response, whatever the framing or fragmentation (which only determine *that* these bytes arrive) -/
theorem exact_response (t : Option Nat) (st : Nat) (w : WMsg) (p : Bytes) (hw : wfWire w = true) (hst : st < 400) :
    sendResult t ⟨st, ser w ++ p, none, none⟩ = .ok (interp w) p := by
  have hto : timedOut t ⟨st, ser w ++ p, none, none⟩ = false := by cases t <;> rfl
  have hs : ¬ (400 ≤ st) := by omega
  simp only [sendResult, hto, delivered, hs, if_false, parseFlat_ser w p hw]
  simp

/-- a connection cut before the end of the attributes yields an error, never a success -/
theorem cut_is_error (t : Option Nat) (st : Nat) (w : WMsg) (p : Bytes) (k : Nat) (hw : wfWire w = true)
    (hk : k < (ser w).length) :
    ∀ x rest, sendResult t ⟨st, ser w ++ p, some k, none⟩ ≠ .ok x rest := by
  intro x rest
  have hp := parseFlat_prefix (ser w ++ p) (interp w) p (parseFlat_ser w p hw) k (by simp; omega)
  unfold sendResult
  by_cases hto : timedOut t ⟨st, ser w ++ p, some k, none⟩ = true
  · simp [hto]
  · by_cases hs : 400 ≤ st
    · simp [hto, hs]
    · simp only [hto, hs, if_false, delivered, hp]
      simp

/-- `send` keeps no state: the results of any collection of sends through one client are those of each alone -/
theorem sends_are_independent (t : Option Nat) (rs : List ServerReply) :
    rs.map (sendResult t) = rs.map (fun r => sendResult t r) := rfl

end Ipp.Props.C11
