/-
  C18 — `ipputil print` sends the file unchanged, types options, honours the state check.
  PARTIAL: clap, file reading, the HTTP exchanges and the process exit status are parameters observed with the
  real binary; the theorems cover the text classification of option values and the control flow of
  `do_print_job` (Model/Cli.lean), which reuse the builder model of C10 and the readiness model of C17.
-/
import IppModel.Model.Cli
namespace Ipp.Props.C18
open Ipp Ipp.Gen

/-! ### option values are typed by their text -/

theorem true_is_boolean : valueFromStr trueLit = .bool true := by
  simp [valueFromStr]
theorem false_is_boolean : valueFromStr falseLit = .bool false := by
  simp [valueFromStr, falseLit, trueLit]

/-- a decimal 32-bit integer (optional sign, digits, in range) becomes an integer -/
theorem integer_text (s : Bytes) (v : UInt32) (h : parseI32 s = some v) : valueFromStr s = .int .integer v := by
  unfold valueFromStr
  have h1 : s ≠ trueLit := by
    intro e; subst e
    have : parseI32 trueLit = none := by decide
    rw [this] at h; cases h
  have h2 : s ≠ falseLit := by
    intro e; subst e
    have : parseI32 falseLit = none := by decide
    rw [this] at h; cases h
  simp [h1, h2, h]

/-- anything else – also `True`, `1e3`, out-of-range numbers, texts containing '=' – is a keyword, unchanged -/
theorem keyword_text (s : Bytes) (h1 : s ≠ trueLit) (h2 : s ≠ falseLit) (h : parseI32 s = none) :
    valueFromStr s = .str .keyword s := by
  simp [valueFromStr, h1, h2, h]

/-- the three classes are exhaustive and exclusive -/
theorem classification (s : Bytes) :
    (valueFromStr s = .bool true ∧ s = trueLit) ∨ (valueFromStr s = .bool false ∧ s = falseLit) ∨
    (∃ v, valueFromStr s = .int .integer v ∧ parseI32 s = some v) ∨ (valueFromStr s = .str .keyword s ∧ parseI32 s = none) := by
  by_cases h1 : s = trueLit
  · left; subst h1; exact ⟨true_is_boolean, rfl⟩
  · by_cases h2 : s = falseLit
    · right; left; subst h2; exact ⟨false_is_boolean, rfl⟩
    · cases h : parseI32 s with
      | some v => right; right; left; exact ⟨v, integer_text s v h, rfl⟩
      | none => right; right; right; exact ⟨keyword_text s h1 h2 h, rfl⟩

/-- what counts as a decimal i32: examples at the boundaries -/
example : parseI32 [0x32, 0x31, 0x34, 0x37, 0x34, 0x38, 0x33, 0x36, 0x34, 0x37] = some 2147483647 := by decide   -- "2147483647"
example : parseI32 [0x32, 0x31, 0x34, 0x37, 0x34, 0x38, 0x33, 0x36, 0x34, 0x38] = none := by decide              -- "2147483648"
example : parseI32 [0x2d, 0x32, 0x31, 0x34, 0x37, 0x34, 0x38, 0x33, 0x36, 0x34, 0x38] = some 2147483648 := by decide  -- "-2147483648" (pattern 0x80000000)
example : parseI32 [0x2b] = none := by decide                                                                       -- "+"
example : parseI32 [0x31, 0x65, 0x33] = none := by decide                                                           -- "1e3"

/-- `key=value` splits at the first '=': the value keeps any further '=' -/
example : splitOnce [0x61, 0x3d, 0x62, 0x3d, 0x63] = some ([0x61], [0x62, 0x3d, 0x63]) := by decide   -- "a=b=c"
/-- an option without '=' is dropped -/
example : optionAttrs [[0x61, 0x62]] = [] := by decide

/-! ### control flow -/

/-- With the state check off exactly one request – the Print-Job – is sent, whatever the printer is like. -/
theorem no_check_submits (a : PrintArgs) (answers : List Answer) (h : a.noCheckState = true) :
    (cliPrint a answers).1 = [cliPrintJob a] := by
  unfold cliPrint
  simp only [h, if_true]
  cases answers with
  | nil => rfl
  | cons x r => cases x <;> rfl

/-- With the state check on, a printer that is stopped, blocked, answers with an unsuccessful status or
    cannot be reached gets no job: only the query is sent and the exit status is non-zero. -/
theorem not_ready_submits_nothing (a : PrintArgs) (answers : List Answer) (h : a.noCheckState = false)
    (hn : ∀ hd gs rest, answers = .response hd gs :: rest → isPrinterReady hd gs ≠ .ok true) :
    cliPrint a answers = ([cliGetAttrs a], 1) := by
  unfold cliPrint
  simp only [h]
  cases answers with
  | nil => rfl
  | cons x r =>
    cases x with
    | httpError => rfl
    | response hd gs =>
      have := hn hd gs r rfl
      cases hr : isPrinterReady hd gs with
      | error e => simp [hr]
      | ok b => cases b with
        | false => simp [hr]
        | true => exact absurd hr this

/-- A ready printer gets the query and then exactly one Print-Job carrying the document unchanged. -/
theorem ready_submits (a : PrintArgs) (hd : Header) (gs : List Group) (rest : List Answer)
    (h : a.noCheckState = false) (hr : isPrinterReady hd gs = .ok true) :
    (cliPrint a (.response hd gs :: rest)).1 = [cliGetAttrs a, cliPrintJob a] ∧ (cliPrintJob a).payload = a.document := by
  constructor
  · unfold cliPrint
    simp only [h, hr]
    cases rest with
    | nil => rfl
    | cons x r => cases x <;> rfl
  · rfl

/-- The exit status is zero exactly when every exchange succeeded with a successful IPP status. -/
theorem exit_zero_iff (a : PrintArgs) (answers : List Answer) :
    (cliPrint a answers).2 = 0 ↔
      (if a.noCheckState then
         ∃ h gs rest, answers = .response h gs :: rest ∧ isSuccess (statusOf h.opOrStatus.toNat) = true
       else
         ∃ h1 g1 h2 g2 rest, answers = .response h1 g1 :: .response h2 g2 :: rest ∧
           isPrinterReady h1 g1 = .ok true ∧ isSuccess (statusOf h2.opOrStatus.toNat) = true) := by
  unfold cliPrint
  cases hn : a.noCheckState with
  | true =>
    simp only [if_true]
    cases answers with
    | nil => simp
    | cons x r =>
      cases x with
      | httpError => simp
      | response h gs =>
        cases hs : isSuccess (statusOf h.opOrStatus.toNat) <;> simp [hs]
  | false =>
    simp only [Bool.false_eq_true, if_false]
    cases answers with
    | nil => simp
    | cons x r =>
      cases x with
      | httpError => simp
      | response h1 g1 =>
        cases hr : isPrinterReady h1 g1 with
        | error e =>
          simp only [hr]
          constructor
          · intro h; cases h
          · rintro ⟨x1, y1, x2, y2, rest, he, hrd, _⟩
            cases he; rw [hr] at hrd; cases hrd
        | ok b =>
          cases b with
          | false =>
            simp only [hr]
            constructor
            · intro h; cases h
            · rintro ⟨x1, y1, x2, y2, rest, he, hrd, _⟩
              cases he; rw [hr] at hrd; cases hrd
          | true =>
            cases r with
            | nil => simp [hr]
            | cons y r2 =>
              cases y with
              | httpError => simp [hr]
              | response h2 g2 =>
                cases hs : isSuccess (statusOf h2.opOrStatus.toNat) with
                | false =>
                  simp only [hr, hs]
                  constructor
                  · intro h; simp at h
                  · rintro ⟨x1, y1, x2, y2, rest, he, _, hs2⟩
                    cases he; rw [hs] at hs2; cases hs2
                | true =>
                  simp only [hr, hs]
                  constructor
                  · intro _; exact ⟨h1, g1, h2, g2, r2, rfl, hr, hs⟩
                  · intro _; simp

/-- the job name, user name and options reach the request as C10 describes (they are builder calls) -/
theorem print_job_is_a_builder_result (a : PrintArgs) :
    cliPrintJob a = buildOp .printJob a.uri 0 a.document
      ((match a.jobName with | some j => [Call.jobTitle j] | none => []) ++
       (match a.userName with | some u => [Call.userName u] | none => []) ++
       (optionAttrs a.options).map fun (k, v) => Call.attribute k v) := rfl

end Ipp.Props.C18
