/-
  C02 — parsers are total on arbitrary bytes: no panic, no hang.
  `Outcome.panic` marks every place where the Rust would panic (`bytes::Buf::get_*`, slicing, `advance`
  on a short buffer; a `read_exact` that returned fewer bytes than asked); `Outcome.outOfFuel` marks a
  loop that has not finished within its fuel.  The theorems say neither is ever the result – for every
  tag, every body, every byte string, every scripted source.  Termination of each model function is Lean's
  acceptance of its (structural) definition.  Stack depth of the *Rust* traversals is a runtime matter the
  model cannot exhibit: see `depth_unbounded` and known finding K2.
-/
import IppModel.Lemmas.Total
import IppModel.Props.C02b
namespace Ipp.Props.C02
open Ipp Ipp.Gen

/-- The stand-alone value decoder returns a value or an error value for all 256 tags and all bodies. -/
theorem decode_total (tag : UInt8) (body : Bytes) :
    decodeValue tag body ≠ .panic ∧ decodeValue tag body ≠ .outOfFuel := by
  have := decodeValue_safe tag body
  constructor <;> intro h <;> simp [h, Outcome.safe] at this

/-- …and every error it returns is `InvalidData`. -/
theorem decode_errors (tag : UInt8) (body : Bytes) (e : Err) (h : decodeValue tag body = .err e) :
    e = .io .invalidData := by
  unfold decodeValue at h
  cases ht : ValueTag.fromCode tag.toNat with
  | none => simp [ht] at h
  | some t =>
    simp only [ht, checkLen] at h
    by_cases hl : body.length < minLen t
    · simp [hl, Outcome.bind] at h; exact h.symm
    · simp only [hl, if_false, Outcome.bind] at h
      have hml : minLen t ≤ body.length := by omega
      cases t <;> simp only [decodeKnown, minLen] at h hml
      all_goals try (simp at h; done)
      · obtain ⟨n, r, hr, _⟩ := getU32_ok hml; simp [hr, Outcome.bind] at h
      · obtain ⟨n, r, hr, _⟩ := getU8_ok hml; simp [hr, Outcome.bind] at h
      · obtain ⟨n, r, hr, _⟩ := getU32_ok hml; simp [hr, Outcome.bind] at h
      · match body, hml with
        | a :: b :: c :: e :: f :: g :: i :: j :: k :: l :: m :: r, _ =>
          simp [decodeDateTime, getU16, getU8, Outcome.bind] at h
      · obtain ⟨n, r, hr, h1⟩ := getU32_ok (d := body) (by omega)
        obtain ⟨n2, r2, hr2, h2⟩ := getU32_ok (d := r) (by omega)
        obtain ⟨n3, r3, hr3, _⟩ := getU8_ok (d := r2) (by omega)
        simp [hr, hr2, hr3, Outcome.bind] at h
      · obtain ⟨n, r, hr, h1⟩ := getU32_ok (d := body) (by omega)
        obtain ⟨n2, r2, hr2, _⟩ := getU32_ok (d := r) (by omega)
        simp [hr, hr2, Outcome.bind] at h
      all_goals exact decodeLang_err _ _ _ h

/-- The blocking parser on any fully available byte string. -/
theorem parse_total (bs : Bytes) : parseFlat bs ≠ .panic ∧ parseFlat bs ≠ .outOfFuel := by
  have := parseWith_safe flatRd List.length flatRd_laws syncLoop (bs.length + 1) bs (by omega)
  unfold parseFlat
  constructor <;> intro h <;> simp [h, Outcome.safe] at this

/-- The blocking parser over every scripted source (any chunking, interruptions, failures). -/
theorem parse_sync_total (src : Source) : parseSync src ≠ .panic ∧ parseSync src ≠ .outOfFuel := by
  have := parseWith_safe stdRd Source.size stdRd_laws syncLoop (Source.size src + 1) src (by omega)
  unfold parseSync
  constructor <;> intro h <;> simp [h, Outcome.safe] at this

/-- The async parser over every scripted source (any chunking, not-ready results, failures). -/
theorem parse_async_total (src : Source) : parseAsync src ≠ .panic ∧ parseAsync src ≠ .outOfFuel := by
  have := parseWith_safe futRd Source.size futRd_laws asyncLoop (Source.size src + 1) src (by omega)
  unfold parseAsync
  constructor <;> intro h <;> simp [h, Outcome.safe] at this

/-- non-vacuity: inputs on which the guards actually fire -/
example : decodeValue 0x21 [0, 0] = .err (.io .invalidData) := by rfl
set_option maxRecDepth 8192 in
example : decodeValue 0x35 [0, 1, 0x78, 0, 2, 1] = .err (.io .invalidData) := by rfl
example : decodeValue 0x21 [0, 0, 0, 5] = .ok (.int .integer 5) := by rfl

end Ipp.Props.C02
