/-
  C06 — parsing consumes exactly the message; fragmentation never changes it.
-/
import IppModel.Model.Sources
import IppModel.Lemmas.Streams
namespace Ipp.Props.C06
open Ipp Ipp.Gen

/-- Blocking parser: however the source fragments its reads – down to one byte at a time, with
    `Interrupted` results (and spurious not-ready markers) anywhere – the outcome is the outcome on the
    unfragmented bytes, and what is left in the reader is exactly what is left of the bytes. -/
theorem fragmentation_blocking (src : Source) (h : noFault src = true) :
    (parseSync src).mapRest Source.flat = parseFlat (Source.flat src) :=
  parseSync_flat src h

/-- Async parser: the same, for every chunking and every pattern of not-ready results. -/
theorem fragmentation_async (src : Source) (h : noFault src = true) (hi : noIntr src = true) :
    (parseAsync src).mapRest Source.flat = parseFlat (Source.flat src) :=
  parseAsync_flat src h hi

/-- Never reads ahead: an accepted input splits into the consumed part, which ends with the
    end-of-attributes tag, and the untouched rest; the result does not depend on the rest at all, so any
    payload – also one that looks like IPP – comes back unmodified. -/
theorem exact_consumption (bs : Bytes) (r : Header × List Group) (rest : Bytes) (h : parseFlat bs = .ok (r, rest)) :
    ∃ pre, bs = pre ++ rest ∧ pre.getLast? = some 0x03 ∧ ∀ rest', parseFlat (pre ++ rest') = .ok (r, rest') :=
  parseFlat_exact bs r rest h

/-- non-vacuity: a source with one-byte chunks, interruptions and a payload that looks like a tag -/
example : noFault [.data [1], .interrupted, .data [1, 0, 2], .pending, .data [0, 0, 0, 1, 3], .data [3]] = true := by decide

end Ipp.Props.C06
