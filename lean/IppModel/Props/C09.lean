/-
  C09 — mandatory operation attributes are emitted in the order RFC 8011 §4.1.4–4.1.5 requires.
  The encoder walks a *listing* (the order in which the hash map instance happens to iterate); the
  theorems hold for every listing, i.e. for every iteration order, and for every message reachable from
  the constructors and builders by any sequence of further additions.
-/
import IppModel.Model.Request
import IppModel.Lemmas.SMapBasic
import IppModel.Spec.ToWire
namespace Ipp.Props.C09
open Ipp Ipp.Gen Ipp.Spec Ipp.SM0

/-- the translated `HEADER_ATTRS` is exactly the RFC 8011 order: charset, language, printer-uri, job-uri, job-id -/
theorem header_attrs_pin : Gen.headerAttrs = rfc8011Order := by decide

theorem names_pin : A.ATTRIBUTES_CHARSET = rfc8011Order[0]! ∧ A.ATTRIBUTES_NATURAL_LANGUAGE = rfc8011Order[1]! ∧
    A.PRINTER_URI = rfc8011Order[2]! ∧ A.JOB_URI = rfc8011Order[3]! ∧ A.JOB_ID = rfc8011Order[4]! := by decide

/-- encoding of attribute `n` if the group has it -/
def opt (n : Bytes) (attrs : List (Bytes × Value)) : Bytes :=
  match sget n attrs with
  | some v => encAttr n v
  | none => []

/-- Shape of every encoded message whose first group is the operation group, for every listing:
    header, operation-group tag, then charset, natural language, printer-uri, job-uri, job-id (those
    present, in this order), then the remaining operation attributes, the other groups, the end tag. -/
theorem wire_order (h : Header) (g : Group) (ls : List Group) (hop : g.tag = .OperationAttributes) :
    encodeMsg h (g :: ls) =
      encHeader h ++ (0x01 :: (opt A.ATTRIBUTES_CHARSET g.attrs ++ (opt A.ATTRIBUTES_NATURAL_LANGUAGE g.attrs ++
        (opt A.PRINTER_URI g.attrs ++ (opt A.JOB_URI g.attrs ++ (opt A.JOB_ID g.attrs ++
          (encNonHeaderAttrs g.attrs ++ (encGroups ls ++ [0x03])))))))) := by
  have h1 : firstOp (g :: ls) = some g := by simp [firstOp, isOpGroup, hop]
  have h2 : restGroups (g :: ls) = ls := by simp [restGroups, isOpGroup, hop]
  have h3 : Gen.headerAttrs = [A.ATTRIBUTES_CHARSET, A.ATTRIBUTES_NATURAL_LANGUAGE, A.PRINTER_URI, A.JOB_URI, A.JOB_ID] := by decide
  simp only [encodeMsg, encAttributes, h1, h2, h3, encHeaderAttrs, opt, List.append_assoc, List.append_nil]
  rfl

/-- the part after the header attributes never contains one of them -/
theorem rest_has_no_header_attr (attrs : List (Bytes × Value)) :
    encNonHeaderAttrs attrs = encAttrs (attrs.filter fun p => !isHeaderAttr p.1) := by
  induction attrs with
  | nil => rfl
  | cons p r ih =>
    obtain ⟨n, v⟩ := p
    simp only [encNonHeaderAttrs, List.filter_cons]
    cases hh : isHeaderAttr n <;> simp [encAttrs, ih]

/-- With charset and natural language present (as in every request and response the library builds) the
    first attribute on the wire is attributes-charset and the second attributes-natural-language;
    printer-uri, job-uri, job-id follow immediately when present. -/
theorem charset_language_first (h : Header) (g : Group) (ls : List Group) (hop : g.tag = .OperationAttributes)
    (vc vl : Value) (hc : sget A.ATTRIBUTES_CHARSET g.attrs = some vc) (hl : sget A.ATTRIBUTES_NATURAL_LANGUAGE g.attrs = some vl) :
    ∃ tail, encodeMsg h (g :: ls) =
      encHeader h ++ (0x01 :: (encAttr A.ATTRIBUTES_CHARSET vc ++ (encAttr A.ATTRIBUTES_NATURAL_LANGUAGE vl ++
        (opt A.PRINTER_URI g.attrs ++ (opt A.JOB_URI g.attrs ++ (opt A.JOB_ID g.attrs ++ tail)))))) := by
  refine ⟨encNonHeaderAttrs g.attrs ++ (encGroups ls ++ [0x03]), ?_⟩
  rw [wire_order h g ls hop]
  simp [opt, hc, hl]

/-! ### independence of the iteration order -/

def keysNodup : List (Bytes × Value) → Bool
  | [] => true
  | p :: r => !(r.any fun q => q.1 == p.1) && keysNodup r

theorem sget_mem {k : Bytes} {v : Value} {l : List (Bytes × Value)} (h : sget k l = some v) : (k, v) ∈ l := by
  induction l with
  | nil => simp [sget] at h
  | cons p r ih =>
    obtain ⟨k', v'⟩ := p
    simp only [sget] at h
    split at h
    · rename_i hk; subst hk; simp at h; subst h; simp
    · exact List.mem_cons_of_mem _ (ih h)

theorem sget_of_mem {k : Bytes} {v : Value} {l : List (Bytes × Value)} (hn : keysNodup l = true) (h : (k, v) ∈ l) :
    sget k l = some v := by
  induction l with
  | nil => simp at h
  | cons p r ih =>
    obtain ⟨k', v'⟩ := p
    simp only [keysNodup, Bool.and_eq_true, Bool.not_eq_true', List.any_eq_false] at hn
    simp only [sget]
    rcases List.mem_cons.mp h with heq | hr
    · cases heq; simp
    · have hne : k ≠ k' := by
        intro e; subst e
        have := hn.1 (k, v) hr
        simp at this
      simp [hne, ih hn.2 hr]

theorem keysNodup_perm {l l' : List (Bytes × Value)} (hp : l.Perm l') (h : keysNodup l = true) : keysNodup l' = true := by
  induction hp with
  | nil => rfl
  | cons x _ ih =>
    rename_i l1 l2 hp12
    simp only [keysNodup, Bool.and_eq_true, Bool.not_eq_true', List.any_eq_false] at h ⊢
    exact ⟨fun q hq => h.1 q (hp12.mem_iff.mpr hq), ih h.2⟩
  | swap x y l =>
    simp only [keysNodup, Bool.and_eq_true, Bool.not_eq_true', List.any_eq_false, List.mem_cons, forall_eq_or_imp] at h ⊢
    obtain ⟨⟨hyx, hy⟩, hx, hl⟩ := h
    refine ⟨⟨?_, hx⟩, hy, hl⟩
    intro e; apply hyx; simp at e ⊢; exact e.symm
  | trans _ _ ih1 ih2 => exact ih2 (ih1 h)

/-- lookups do not depend on the iteration order -/
theorem sget_perm {l l' : List (Bytes × Value)} (hp : l.Perm l') (hn : keysNodup l = true) (k : Bytes) :
    sget k l = sget k l' := by
  cases h : sget k l with
  | some v =>
    exact (sget_of_mem (keysNodup_perm hp hn) (hp.mem_iff.mp (sget_mem h))).symm
  | none =>
    cases h' : sget k l' with
    | none => rfl
    | some v =>
      have := sget_of_mem hn (hp.mem_iff.mpr (sget_mem h'))
      rw [this] at h; cases h

/-- The bytes up to and including the last RFC 8011 header attribute are the same for every iteration
    order of the operation group's map (and of all other maps). -/
theorem prefix_order_independent (h : Header) (g g' : Group) (ls ls' : List Group)
    (hop : g.tag = .OperationAttributes) (ht : g'.tag = g.tag) (hp : g.attrs.Perm g'.attrs)
    (hn : keysNodup g.attrs = true) :
    ∃ pre tail tail', encodeMsg h (g :: ls) = pre ++ tail ∧ encodeMsg h (g' :: ls') = pre ++ tail' ∧
      pre = encHeader h ++ (0x01 :: (opt A.ATTRIBUTES_CHARSET g.attrs ++ (opt A.ATTRIBUTES_NATURAL_LANGUAGE g.attrs ++
        (opt A.PRINTER_URI g.attrs ++ (opt A.JOB_URI g.attrs ++ opt A.JOB_ID g.attrs))))) := by
  refine ⟨_, encNonHeaderAttrs g.attrs ++ (encGroups ls ++ [0x03]), encNonHeaderAttrs g'.attrs ++ (encGroups ls' ++ [0x03]), ?_, ?_, rfl⟩
  · rw [wire_order h g ls hop]; simp [List.append_assoc]
  · rw [wire_order h g' ls' (ht.trans hop)]
    simp only [opt, ← sget_perm hp hn]
    simp [List.append_assoc]

/-! ### the premise holds for everything the public API can build -/

/-- the message starts with the operation group, which has charset and natural language -/
def Good (gs : List Group) : Prop :=
  ∃ g ls, gs = g :: ls ∧ g.tag = .OperationAttributes ∧
    (sget A.ATTRIBUTES_CHARSET g.attrs).isSome ∧ (sget A.ATTRIBUTES_NATURAL_LANGUAGE g.attrs).isSome

theorem good_add (gs : List Group) (t : DelimiterTag) (n : Bytes) (v : Value) (h : Good gs) : Good (addAttr t n v gs) := by
  obtain ⟨g, ls, rfl, hop, hc, hl⟩ := h
  simp only [addAttr]
  by_cases ht : g.tag = t
  · subst ht
    simp only [if_true]
    exact ⟨_, ls, rfl, hop, sget_isSome_sinsert _ _ _ _ hc, sget_isSome_sinsert _ _ _ _ hl⟩
  · simp only [ht, if_false]
    exact ⟨g, _, rfl, hop, hc, hl⟩

theorem good_newRequest (ver : UInt16) (op : Operation) (uri : Option Uri) : Good (newRequest ver op uri).groups := by
  cases uri with
  | none =>
    simp only [newRequest, addAttr]
    refine ⟨_, [], rfl, rfl, ?_, ?_⟩ <;> simp [sget_sinsert] <;> decide
  | some u =>
    simp only [newRequest]
    apply good_add
    simp only [addAttr]
    refine ⟨_, [], rfl, rfl, ?_, ?_⟩ <;> simp [sget_sinsert] <;> decide

theorem good_newResponse (ver : UInt16) (st : StatusCode) (id : UInt32) : Good (newResponse ver st id).groups := by
  simp only [newResponse, addAttr]
  refine ⟨_, [], rfl, rfl, ?_, ?_⟩ <;> simp [sget_sinsert] <;> decide

theorem good_adds (gs : List Group) (ops : List (DelimiterTag × Bytes × Value)) (h : Good gs) :
    Good (ops.foldl (fun g o => addAttr o.1 o.2.1 o.2.2 g) gs) := by
  induction ops generalizing gs with
  | nil => exact h
  | cons o r ih => exact ih _ (good_add _ _ _ _ h)

theorem good_withUserName (u : Option Bytes) (r : Request) (h : Good r.groups) : Good (withUserName u r).groups := by
  cases u with
  | none => exact h
  | some s => exact good_add _ _ _ _ h

theorem good_addJobAttrs (as : List (Bytes × Value)) (r : Request) (h : Good r.groups) : Good (addJobAttrs as r).groups := by
  induction as generalizing r with
  | nil => exact h
  | cons a rest ih => exact ih _ (good_add _ _ _ _ h)

/-- every operation builder yields a message satisfying the premise -/
theorem good_buildOp (k : OpKind) (uri : Uri) (jobId : UInt32) (payload : Bytes) (calls : List Call) :
    Good (buildOp k uri jobId payload calls).groups := by
  cases k <;> simp only [buildOp, printJob, getPrinterAttributes, createJob, sendDocument, purgeJobs, cancelJob,
    getJobAttributes, getJobs, cupsGetPrinters, cupsDeletePrinter]
  · -- printJob
    apply good_addJobAttrs
    cases (BState.run calls).title with
    | none => exact good_withUserName _ _ (good_newRequest _ _ _)
    | some j => exact good_add _ _ _ _ (good_withUserName _ _ (good_newRequest _ _ _))
  · split
    · exact good_newRequest _ _ _
    · exact good_add _ _ _ _ (good_newRequest _ _ _)
  · apply good_addJobAttrs
    cases (BState.run calls).title with
    | none => exact good_newRequest _ _ _
    | some j => exact good_add _ _ _ _ (good_newRequest _ _ _)
  · exact good_withUserName _ _ (good_add _ _ _ _ (good_add _ _ _ _ (good_newRequest _ _ _)))
  · exact good_withUserName _ _ (good_newRequest _ _ _)
  · exact good_withUserName _ _ (good_add _ _ _ _ (good_newRequest _ _ _))
  · exact good_withUserName _ _ (good_add _ _ _ _ (good_newRequest _ _ _))
  · exact good_withUserName _ _ (good_newRequest _ _ _)
  · exact good_newRequest _ _ _
  · exact good_newRequest _ _ _

/-- Headline: for every builder result followed by any additions, under every listing of its groups,
    the wire starts: header, 0x01, attributes-charset, attributes-natural-language, then printer-uri /
    job-uri / job-id when present. -/
theorem built_then_added_in_order (k : OpKind) (uri : Uri) (jobId : UInt32) (payload : Bytes) (calls : List Call)
    (ops : List (DelimiterTag × Bytes × Value)) (h : Header) :
    ∃ g ls vc vl tail,
      ops.foldl (fun g o => addAttr o.1 o.2.1 o.2.2 g) (buildOp k uri jobId payload calls).groups = g :: ls ∧
      encodeMsg h (g :: ls) =
        encHeader h ++ (0x01 :: (encAttr A.ATTRIBUTES_CHARSET vc ++ (encAttr A.ATTRIBUTES_NATURAL_LANGUAGE vl ++
          (opt A.PRINTER_URI g.attrs ++ (opt A.JOB_URI g.attrs ++ (opt A.JOB_ID g.attrs ++ tail)))))) := by
  obtain ⟨g, ls, hg, hop, hc, hl⟩ := good_adds _ ops (good_buildOp k uri jobId payload calls)
  obtain ⟨vc, hvc⟩ := Option.isSome_iff_exists.mp hc
  obtain ⟨vl, hvl⟩ := Option.isSome_iff_exists.mp hl
  obtain ⟨tail, ht⟩ := charset_language_first h g ls hop vc vl hvc hvl
  exact ⟨g, ls, vc, vl, tail, hg, ht⟩

/-- non-vacuity: a Send-Document request has charset, language, printer-uri and job-id -/
example : Good (sendDocument ⟨some [0x69,0x70,0x70], some [0x68], [0x2f], none, none⟩ 7 [] none true).groups :=
  good_withUserName _ _ (good_add _ _ _ _ (good_add _ _ _ _ (good_newRequest _ _ _)))

end Ipp.Props.C09
