/-
  C02 (continued) — the formal content of known finding K2: the nesting depth of what the parser returns is
  unbounded in the input (16 bytes per level), which is what the recursive `Drop` / `Clone` / `Display` of
  the Rust value type cannot survive.  Corollary of the refinement theorem (C04).
-/
import IppModel.Lemmas.Refine
import IppModel.Lemmas.Encode
import IppModel.Lemmas.DepthLin
import IppModel.Lemmas.Streams
namespace Ipp.Props.C02
open Ipp Ipp.Spec

/-- n nested collections around one integer -/
def nest : Nat → WVal
  | 0 => .plain 0x21 [0, 0, 0, 1]
  | n + 1 => .coll [([0x6d], [nest n])]

def nestMsg (n : Nat) : WMsg := ⟨0x0101, 0x0002, 1, [⟨0x01, [⟨[0x63], [nest n]⟩]⟩]⟩

theorem nest_wf (n : Nat) (c : Bool) : wfV c (nest n) = true := by
  induction n generalizing c with
  | zero => cases c <;> decide
  | succ k ih => simp [nest, wfV, wfMs, wfVs, ih]

theorem nestMsg_wf (n : Nat) : wfWire (nestMsg n) = true := by
  simp [wfWire, nestMsg, wfGroups, wfGroup, wfAttrs, wfAttr, wfVs, nest_wf, delimOf]

theorem lossy_m : lossy [0x6d] = [0x6d] := by decide

theorem nest_depth (n : Nat) : depth (interpV (nest n)) = n + 1 := by
  induction n with
  | zero => simp [nest, interpV, decodePlain, depth]
  | succ k ih =>
    simp only [nest, interpV, interpMs, interpVs, listOrValue, lossy_m, sinsert, depth, depthM, ih]
    omega

/-- For every n there is an input – a well-formed message – on which the parser succeeds and returns a
    value nested n + 1 levels deep. -/
theorem depth_unbounded (n : Nat) :
    ∃ bs g v, parseFlat bs = .ok ((⟨0x0101, 0x0002, 1⟩, [g]), []) ∧ g.attrs = [([0x63], v)] ∧ depth v = n + 1 := by
  refine ⟨ser (nestMsg n), ⟨.OperationAttributes, [([0x63], interpV (nest n))]⟩, interpV (nest n), ?_, rfl, nest_depth n⟩
  have h := parseFlat_ser (nestMsg n) [] (nestMsg_wf n)
  simp only [List.append_nil] at h
  rw [h]
  simp [interp, nestMsg, interpGroups, interpGroup, interpAttrs, interpAttr, interpVs, listOrValue, delimOf, sinsert]
  decide

/-- the input grows by 16 bytes per level -/
theorem nest_size (n : Nat) (name : Bytes) : (toksBytes (toksV name (nest n))).length = 16 * n + 9 + name.length := by
  induction n generalizing name with
  | zero => simp [nest, toksV, toksBytes, tokBytes, be16]; omega
  | succ k ih =>
    have h0 := ih []
    simp only [nest, toksV, toksMs, toksVs, List.append_nil, toksBytes]
    rw [toksBytes_append]
    simp only [toksBytes, tokBytes, be16, List.length_cons, List.length_append, List.length_nil, h0]
    omega

/-- The converse bound: on EVERY input the parser accepts (well-formed or not), the nesting depth of every value
    it returns is at most the number of bytes it consumed – depth is linear in the input, never amplified.
    Together with `depth_unbounded` / `nest_size` this pins K2 exactly: depth n needs an input of Θ(n) bytes. -/
theorem depth_linear (bs : Bytes) (h : Header) (gs : List Group) (rest : Bytes)
    (hp : parseFlat bs = .ok ((h, gs), rest)) :
    ∀ g ∈ gs, ∀ p ∈ g.attrs, depth p.2 ≤ bs.length - rest.length :=
  parseFlat_depth_linear bs h gs rest hp

/-- stronger: the SUM of the depths of all returned values, plus the 8 header bytes, fits in the bytes consumed -/
theorem depth_sum_linear (bs : Bytes) (h : Header) (gs : List Group) (rest : Bytes)
    (hp : parseFlat bs = .ok ((h, gs), rest)) : sumG gs + 8 + rest.length ≤ bs.length :=
  parseFlat_depth_sum bs h gs rest hp

/-- …and through the stream readers: however a fault-free source fragments the bytes (short reads, `Interrupted`,
    not-ready), what the blocking parser returns is no deeper than the bytes it took from the source. -/
theorem depth_linear_blocking (src : Source) (hf : noFault src = true) (h : Header) (gs : List Group) (rest : Source)
    (hp : parseSync src = .ok ((h, gs), rest)) :
    ∀ g ∈ gs, ∀ p ∈ g.attrs, depth p.2 ≤ (Source.flat src).length - (Source.flat rest).length := by
  have hflat := parseSync_flat src hf
  rw [hp] at hflat
  exact parseFlat_depth_linear _ h gs _ hflat.symm

/-- the same for the async parser (no `Interrupted` in the script, which the async reader would return as an error) -/
theorem depth_linear_async (src : Source) (hf : noFault src = true) (hi : noIntr src = true) (h : Header) (gs : List Group)
    (rest : Source) (hp : parseAsync src = .ok ((h, gs), rest)) :
    ∀ g ∈ gs, ∀ p ∈ g.attrs, depth p.2 ≤ (Source.flat src).length - (Source.flat rest).length := by
  have hflat := parseAsync_flat src hf hi
  rw [hp] at hflat
  exact parseFlat_depth_linear _ h gs _ hflat.symm

/-- non-vacuity: the hypothesis is met by the nested messages above, where the bound is within a factor 16 -/
example : ∃ bs h gs rest, parseFlat bs = .ok ((h, gs), rest) ∧ ∃ g ∈ gs, ∃ p ∈ g.attrs, depth p.2 = 4 := by
  obtain ⟨bs, g, v, hp, ha, hd⟩ := depth_unbounded 3
  exact ⟨bs, _, _, _, hp, g, by simp, ([0x63], v), by simp [ha], hd⟩

end Ipp.Props.C02
