/-
  C02 (continued) — the formal content of known finding K2: the nesting depth of what the parser returns is
  unbounded in the input (16 bytes per level), which is what the recursive `Drop` / `Clone` / `Display` of
  the Rust value type cannot survive.  Corollary of the refinement theorem (C04).
-/
import IppModel.Lemmas.Refine
import IppModel.Lemmas.Encode
namespace Ipp.Props.C02
open Ipp Ipp.Spec

/-- n nested collections around one integer -/
def nest : Nat → WVal
  | 0 => .plain 0x21 [0, 0, 0, 1]
  | n + 1 => .coll [([0x6d], [nest n])]

def nestMsg (n : Nat) : WMsg := ⟨0x0101, 0x0002, 1, [⟨0x01, [⟨[0x63], [nest n]⟩]⟩]⟩

theorem nest_wf (n : Nat) (c : Bool) : wfV c (nest n) = true := by
  induction n generalizing c with
  | zero => cases c <;> decide
  | succ k ih => simp [nest, wfV, wfMs, wfVs, ih]

theorem nestMsg_wf (n : Nat) : wfWire (nestMsg n) = true := by
  simp [wfWire, nestMsg, wfGroups, wfGroup, wfAttrs, wfAttr, wfVs, nest_wf, delimOf]

theorem lossy_m : lossy [0x6d] = [0x6d] := by decide

theorem nest_depth (n : Nat) : depth (interpV (nest n)) = n + 1 := by
  induction n with
  | zero => simp [nest, interpV, decodePlain, depth]
  | succ k ih =>
    simp only [nest, interpV, interpMs, interpVs, listOrValue, lossy_m, sinsert, depth, depthM, ih]
    omega

/-- For every n there is an input – a well-formed message – on which the parser succeeds and returns a
    value nested n + 1 levels deep. -/
theorem depth_unbounded (n : Nat) :
    ∃ bs g v, parseFlat bs = .ok ((⟨0x0101, 0x0002, 1⟩, [g]), []) ∧ g.attrs = [([0x63], v)] ∧ depth v = n + 1 := by
  refine ⟨ser (nestMsg n), ⟨.OperationAttributes, [([0x63], interpV (nest n))]⟩, interpV (nest n), ?_, rfl, nest_depth n⟩
  have h := parseFlat_ser (nestMsg n) [] (nestMsg_wf n)
  simp only [List.append_nil] at h
  rw [h]
  simp [interp, nestMsg, interpGroups, interpGroup, interpAttrs, interpAttr, interpVs, listOrValue, delimOf, sinsert]
  decide

/-- the input grows by 16 bytes per level -/
theorem nest_size (n : Nat) (name : Bytes) : (toksBytes (toksV name (nest n))).length = 16 * n + 9 + name.length := by
  induction n generalizing name with
  | zero => simp [nest, toksV, toksBytes, tokBytes, be16]; omega
  | succ k ih =>
    have h0 := ih []
    simp only [nest, toksV, toksMs, toksVs, List.append_nil, toksBytes]
    rw [toksBytes_append]
    simp only [toksBytes, tokBytes, be16, List.length_cons, List.length_append, List.length_nil, h0]
    omega

end Ipp.Props.C02
