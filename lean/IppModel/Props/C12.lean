/-
  C12 — TLS: servers are authenticated unless the caller explicitly opts out.
  PARTIAL: the theorem covers the flag and root plumbing of the four backend blocks (Model/Tls.lean) under
  the stated behaviour of the TLS libraries; the assurance that the libraries behave so comes from running
  the complete 240-cell matrix for real on every check (both clients, both backends, real handshakes).
-/
import IppModel.Model.Tls
namespace Ipp.Props.C12
open Ipp

/-- what the property demands -/
def shouldAccept (ig : IgnoreArg) (root : RootArg) (cert : CertKind) : Bool :=
  ig = .setTrue || (cert = .valid && (root = .correctPem || root = .correctDer))

/-- the whole matrix: {blocking, async} × {native-tls, rustls} × {unset, false, true} ×
    {no root, PEM, DER, unrelated} × {valid, wrong name, expired, self-signed, unknown CA} -/
theorem matrix (c : ClientKind) (b : Backend) (ig : IgnoreArg) (root : RootArg) (cert : CertKind) :
    accepts c b ig root cert = shouldAccept ig root cert := by
  cases c <;> cases b <;> cases ig <;> cases root <;> cases cert <;> rfl

/-- unless the caller opts out, nothing is relaxed and every supplied root (PEM or DER) reaches the trust store -/
theorem plumbing (c : ClientKind) (b : Backend) (ig : IgnoreArg) (root : RootArg) (h : ig ≠ .setTrue) :
    let p := tlsParams c b ig root
    p.acceptInvalidCerts = false ∧ p.acceptInvalidHostnames = false ∧ p.noVerifier = false ∧ p.buildFails = false ∧
    (∀ ca e, rootData root = some (ca, e) → ca ∈ p.roots) := by
  cases c <;> cases b <;> cases ig <;> cases root <;> simp_all [tlsParams, ignoreFlag, rootData, rootEffective,
    nativeFromPem, nativeFromDer, pkiFromPemSlice]

/-- the default (flag never set) is to verify -/
theorem default_verifies : ignoreFlag .unset = false := rfl

/-- a server whose certificate is untrusted, expired or for another name is rejected without opt-out -/
theorem bad_certificates_rejected (c : ClientKind) (b : Backend) (ig : IgnoreArg) (root : RootArg) (cert : CertKind)
    (h : ig ≠ .setTrue) (hc : cert ≠ .valid) : accepts c b ig root cert = false := by
  rw [matrix]
  cases ig <;> cases cert <;> simp_all [shouldAccept]

/-- a valid server is accepted with the correct root in either encoding -/
theorem valid_with_root_accepted (c : ClientKind) (b : Backend) (ig : IgnoreArg) :
    accepts c b ig .correctPem .valid = true ∧ accepts c b ig .correctDer .valid = true := by
  cases c <;> cases b <;> cases ig <;> exact ⟨rfl, rfl⟩

/-- the defect repaired by the DER-root fix (F7): the old async block on the rustls backend lost a DER root -/
theorem old_async_rustls_lost_der_root : rootEffectiveAsyncOld .rustls .der = some false ∧
    rootEffective .async .rustls .der = some true := ⟨rfl, rfl⟩

end Ipp.Props.C12
