/-
  C12 — TLS: servers are authenticated unless the caller explicitly opts out.
  PARTIAL: the theorem covers the flag and root plumbing of the four backend blocks (Model/Tls.lean) under
  the stated behaviour of the TLS libraries; the assurance that the libraries behave so comes from running
  the complete matrix for real on every check (both clients, both backends, real handshakes).
-/
import IppModel.Model.Tls
namespace Ipp.Props.C12
open Ipp

/-- the caller explicitly asked to ignore TLS errors: the most recent call of the setter said `true` -/
def optedOut (ig : IgnoreArg) : Bool := ig.getLast? == some true

/-- what the property demands -/
def shouldAccept (ig : IgnoreArg) (root : RootArg) (cert : CertKind) : Bool :=
  optedOut ig || (cert = .valid && (root = .correctPem || root = .correctDer || root = .decoyThenCorrect || root = .correctThenDecoy))

theorem foldl_last (l : List Bool) (i : Bool) : l.foldl (fun _ flag => flag) i = l.getLast?.getD i := by
  induction l generalizing i with
  | nil => rfl
  | cons a t ih =>
    rw [List.foldl_cons, ih]
    cases t with
    | nil => rfl
    | cons b t =>
      rw [List.getLast?_cons_cons]
      cases h : (b :: t).getLast? with
      | none => simp [List.getLast?_eq_none_iff] at h
      | some x => rfl

/-- the flag the builder ends with is the one of the most recent call; false when there was none -/
theorem flag_is_last_call (ig : IgnoreArg) : ignoreFlag ig = optedOut ig := by
  unfold ignoreFlag optedOut
  rw [foldl_last]
  cases h : ig.getLast? with
  | none => rfl
  | some b => cases b <;> rfl

/-- the whole matrix: {blocking, async} × {native-tls, rustls} × every sequence of setter calls ×
    {no root, PEM, DER, unrelated} × {valid, wrong name, expired, self-signed, unknown CA} × {DNS name, IP literal} -/
theorem matrix (c : ClientKind) (b : Backend) (ig : IgnoreArg) (root : RootArg) (cert : CertKind) (host : HostKind) :
    accepts c b ig root cert host = shouldAccept ig root cert := by
  unfold accepts shouldAccept tlsParams
  rw [flag_is_last_call]
  cases optedOut ig <;> cases c <;> cases b <;> cases root <;> cases cert <;> rfl

/-- unless the caller opts out, nothing is relaxed and every supplied root (PEM or DER) reaches the trust store -/
theorem plumbing (c : ClientKind) (b : Backend) (ig : IgnoreArg) (root : RootArg) (h : optedOut ig = false) :
    let p := tlsParams c b ig root
    p.acceptInvalidCerts = false ∧ p.acceptInvalidHostnames = false ∧ p.noVerifier = false ∧ p.buildFails = false ∧
    (∀ ca e, (ca, e) ∈ rootData root → ca ∈ p.roots) := by
  rw [← flag_is_last_call] at h
  cases c <;> cases b <;> cases root <;> simp_all [tlsParams, rootData, rootEffective,
    nativeFromPem, nativeFromDer, pkiFromPemSlice] <;>
  (intro ca e hce; rcases hce with ⟨h1, _⟩ | ⟨h1, _⟩ <;> simp [h1])

/-- the default (flag never set) is to verify -/
theorem default_verifies : ignoreFlag [] = false := rfl

/-- a later `ignore_tls_errors(false)` takes an earlier opt-out back -/
theorem opt_out_can_be_revoked (before : IgnoreArg) : ignoreFlag (before ++ [false]) = false := by
  rw [flag_is_last_call]; simp [optedOut]

/-- a server whose certificate is untrusted, expired or for another name is rejected without opt-out -/
theorem bad_certificates_rejected (c : ClientKind) (b : Backend) (ig : IgnoreArg) (root : RootArg) (cert : CertKind)
    (host : HostKind) (h : optedOut ig = false) (hc : cert ≠ .valid) : accepts c b ig root cert host = false := by
  rw [matrix]
  cases cert <;> simp_all [shouldAccept]

/-- a valid server is accepted with the correct root in either encoding -/
theorem valid_with_root_accepted (c : ClientKind) (b : Backend) (ig : IgnoreArg) (host : HostKind) :
    accepts c b ig .correctPem .valid host = true ∧ accepts c b ig .correctDer .valid host = true := by
  rw [matrix, matrix]; simp [shouldAccept]

/-- the defect repaired by the DER-root fix (F7): the old async block on the rustls backend lost a DER root -/
theorem old_async_rustls_lost_der_root : rootEffectiveAsyncOld .rustls .der = some false ∧
    rootEffective .async .rustls .der = some true := ⟨rfl, rfl⟩

end Ipp.Props.C12
