/-
  C17 — the printer readiness check never reports a stopped or blocked printer as ready.
-/
import IppModel.Model.Ready
import IppModel.Spec.Names
import IppModel.Lemmas.SMapBasic
import IppModel.Lemmas.Ready
namespace Ipp.Props.C17
open Ipp Ipp.Gen Ipp.Spec

/-- the blocking reasons the property lists -/
def blocking : List Bytes :=
  [N.media_jam, N.toner_empty, N.spool_area_full, N.cover_open, N.door_open, N.input_tray_missing,
   N.output_tray_missing, N.marker_supply_empty, N.paused, N.shutdown]

/-- the translated `ERROR_STATES` holds exactly the ten blocking words (as a set: the order in the source is irrelevant) -/
theorem error_states_pin : (Gen.errorStates.all fun k => blocking.contains k) = true ∧ (blocking.all fun k => Gen.errorStates.contains k) = true := by
  decide

theorem error_states_contains (k : Bytes) : Gen.errorStates.contains k = blocking.contains k := by
  have h := error_states_pin
  cases h1 : Gen.errorStates.contains k <;> cases h2 : blocking.contains k <;> try rfl
  · have := (List.all_eq_true.mp h.2) k (List.contains_iff_mem.mp h2)
    rw [h1] at this; cases this
  · have := (List.all_eq_true.mp h.1) k (List.contains_iff_mem.mp h1)
    rw [h2] at this; cases this

theorem names_pin : Gen.readyStateAttr = N.printer_state ∧ Gen.readyReasonsAttr = N.printer_state_reasons ∧
    Gen.readyStoppedState.code = 5 ∧ Gen.readyGroups = [.PrinterAttributes, .PrinterAttributes] := by decide

/-- the keywords a printer-state-reasons value carries: itself if it is a keyword, the keyword elements of
    a set, the keyword member values of a collection; nothing otherwise -/
def keywordsOf : Value → List Bytes
  | .str .keyword s => [s]
  | .array vs => vs.filterMap asKeyword
  | .coll ms => (ms.map (·.2)).filterMap asKeyword
  | _ => []

/-- printer-state of the first printer-attributes group is the enum value 5 (stopped) -/
def stopped (gs : List Group) : Bool :=
  match printerAttr N.printer_state gs with
  | some (.int .enum v) => v == 5
  | _ => false

def blockedBy (gs : List Group) : Bool :=
  match printerAttr N.printer_state_reasons gs with
  | some r => (keywordsOf r).any fun k => blocking.contains k
  | none => false

/-- Complete characterisation of the readiness helper. -/
theorem ready_iff (h : Header) (gs : List Group) :
    isPrinterReady h gs =
      if isSuccess (statusOf h.opOrStatus.toNat) = false then .error (statusOf h.opOrStatus.toNat)
      else .ok (!stopped gs && !blockedBy gs) := by
  have hk : ∀ r, keywordsOf r = Ready.keywordsOf r := fun _ => rfl
  have h1 : stopped gs = Ready.stoppedV (printerAttr N.printer_state gs) := by
    unfold stopped Ready.stoppedV; split <;> simp_all
  have h2 : blockedBy gs = Ready.blockedV blocking (printerAttr N.printer_state_reasons gs) := by
    unfold blockedBy Ready.blockedV; split <;> simp_all
  have h3 : ∀ o, Ready.blockedV Gen.errorStates o = Ready.blockedV blocking o := by
    intro o
    unfold Ready.blockedV
    cases o with
    | none => rfl
    | some r => simp only [error_states_contains]
  rw [Ready.ready_core, h1, h2, names_pin.1, names_pin.2.1, h3]

/-- an error carrying the IPP status exactly when the status is not successful -/
theorem error_iff_not_success (h : Header) (gs : List Group) :
    (∃ s, isPrinterReady h gs = .error s) ↔ isSuccess (statusOf h.opOrStatus.toNat) = false := by
  rw [ready_iff]
  cases isSuccess (statusOf h.opOrStatus.toNat) <;> simp

/-- a stopped printer is never ready -/
theorem stopped_not_ready (h : Header) (gs : List Group) (hs : stopped gs = true) : isPrinterReady h gs ≠ .ok true := by
  rw [ready_iff, hs]
  split <;> simp

/-- a printer with any blocking reason – single keyword or anywhere in a set – is never ready -/
theorem blocked_not_ready (h : Header) (gs : List Group) (hb : blockedBy gs = true) : isPrinterReady h gs ≠ .ok true := by
  rw [ready_iff, hb]
  split <;> simp

/-- an idle or processing printer with successful status whose reasons are absent or contain no blocking word is ready -/
theorem otherwise_ready (h : Header) (gs : List Group) (hok : isSuccess (statusOf h.opOrStatus.toNat) = true)
    (hs : stopped gs = false) (hb : blockedBy gs = false) : isPrinterReady h gs = .ok true := by
  rw [ready_iff, hok, hs, hb]
  simp

end Ipp.Props.C17
