/-
  C13 — printer-uri never leaks credentials or query; host, port and path are kept.
  Authority level: `hostOf` / `portOf` are the transcriptions of `http::uri::Authority::{host, port_u16}`
  on the raw authority text (validated against the crate on every run).
-/
import IppModel.Model.Request
import IppModel.Spec.Names
import IppModel.Lemmas.SMapBasic
import IppModel.Lemmas.Uri
namespace Ipp.Props.C13
open Ipp Ipp.Gen Ipp.Spec

theorem scheme_pin : Gen.canonScheme = N.ipp := by decide

/-- Whatever the authority is, the host written into printer-uri contains no '@': the user-info part
    (everything up to the last '@') never reaches the result. -/
theorem host_has_no_at (raw : Bytes) : cAt ∉ hostOf raw := by
  exact UriL.hostOf_not_at raw

/-- the decimal text of a port contains only digits -/
theorem dec_digits (n : Nat) : ∀ b ∈ natToDec n, isDigit b = true := by
  exact UriL.natToDec_digits n

/-- no '@' and no '?' anywhere in the canonical authority -/
theorem canon_authority_clean (raw : Bytes) : cAt ∉ canonAuthority raw := by
  exact UriL.canonAuthority_not_at raw

/-- Shape of the canonical URI of a target with an authority: scheme ipp, the same host, `:port` exactly
    when the authority carries a port, the same path, no query. -/
theorem canon_shape (u : Uri) (raw : Bytes) (h : u.authority = some raw) :
    renderUri (canonUri u) =
      N.ipp ++ ([cColon, cSlash, cSlash] ++ (hostOf raw ++
        ((match portOf raw with
          | some p => cColon :: natToDec p
          | none => []) ++ builtPath u.path))) := by
  exact UriL.renderUri_canonUri u raw h

/-- "the same path": a target written with a scheme never has an empty `path()`, and then nothing changes;
    only a target in authority form (no scheme, empty path) gets "/" -/
theorem built_path_same (p : Bytes) (h : p ≠ []) : builtPath p = p := by
  simp [builtPath, h]

/-- the fallback branch (builder failure) is taken only for targets without authority, which have no
    user-info to leak -/
theorem fallback_only_without_authority (u : Uri) (h : canonUri u = u) (hq : u.query.isSome ∨ u.scheme ≠ some N.ipp) :
    u.authority = none := by
  exact UriL.canonUri_fixed_authority u h hq

/-- an authority is bracket-balanced when a host starting with '[' has its ']' (the `http` crate validates this) -/
def bracketOk (raw : Bytes) : Bool :=
  match afterLast cAt raw with
  | x :: r => if x = cLBr then r.contains cRBr else true
  | [] => true

/-- the port text round-trips: `u16::from_str(format!("{}", p)) = p` -/
theorem parse_dec (p : Nat) (h : p ≤ 65535) : parseU16 (natToDec p) = some p := by
  exact UriL.parseU16_natToDec p h

/-- Canonicalising an already canonical URI changes nothing. -/
theorem idempotent (u : Uri) (hb : ∀ raw, u.authority = some raw → bracketOk raw = true) :
    canonUri (canonUri u) = canonUri u := by
  refine UriL.canonUri_idem u (fun raw ha r hr => ?_)
  have h := hb raw ha
  simp only [bracketOk, hr, if_true] at h
  simpa using h

/-- For a structured authority `[userinfo@]host[:port]` whose host is a registered name or IPv4 address
    (no '@', ':' , '[') the host component is recovered exactly, with and without user-info and port. -/
theorem host_of_structured (userinfo : Option Bytes) (host : Bytes) (port : Option Bytes)
    (hh : host ≠ [] ∧ cAt ∉ host ∧ cColon ∉ host ∧ host.head? ≠ some cLBr)
    (hp : ∀ p, port = some p → cAt ∉ p) :
    hostOf ((match userinfo with | some ui => ui ++ [cAt] | none => []) ++ (host ++ (match port with | some p => cColon :: p | none => []))) = host := by
  exact UriL.hostOf_structured userinfo host port hh hp

/-- …and for a bracketed IPv6 literal -/
theorem host_of_structured_v6 (userinfo : Option Bytes) (inner : Bytes) (port : Option Bytes)
    (hi : cAt ∉ inner ∧ cRBr ∉ inner) (hp : ∀ p, port = some p → cAt ∉ p) :
    hostOf ((match userinfo with | some ui => ui ++ [cAt] | none => []) ++
      ((cLBr :: inner ++ [cRBr]) ++ (match port with | some p => cColon :: p | none => []))) = cLBr :: inner ++ [cRBr] := by
  exact UriL.hostOf_structured_v6 userinfo inner port hi hp

/-- every request constructor writes the canonical form of its target as printer-uri -/
theorem ctor_printer_uri (ver : UInt16) (op : Operation) (u : Uri) :
    ∃ g, (newRequest ver op (some u)).groups = [g] ∧ sget A.PRINTER_URI g.attrs = some (.str .uri (renderUri (canonUri u))) := by
  exact UriL.newRequest_printer_uri ver op u

end Ipp.Props.C13
