/-
  C10 — operation builders produce exactly the request their arguments describe.
  `buildOp` is the model of `IppOperationBuilder::<op>(…)<calls>.build().into_ipp_request()`;
  `Spec.request` / `Spec.summary` are the declarative description (Spec/Requests.lean).
-/
import IppModel.Spec.Requests
import IppModel.Lemmas.SMapBasic
import IppModel.Lemmas.Builders
namespace Ipp.Props.C10
open Ipp Ipp.Gen Ipp.Spec

/-- the library's operation codes for the ten operations are the registry's -/
theorem op_codes_pin :
    Operation.PrintJob.code = opCode .printJob ∧ Operation.CreateJob.code = opCode .createJob ∧
    Operation.SendDocument.code = opCode .sendDocument ∧ Operation.CancelJob.code = opCode .cancelJob ∧
    Operation.GetJobAttributes.code = opCode .getJobAttributes ∧ Operation.GetJobs.code = opCode .getJobs ∧
    Operation.GetPrinterAttributes.code = opCode .getPrinterAttributes ∧ Operation.PurgeJobs.code = opCode .purgeJobs ∧
    Operation.CupsGetPrinters.code = opCode .cupsGetPrinters ∧ Operation.CupsDeletePrinter.code = opCode .cupsDeletePrinter := by
  decide

/-- the attribute-name constants used by the builders are the RFC's names -/
theorem names_pin :
    A.ATTRIBUTES_CHARSET = N.attributes_charset ∧ A.ATTRIBUTES_NATURAL_LANGUAGE = N.attributes_natural_language ∧
    A.PRINTER_URI = N.printer_uri ∧ A.REQUESTING_USER_NAME = N.requesting_user_name ∧ A.JOB_NAME = N.job_name ∧
    A.JOB_ID = N.job_id ∧ A.LAST_DOCUMENT = N.last_document ∧ A.REQUESTED_ATTRIBUTES = N.requested_attributes ∧
    utf8Lit = N.utf8 ∧ enLit = N.en := by
  decide

/-- calling a single-valued setter again replaces the earlier value; accumulating setters keep everything -/
theorem calls_fold_to_summary (calls : List Call) :
    let b := BState.run calls
    let sm := summary calls
    b.user = sm.user ∧ b.title = sm.title ∧ b.attrs = sm.jobAttrs ∧ b.isLast = sm.last ∧ b.requested = sm.requested :=
  Builders.run_eq_summary calls

/-- Every builder yields exactly the request its arguments describe. -/
theorem build_eq_spec (k : OpKind) (uri : Uri) (jobId : UInt32) (payload : Bytes) (calls : List Call) :
    buildOp k uri jobId (if hasPayload k then payload else []) calls = request k uri jobId payload (summary calls) :=
  Builders.build_eq_spec names_pin op_codes_pin k uri jobId payload calls

/-- the raw request constructor: charset, language, canonical printer-uri when a target is given, nothing else -/
theorem new_request_spec (ver : UInt16) (op : Operation) (uri : Option Uri) :
    (newRequest ver op uri).header = ⟨ver, UInt16.ofNat op.code, 1⟩ ∧
    (newRequest ver op uri).groups =
      [⟨.OperationAttributes, sinsertAll
        ([(N.attributes_charset, .str .charset N.utf8), (N.attributes_natural_language, .str .naturalLanguage N.en)] ++
         (match uri with
          | some u => [(N.printer_uri, .str .uri (renderUri (canonUri u)))]
          | none => [])) []⟩] ∧
    (newRequest ver op uri).payload = [] :=
  Builders.new_request_spec names_pin ver op uri

/-- the raw response constructor -/
theorem new_response_spec (ver : UInt16) (st : StatusCode) (id : UInt32) :
    (newResponse ver st id).header = ⟨ver, UInt16.ofNat st.code, id⟩ ∧
    (newResponse ver st id).groups =
      [⟨.OperationAttributes, sinsertAll
        [(N.attributes_charset, .str .charset N.utf8), (N.attributes_natural_language, .str .naturalLanguage N.en)] []⟩] ∧
    (newResponse ver st id).payload = [] :=
  Builders.new_response_spec names_pin ver st id

end Ipp.Props.C10
