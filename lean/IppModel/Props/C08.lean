/-
  C08 — a message read as a stream is its header+attributes then its exact payload.
  PARTIAL: `io::Cursor`, `io::Chain` / futures `Chain`, `AllowStdIo`, `block_on` are modelled libraries
  (Model/Stream.lean transcribes their logic); what the ipp code contributes – the chaining order and the
  three-way payload dispatch for both interfaces – is what the theorem is about.
-/
import IppModel.Lemmas.StreamDrain
import IppModel.Model.Attr
namespace Ipp.Props.C08
open Ipp

/-- For every message (any listing), every kind of payload source (none, blocking, async) with any
    fragmentation, not-ready and interrupted results, both consumption interfaces and every sequence of
    positive read-buffer sizes: the stream is exactly `to_bytes()` followed by exactly the payload, then EOF. -/
theorem stream_is_header_then_payload (cons : Consumer) (h : Header) (L : List Group) (pay : Payload)
    (sizes : List Nat) (dflt : Nat) (hd : 0 < dflt) (hs : sizes.all (fun n => decide (0 < n)) = true)
    (hf : noFault pay.source = true) :
    drain cons dflt (drainFuel (encodeMsg h L) pay sizes) sizes ⟨encodeMsg h L, false, pay⟩ =
      (encodeMsg h L ++ Source.flat pay.source, none) :=
  drain_content cons (encodeMsg h L) pay sizes dflt hd hs hf

/-- A blocking payload read through the async interface and an async payload read through the blocking
    interface deliver the same bytes (as each other and as the native combinations). -/
theorem bridges_agree (hdr : Bytes) (src : Source) (s1 s2 : List Nat) (hf : noFault src = true)
    (h1 : s1.all (fun n => decide (0 < n)) = true) (h2 : s2.all (fun n => decide (0 < n)) = true) :
    drain .async 4096 (drainFuel hdr (.sync src) s1) s1 ⟨hdr, false, .sync src⟩ =
    drain .blocking 4096 (drainFuel hdr (.async src) s2) s2 ⟨hdr, false, .async src⟩ := by
  rw [drain_content .async hdr (.sync src) s1 4096 (by decide) h1 hf,
      drain_content .blocking hdr (.async src) s2 4096 (by decide) h2 hf]
  rfl

/-- an empty payload contributes nothing -/
theorem empty_payload (cons : Consumer) (hdr : Bytes) (sizes : List Nat) (hs : sizes.all (fun n => decide (0 < n)) = true) :
    drain cons 4096 (drainFuel hdr .empty sizes) sizes ⟨hdr, false, .empty⟩ = (hdr, none) := by
  have := drain_content cons hdr .empty sizes 4096 (by decide) hs rfl
  simpa [Payload.source, Source.flat] using this

/-- non-vacuity: one-byte buffers, a fragmented async payload with not-ready results read through the blocking interface -/
example : drain .blocking 4096 (drainFuel [1, 2] (.async [.pending, .data [7], .pending, .data [8, 9]]) [1, 1])
    [1, 1] ⟨[1, 2], false, .async [.pending, .data [7], .pending, .data [8, 9]]⟩ = ([1, 2, 7, 8, 9], none) := by decide

end Ipp.Props.C08
