/-
  C14 — ipp/ipps targets map to the right http/https URL and default port.
  The model agrees with the implementation (correspondence) and both contradict the property at one point:
  a port-less `ipps` target gets port 443 instead of 631 (known finding K1, pinned by the repository's own
  test `test_ipps_uri_no_port`).  The full statement is `transportUrl u = transportUrlSpec u`; it is proved
  everywhere except that point, and the counterexample is proved too.
-/
import IppModel.Spec.Transport
import IppModel.Lemmas.Uri
namespace Ipp.Props.C14
open Ipp Ipp.Gen Ipp.Spec

/-- the translated arms of `ipp_uri_to_string` -/
theorem arms_pin : Gen.transportArms = [(N.ipps, N.https, 443), (N.ipp, N.http, 631)] := by decide

/-- `natToDec 631 = "631"`, `natToDec 443 = "443"` -/
theorem dec_631 : natToDec 631 = port631 := by decide

/-- PARTIAL (everything but port-less ipps): the URL contacted is the one the RFCs prescribe. -/
theorem transport_partial (u : Uri)
    (h : ¬ (u.scheme = some N.ipps ∧ ∃ raw, u.authority = some raw ∧ portOf raw = none)) :
    transportUrl u = transportUrlSpec u := by
  exact UriL.transportUrl_eq_spec u h

/-- scheme ipp: http, explicit port kept, 631 otherwise; user-info, host, path and query unchanged -/
theorem ipp_maps_to_http (raw : Bytes) (path : Bytes) (q pq : Option Bytes) :
    transportUrl ⟨some N.ipp, some raw, path, q, pq⟩ =
      N.http ++ ([cColon, cSlash, cSlash] ++ ((if (portOf raw).isSome then raw else raw ++ (cColon :: port631)) ++ pq.getD [])) := by
  exact UriL.transportUrl_ipp raw path q pq

/-- scheme ipps with an explicit port: https, port kept -/
theorem ipps_with_port (raw : Bytes) (path : Bytes) (q pq : Option Bytes) (hp : (portOf raw).isSome) :
    transportUrl ⟨some N.ipps, some raw, path, q, pq⟩ = N.https ++ ([cColon, cSlash, cSlash] ++ (raw ++ pq.getD [])) := by
  rw [UriL.transportUrl_ipps, if_pos hp]

/-- targets that already use http or https (or anything else) are used as they are -/
theorem other_schemes_unchanged (u : Uri) (h1 : u.scheme ≠ some N.ipp) (h2 : u.scheme ≠ some N.ipps) :
    transportUrl u = renderUri u := by
  exact UriL.transportUrl_other u h1 h2

/-- K1: the property is false of the model (and of the code) for a port-less ipps target. -/
theorem portless_ipps_counterexample :
    transportUrl ⟨some N.ipps, some [0x68], [0x2f], none, some [0x2f]⟩ ≠ transportUrlSpec ⟨some N.ipps, some [0x68], [0x2f], none, some [0x2f]⟩ := by
  decide

/-- …and exactly how: 443 is appended where 631 is prescribed -/
theorem portless_ipps_gets_443 (raw : Bytes) (path : Bytes) (q pq : Option Bytes) (hp : portOf raw = none) :
    transportUrl ⟨some N.ipps, some raw, path, q, pq⟩ =
      N.https ++ ([cColon, cSlash, cSlash] ++ ((raw ++ (cColon :: [0x34, 0x34, 0x33])) ++ pq.getD [])) := by
  rw [UriL.transportUrl_ipps, hp]; rfl

/-- a bracketed IPv6 literal without port gets the default port outside the brackets; user-info is not mistaken for a port -/
example : transportUrl ⟨some N.ipp, some [0x5b, 0x3a, 0x3a, 0x31, 0x5d], [0x2f], none, some [0x2f]⟩ =
    N.http ++ [0x3a, 0x2f, 0x2f, 0x5b, 0x3a, 0x3a, 0x31, 0x5d, 0x3a, 0x36, 0x33, 0x31, 0x2f] := by decide
example : portOf [0x75, 0x3a, 0x70, 0x40, 0x68] = none := by decide   -- "u:p@h"

end Ipp.Props.C14
