/-
  C03 — encoder output is well-formed RFC 8010 and means what was encoded.
  For every message `gs` of the public value model (`wfMsg`) and every listing `L` of it (every iteration
  order of every attribute map), the bytes the encoder produces are exactly the RFC's serialisation `ser`
  of the reference wire tree `toWireMsg`, that tree is well-formed, and its RFC reading is the message.
  The independent decoder of the harness side (`Spec.unser`) is run on the real bytes by the check.
-/
import IppModel.Lemmas.Encode
import IppModel.Lemmas.Extra
import IppModel.Lemmas.OpFirst
namespace Ipp.Props.C03
open Ipp Ipp.Gen Ipp.Spec

/-- bytes identical to the reference encoding (the only freedom is the listing, universally quantified) -/
theorem reference_encoding (h : Header) (gs L : List Group) (hwf : wfMsg gs = true) (hL : ListingOf gs L) :
    encodeMsg h L = ser (toWireMsg h L) :=
  encodeMsg_eq_ser h gs L hwf hL

/-- the encoded tree is well-formed: tags in range, every length field equals what follows (by
    construction of `ser`), bodies fit their syntaxes, non-empty names, ≥ 1 value per attribute and member,
    brackets balanced -/
theorem wellformed (h : Header) (gs L : List Group) (hwf : wfMsg gs = true) (hL : ListingOf gs L) :
    wfWire (toWireMsg h L) = true :=
  toWireMsg_wf h gs L hwf hL

/-- read back by the RFC's reading, the content equals the message that was encoded -/
theorem means_what_was_encoded (h : Header) (gs L : List Group) (hwf : wfMsg gs = true) (hL : ListingOf gs L) :
    interp (toWireMsg h L) = (h, gs) :=
  interp_toWireMsg h gs L hwf hL

/-- every value carries the registered tag of its syntax -/
theorem registered_tags (v : Value) (inColl : Bool) (hv : wfVal inColl false v = true) : tagOf v = registryTag v :=
  tagOf_registry v inColl hv

/-- the attribute section ends with exactly one end tag: `ser` appends 0x03 once, after the groups -/
theorem single_end_tag (w : WMsg) :
    ser w = be16 w.version.toNat ++ (be16 w.op.toNat ++ (be32 w.id ++ (serGroups w.groups ++ [0x03]))) := rfl

/-- each additional value of a set has an empty name and its own tag (shape of `toksVs`) -/
theorem additional_values_shape (t : UInt8) (b : Bytes) (vs : List WVal) :
    toksVs (.plain t b :: vs) = ⟨t, [], b⟩ :: toksVs vs := by
  simp [toksVs, toksV]

/-- The independent decoder used on the real bytes (`Spec.unser`, plain recursive descent over the RFC 8010
    grammar) inverts the serialiser on every well-formed tree: the grammar is unambiguous and the decoder
    finds exactly the tree and the trailing data. -/
theorem independent_decoder_correct (w : WMsg) (p : Bytes) (h : wfWire w = true) : unser (ser w ++ p) = some (w, p) :=
  unser_ser w p h

/-- hence, for every message of the domain and every listing, the independent decoder reads the encoder's
    bytes as the reference wire tree -/
theorem independent_decoder_reads_encoder (h : Header) (gs L : List Group) (hwf : wfMsg gs = true) (hL : ListingOf gs L) :
    unser (encodeMsg h L) = some (toWireMsg h L, []) := by
  have := unser_ser (toWireMsg h L) [] (toWireMsg_wf h gs L hwf hL)
  rw [encodeMsg_eq_ser h gs L hwf hL]
  simpa using this

/-- non-vacuity: a message with a mixed set, nested collections with a multi-valued member, a repeated
    and an empty group is in the domain -/
def demo : List Group :=
  [⟨.OperationAttributes, [([0x61], .array [.int .integer 1, .str .keyword [0x6b]]),
                           ([0x63], .coll [([0x6d], .array [.bool true, .noValue]),
                                           ([0x6e], .coll [([0x78], .str .textWithoutLanguage [0xc3, 0xa9])])])]⟩,
   ⟨.JobAttributes, []⟩, ⟨.OperationAttributes, [([0x7a], .other 0x2f [1, 2, 3])]⟩]

example : wfMsg demo = true := by decide

/-- Every message: the encoder's bytes are the reference encoding of the message with its operation group in front,
    that tree is well-formed, and its reading is exactly that message. -/
theorem any_message (h : Header) (gs L : List Group) (hwf : gs.all wfGroupC = true) (hL : ListingOf gs L) :
    encodeMsg h L = ser (toWireMsg h (opFirst L)) ∧ wfWire (toWireMsg h (opFirst L)) = true ∧
    interp (toWireMsg h (opFirst L)) = (h, opFirst gs) := by
  have hwf' := wfMsg_opFirst gs hwf
  have hL' := listing_opFirst gs L hL
  refine ⟨?_, toWireMsg_wf h _ _ hwf' hL', interp_toWireMsg h _ _ hwf' hL'⟩
  rw [← encodeMsg_opFirst h L]
  exact encodeMsg_eq_ser h _ _ hwf' hL'

/-! ### what the history oracle of the `encoded` op expects, as theorems -/

/-- the header is exactly eight octets, whatever its fields -/
theorem header_is_8 (h : Header) : (encHeader h).length = 8 := by
  simp [encHeader, be16, be32]

/-- The bytes depend on the header only through their first eight octets: changing the header of a message changes
    those eight octets to the new header and nothing after them. -/
theorem header_change (h h' : Header) (L : List Group) :
    encodeMsg h' L = encHeader h' ++ (encodeMsg h L).drop 8 := by
  have h8 := header_is_8 h
  simp only [encodeMsg]
  rw [List.drop_append_of_le_length (by omega), ← h8, List.drop_length, List.nil_append]

/-- a message without groups is its header, an empty operation group and the end tag -/
theorem no_groups (h : Header) : encodeMsg h [] = encHeader h ++ [0x01, 0x03] := by
  simp [encodeMsg, encAttributes, firstOp, restGroups, encGroups]
  decide

end Ipp.Props.C03
