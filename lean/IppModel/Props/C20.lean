/-
  C20 — serde feature: header and attributes survive serialise/deserialise.
  PARTIAL: serde's derive conventions and serde_json are modelled libraries (Model/Json.lean); the field
  and variant names the derive uses are regenerated from the Rust type definitions on every run, and the
  real `serde_json` output is compared with the model's JSON value on every case.
-/
import IppModel.Lemmas.JsonRt
namespace Ipp.Props.C20
open Ipp Ipp.Gen Ipp.Spec

/-- only the payload is skipped by the derive -/
theorem skipped_pin : Gen.serdeSkipped = [[0x70, 0x61, 0x79, 0x6c, 0x6f, 0x61, 0x64]] := by decide

/-- every value kind – also raw-octet values and nested collections – survives -/
theorem value_roundtrip (v : Value) (h : collsSorted v = true) : jsonToValue (valueToJson v) = some v :=
  json_value_roundtrip v h

/-- deserialising the serialised header and attributes reproduces the same header, groups, names and values -/
theorem message_roundtrip (h : Header) (gs : List Group) (hc : mapsCanonical gs = true) :
    jsonToMsg (msgToJson h gs) = some (h, gs) :=
  json_msg_roundtrip h gs hc

/-- the messages of C01's domain satisfy the hypothesis -/
theorem domain_of_C01 (gs : List Group) (hw : wfMsg gs = true) : mapsCanonical gs = true := by
  unfold wfMsg at hw
  rw [Bool.and_eq_true] at hw
  unfold mapsCanonical
  rw [List.all_eq_true]
  intro g hg
  have hgw := List.all_eq_true.mp hw.2 g hg
  unfold wfGroupC at hgw
  rw [Bool.and_eq_true, Bool.and_eq_true] at hgw
  rw [Bool.and_eq_true, List.all_eq_true]
  refine ⟨hgw.1.2, ?_⟩
  intro p hp
  have hpw := List.all_eq_true.mp hgw.2 p hp
  unfold wfAttrC at hpw
  rw [Bool.and_eq_true] at hpw
  exact hpw.2

/-- the payload is not part of the JSON value: the top-level object has exactly the two other fields -/
theorem payload_not_serialised (h : Header) (gs : List Group) :
    ∃ a b, msgToJson h gs = .obj [(J.header, a), (J.attributes, b)] := ⟨_, _, rfl⟩

end Ipp.Props.C20
