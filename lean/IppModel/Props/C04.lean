/-
  C04 — the parser reads every well-formed RFC 8010 message as the RFC says.
  `Spec.ser` / `Spec.interp` / `Spec.wfWire` are written from the RFC (Spec/Wire.lean); `parseFlat` is the
  model of the blocking parser.  The refinement theorem covers every wire tree: repeated and empty groups,
  out-of-band and unregistered syntaxes, mixed sets, multi-valued collection members, sets of collections,
  text that is not UTF-8, duplicate names (last wins, as in a map), any payload after the end tag.
-/
import IppModel.Lemmas.Refine
namespace Ipp.Props.C04
open Ipp Ipp.Gen Ipp.Spec

/-- Every well-formed wire tree, followed by any payload, parses to exactly its RFC reading and leaves
    exactly the payload. -/
theorem parse_wellformed (w : WMsg) (p : Bytes) (h : wfWire w = true) :
    parseFlat (ser w ++ p) = .ok (interp w, p) :=
  parseFlat_ser w p h

/-- A byte outside the delimiter and value tag ranges where a tag is expected makes the message be
    rejected, not skipped: after the header and any number of complete well-formed groups. -/
theorem reject_bad_tag (v o : UInt16) (i : UInt32) (gs : List WGroup) (b : UInt8) (r : Bytes)
    (h : wfGroups gs = true) (hb : b = 0 ∨ (5 < b ∧ b < 0x10) ∨ 0x4a < b) :
    parseFlat (be16 v.toNat ++ (be16 o.toNat ++ (be32 i ++ (serGroups gs ++ b :: r)))) = .err (.invalidTag b) :=
  parseFlat_bad_tag v o i gs b r h hb

/-- non-vacuity: a tree with a repeated group, an empty group, a mixed set, a collection with a
    two-valued member and a nested collection, non-UTF-8 text and an unregistered tag is well-formed -/
def demo : WMsg :=
  ⟨0x0101, 0x0002, 7,
   [⟨0x01, [⟨[0x61], [.plain 0x21 [0, 0, 0, 5], .plain 0x44 [0x6b]]⟩,
            ⟨[0x63], [.coll [([0x6d], [.plain 0x21 [0, 0, 0, 1], .plain 0x22 [1]]),
                             ([0x6e], [.coll [([0x78], [.plain 0x41 [0xff, 0xfe]])]])]]⟩]⟩,
    ⟨0x02, []⟩, ⟨0x01, [⟨[0x7a], [.plain 0x2f [1, 2, 3]]⟩]⟩]⟩

example : wfWire demo = true := by decide

end Ipp.Props.C04
