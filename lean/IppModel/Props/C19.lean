/-
  C19 — the attribute container and the value traversal behave as a simple ordered model.
-/
import IppModel.Model.Iter
import IppModel.Model.Attr
import IppModel.Lemmas.SMapBasic
import IppModel.Lemmas.Extra
import IppModel.Lemmas.Container
import IppModel.Lemmas.Traverse
namespace Ipp.Props.C19
open Ipp Ipp.Gen Ipp.SM0

abbrev Op := DelimiterTag × Bytes × Value

/-- a history of `add(group kind, name, value)` operations applied to a message -/
def addAll (gs : List Group) (ops : List Op) : List Group :=
  ops.foldl (fun g o => addAttr o.1 o.2.1 o.2.2 g) gs

/-- Adding puts the attribute into the *first* existing group of that kind, replacing any attribute of
    the same name there, and touches nothing else. -/
theorem add_into_first (pre post : List Group) (g : Group) (t : DelimiterTag) (n : Bytes) (v : Value)
    (hpre : ∀ x ∈ pre, x.tag ≠ t) (hg : g.tag = t) :
    addAttr t n v (pre ++ g :: post) = pre ++ { g with attrs := sinsert n v g.attrs } :: post :=
  Container.addAttr_into_first pre post g t n v hpre hg

/-- When there is no group of that kind, a new group holding just this attribute is appended at the end. -/
theorem add_appends_new (gs : List Group) (t : DelimiterTag) (n : Bytes) (v : Value) (h : ∀ x ∈ gs, x.tag ≠ t) :
    addAttr t n v gs = gs ++ [⟨t, [(n, v)]⟩] :=
  Container.addAttr_appends_new gs t n v h

/-- after an add, the affected group binds the name to the new value and every other name as before -/
theorem add_lookup (attrs : List (Bytes × Value)) (n j : Bytes) (v : Value) :
    sget j (sinsert n v attrs) = if j = n then some v else sget j attrs :=
  sget_sinsert n j v attrs

/-- kinds in order of first use -/
def firstUse (ts : List DelimiterTag) : List DelimiterTag :=
  ts.foldl (fun acc t => if acc.contains t then acc else acc ++ [t]) []

/-- the (name, value) pairs added to kind `t`, in order -/
def opsFor (t : DelimiterTag) (ops : List Op) : List (Bytes × Value) :=
  (ops.filter fun o => o.1 = t).map fun o => (o.2.1, o.2.2)

/-- A message built only by additions holds one group per kind used, in order of first use, each with the
    most recent attribute per name (`sinsertAll` = insert in order, last wins). -/
theorem history_from_empty (ops : List Op) :
    addAll [] ops = (firstUse (ops.map (·.1))).map fun t => ⟨t, sinsertAll (opsFor t ops) []⟩ :=
  Container.adds_from_empty ops

/-- From any start (e.g. a parsed message with repeated groups): the kinds of the existing groups never
    change or move, and new kinds are appended in order of first use. -/
theorem history_tags (gs : List Group) (ops : List Op) :
    (addAll gs ops).map (·.tag) =
      gs.map (·.tag) ++ (firstUse (ops.map (·.1))).filter (fun t => !(gs.map (·.tag)).contains t) := by
  have h1 : addAll gs ops = Container.adds gs ops := rfl
  have h2 : firstUse (ops.map (·.1)) = Container.fuA [] (ops.map (·.1)) := rfl
  rw [h1, h2, Container.tags_adds, Container.fuA_eq]

/-- Looking groups up by kind returns exactly the groups of that kind, in message order. -/
theorem groups_of_order (t : DelimiterTag) (gs : List Group) :
    (groupsOf t gs).Sublist gs ∧ (∀ g ∈ groupsOf t gs, g.tag = t) ∧ (∀ g ∈ gs, g.tag = t → g ∈ groupsOf t gs) := by
  refine ⟨List.filter_sublist, ?_, ?_⟩
  · intro g hg
    simpa using (List.mem_filter.mp hg).2
  · intro g hg ht
    exact List.mem_filter.mpr ⟨hg, by simpa using ht⟩

/-- Traversal visits the elements of a set in order, the member values of a collection in member-name
    order (the map is kept sorted by name), any other value exactly once. -/
theorem traversal (v : Value) :
    iterAll v = match v with
      | .array vs => vs
      | .coll ms => ms.map (·.2)
      | w => [w] :=
  Traverse.iterAll_eq v

/-- …and then it ends: once `next` has returned `None` it keeps returning `None`. -/
theorem traversal_ends (s : IterSt) (h : s.next.1 = none) : s.next.2 = s ∧ (s.next.2).next.1 = none := by
  have e := Traverse.next_none s h
  exact ⟨e, by rw [e]; exact h⟩

/-- after a complete traversal the iterator is exhausted -/
theorem traversal_exhausts (v : Value) : ((IterSt.collect (valueSize v + 1) v.iter).2).next.1 = none :=
  Traverse.collect_exhausts v

/-- General form: from *any* start state – e.g. a parsed message with repeated groups – a history of
    additions yields exactly the declaratively specified message (Spec/Container.lean): every existing group
    that is the first of its kind receives the additions made to that kind, last one wins per name; other
    groups are untouched; new kinds are appended in order of first use. -/
theorem history_general (gs : List Group) (ops : List Spec.AddOp) :
    ops.foldl (fun g o => addAttr o.1 o.2.1 o.2.2 g) gs = Spec.addHistory gs ops :=
  addAll_eq_history gs ops

end Ipp.Props.C19
