/-
  C05 — the async parser is observationally identical to the blocking parser.
  The two drive loops are transcribed with the tag ranges the translator extracts from each of them
  (`Gen.asyncLoop`, `Gen.syncLoop`) and run over the two different `read_exact`s (std: retries
  `Interrupted`; futures-util: returns it, suspends on `Pending`).
-/
import IppModel.Model.Sources
import IppModel.Lemmas.Streams
namespace Ipp.Props.C05
open Ipp Ipp.Gen

/-- both loops dispatch on the same tag ranges and end on the same delimiter -/
theorem loops_pin : Gen.asyncLoop = Gen.syncLoop := by decide

/-- For every script of data chunks, not-ready results and failures (no `Interrupted`): same outcome –
    same header, groups, attributes and remaining stream, or the same error (same offending tag, same
    I/O error kind). -/
theorem async_eq_blocking (src : Source) (hi : noIntr src = true) : parseAsync src = parseSync src :=
  parseAsync_eq_parseSync src hi

/-- …also against the blocking parser run on the script with the not-ready results removed (which is
    how the harness drives the real blocking parser) -/
theorem async_eq_blocking_delivered (src : Source) (hi : noIntr src = true) :
    (parseAsync src).mapRest deliver = (parseSync (deliver src)).mapRest deliver :=
  parseAsync_eq_parseSync_deliver src hi

/-- The one observable difference, stated rather than hidden in a hypothesis: `Interrupted` is retried
    by the blocking reader and returned by the async one. -/
theorem interrupted_differs :
    (parseSync [.interrupted, .data [1, 1, 0, 2, 0, 0, 0, 1, 3]]).mapRest Source.flat = .ok ((⟨0x0101, 2, 1⟩, []), []) ∧
    parseAsync [.interrupted, .data [1, 1, 0, 2, 0, 0, 0, 1, 3]] = .err (.io .interrupted) := by
  constructor <;> rfl

end Ipp.Props.C05
