/-
  C01 — encode then parse returns the same message.
  Composition of C03 (the encoder writes the reference encoding of the message, for every listing) and
  C04 (the parser reads every well-formed encoding as the RFC says, leaving the payload untouched).
-/
import IppModel.Lemmas.Encode
import IppModel.Lemmas.Refine
import IppModel.Lemmas.OpFirst
namespace Ipp.Props.C01
open Ipp Ipp.Gen Ipp.Spec

/-- For every header, every message of the public value model, every iteration order of its maps and
    every payload: parsing the encoder's bytes followed by the payload returns the same header, the same
    groups in the same order with the same names bound to the same values, and the payload byte-identical. -/
theorem roundtrip (h : Header) (gs L : List Group) (p : Bytes) (hwf : wfMsg gs = true) (hL : ListingOf gs L) :
    parseFlat (encodeMsg h L ++ p) = .ok ((h, gs), p) := by
  rw [encodeMsg_eq_ser h gs L hwf hL, parseFlat_ser _ p (toWireMsg_wf h gs L hwf hL), interp_toWireMsg h gs L hwf hL]

/-- the canonical listing is a listing -/
theorem listing_refl (gs : List Group) : ListingOf gs gs := by
  induction gs with
  | nil => trivial
  | cons g r ih => exact ⟨rfl, List.Perm.refl _, ih⟩

theorem roundtrip_canonical (h : Header) (gs : List Group) (p : Bytes) (hwf : wfMsg gs = true) :
    parseFlat (encodeMsg h gs ++ p) = .ok ((h, gs), p) :=
  roundtrip h gs gs p hwf (listing_refl gs)

/-- "A one-element set is identified with its element": they have the same bytes, hence the same reading. -/
theorem singleton_set (n : Bytes) (v : Value) : encAttr n (.array [v]) = encAttr n v :=
  encAttr_singleton n v

/-- non-vacuity (same message as in C03) -/
def demo : List Group :=
  [⟨.OperationAttributes, [([0x61], .array [.int .integer 1, .str .keyword [0x6b]]),
                           ([0x63], .coll [([0x6d], .array [.bool true, .noValue]),
                                           ([0x6e], .coll [([0x78], .str .textWithoutLanguage [0xc3, 0xa9])])])]⟩,
   ⟨.JobAttributes, []⟩, ⟨.OperationAttributes, [([0x7a], .other 0x2f [1, 2, 3])]⟩]

example : wfMsg demo = true := by decide

/-- Every message, whatever the position of its operation group: the bytes parse back to the message with its
    first operation group moved to the front (an empty one when it has none) and nothing else changed. -/
theorem roundtrip_any (h : Header) (gs L : List Group) (p : Bytes) (hwf : gs.all wfGroupC = true) (hL : ListingOf gs L) :
    parseFlat (encodeMsg h L ++ p) = .ok ((h, opFirst gs), p) := by
  rw [← encodeMsg_opFirst h L]
  exact roundtrip h (opFirst gs) (opFirst L) p (wfMsg_opFirst gs hwf) (listing_opFirst gs L hL)

/-- on the constructors' shape `opFirst` changes nothing, so `roundtrip` is the special case -/
theorem opFirst_id_of_wf (gs : List Group) (hwf : wfMsg gs = true) : opFirst gs = gs :=
  opFirst_of_wfMsg gs hwf

/-- `opFirst` loses and invents nothing: when the message has an operation group it only reorders the groups … -/
theorem opFirst_only_reorders (gs : List Group) (h : gs.any (fun g => g.tag == .OperationAttributes) = true) :
    (opFirst gs).Perm gs :=
  opFirst_perm gs h

/-- … and when it has none, the encoder's empty operation group is put in front of the unchanged list -/
theorem opFirst_without_operation_group (gs : List Group) (h : gs.any (fun g => g.tag == .OperationAttributes) = false) :
    opFirst gs = ⟨.OperationAttributes, []⟩ :: gs :=
  opFirst_none gs h

/-- The encoding is unambiguous: two (message, payload) pairs with the same bytes – under any two iteration orders of
    their maps – are the same header, the same groups and the same payload.  In particular no encoded message is a
    proper prefix of another one followed by document data, so the attribute/payload boundary is determined by the
    bytes alone. -/
theorem encode_injective (h h' : Header) (gs gs' L L' : List Group) (p p' : Bytes)
    (hwf : wfMsg gs = true) (hwf' : wfMsg gs' = true) (hL : ListingOf gs L) (hL' : ListingOf gs' L')
    (he : encodeMsg h L ++ p = encodeMsg h' L' ++ p') : h = h' ∧ gs = gs' ∧ p = p' := by
  have a := roundtrip h gs L p hwf hL
  have b := roundtrip h' gs' L' p' hwf' hL'
  rw [he, b] at a
  simp only [Outcome.ok.injEq, Prod.mk.injEq] at a
  exact ⟨a.1.1.symm, a.1.2.symm, a.2.symm⟩

/-- the iteration order of the maps never changes what the bytes mean: two listings of one message parse alike -/
theorem listing_irrelevant (h : Header) (gs L L' : List Group) (p : Bytes) (hwf : wfMsg gs = true)
    (hL : ListingOf gs L) (hL' : ListingOf gs L') :
    parseFlat (encodeMsg h L ++ p) = parseFlat (encodeMsg h L' ++ p) := by
  rw [roundtrip h gs L p hwf hL, roundtrip h gs L' p hwf hL']

end Ipp.Props.C01
