/-
  C07 — truncated or failing streams are never accepted as complete messages.
-/
import IppModel.Model.Sources
import IppModel.Lemmas.Streams
namespace Ipp.Props.C07
open Ipp Ipp.Gen

/-- Whatever input the parser accepts (well-formed or not): every proper prefix of the consumed part is
    rejected with `UnexpectedEof`. -/
theorem prefix_rejected (bs : Bytes) (r : Header × List Group) (rest : Bytes) (h : parseFlat bs = .ok (r, rest))
    (k : Nat) (hk : k < bs.length - rest.length) :
    parseFlat (bs.take k) = .err (.io .unexpectedEof) :=
  parseFlat_prefix bs r rest h k hk

/-- the same through both parsers over any fragmentation of the prefix -/
theorem prefix_rejected_streams (bs : Bytes) (r : Header × List Group) (rest : Bytes) (h : parseFlat bs = .ok (r, rest))
    (src : Source) (hf : noFault src = true) (hk : (Source.flat src).length < bs.length - rest.length)
    (hp : Source.flat src = bs.take (Source.flat src).length) :
    parseSync src = .err (.io .unexpectedEof) ∧ (noIntr src = true → parseAsync src = .err (.io .unexpectedEof)) :=
  prefix_streams bs r rest h src hf hk hp

/-- If the source fails with an I/O error before the end-of-attributes tag has been delivered, parsing
    returns an error carrying that kind – for every fragmentation before the failure and whatever follows it.
    (`Interrupted` is excluded for the blocking reader: std's `read_exact` retries that kind by design.) -/
theorem fault_propagates (bs : Bytes) (r : Header × List Group) (rest : Bytes) (h : parseFlat bs = .ok (r, rest))
    (src1 src2 : Source) (e : IoKind) (hf : noFault src1 = true)
    (hk : (Source.flat src1).length < bs.length - rest.length)
    (hp : Source.flat src1 = bs.take (Source.flat src1).length) :
    (e ≠ .interrupted → parseSync (src1 ++ .fail e :: src2) = .err (.io e)) ∧
    (noIntr src1 = true → parseAsync (src1 ++ .fail e :: src2) = .err (.io e)) :=
  fault_streams bs r rest h src1 src2 e hf hk hp

end Ipp.Props.C07
