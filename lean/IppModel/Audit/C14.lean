import IppModel.Props.C14
#print axioms Ipp.Props.C14.arms_pin
#print axioms Ipp.Props.C14.dec_631
#print axioms Ipp.Props.C14.transport_partial
#print axioms Ipp.Props.C14.ipp_maps_to_http
#print axioms Ipp.Props.C14.ipps_with_port
#print axioms Ipp.Props.C14.other_schemes_unchanged
#print axioms Ipp.Props.C14.portless_ipps_counterexample
#print axioms Ipp.Props.C14.portless_ipps_gets_443
