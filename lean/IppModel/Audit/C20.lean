import IppModel.Props.C20
#print axioms Ipp.Props.C20.skipped_pin
#print axioms Ipp.Props.C20.value_roundtrip
#print axioms Ipp.Props.C20.message_roundtrip
#print axioms Ipp.Props.C20.domain_of_C01
#print axioms Ipp.Props.C20.payload_not_serialised
