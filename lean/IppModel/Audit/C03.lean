import IppModel.Props.C03
#print axioms Ipp.Props.C03.reference_encoding
#print axioms Ipp.Props.C03.wellformed
#print axioms Ipp.Props.C03.means_what_was_encoded
#print axioms Ipp.Props.C03.registered_tags
#print axioms Ipp.Props.C03.single_end_tag
#print axioms Ipp.Props.C03.additional_values_shape
#print axioms Ipp.Props.C03.independent_decoder_correct
#print axioms Ipp.Props.C03.independent_decoder_reads_encoder
#print axioms Ipp.Props.C03.any_message
#print axioms Ipp.Props.C03.header_is_8
#print axioms Ipp.Props.C03.header_change
#print axioms Ipp.Props.C03.no_groups
