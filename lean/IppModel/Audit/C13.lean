import IppModel.Props.C13
#print axioms Ipp.Props.C13.scheme_pin
#print axioms Ipp.Props.C13.host_has_no_at
#print axioms Ipp.Props.C13.dec_digits
#print axioms Ipp.Props.C13.canon_authority_clean
#print axioms Ipp.Props.C13.canon_shape
#print axioms Ipp.Props.C13.built_path_same
#print axioms Ipp.Props.C13.fallback_only_without_authority
#print axioms Ipp.Props.C13.parse_dec
#print axioms Ipp.Props.C13.idempotent
#print axioms Ipp.Props.C13.host_of_structured
#print axioms Ipp.Props.C13.host_of_structured_v6
#print axioms Ipp.Props.C13.ctor_printer_uri
