import IppModel.Props.C12
#print axioms Ipp.Props.C12.foldl_last
#print axioms Ipp.Props.C12.flag_is_last_call
#print axioms Ipp.Props.C12.matrix
#print axioms Ipp.Props.C12.plumbing
#print axioms Ipp.Props.C12.default_verifies
#print axioms Ipp.Props.C12.opt_out_can_be_revoked
#print axioms Ipp.Props.C12.bad_certificates_rejected
#print axioms Ipp.Props.C12.valid_with_root_accepted
#print axioms Ipp.Props.C12.old_async_rustls_lost_der_root
