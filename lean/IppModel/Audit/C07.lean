import IppModel.Props.C07
#print axioms Ipp.Props.C07.prefix_rejected
#print axioms Ipp.Props.C07.prefix_rejected_streams
#print axioms Ipp.Props.C07.fault_propagates
