import IppModel.Props.C01
#print axioms Ipp.Props.C01.roundtrip
#print axioms Ipp.Props.C01.listing_refl
#print axioms Ipp.Props.C01.roundtrip_canonical
#print axioms Ipp.Props.C01.singleton_set
#print axioms Ipp.Props.C01.roundtrip_any
#print axioms Ipp.Props.C01.opFirst_id_of_wf
#print axioms Ipp.Props.C01.opFirst_only_reorders
#print axioms Ipp.Props.C01.opFirst_without_operation_group
#print axioms Ipp.Props.C01.encode_injective
#print axioms Ipp.Props.C01.listing_irrelevant
