import IppModel.Props.C04
#print axioms Ipp.Props.C04.parse_wellformed
#print axioms Ipp.Props.C04.reject_bad_tag
