import IppModel.Props.C10
#print axioms Ipp.Props.C10.op_codes_pin
#print axioms Ipp.Props.C10.names_pin
#print axioms Ipp.Props.C10.calls_fold_to_summary
#print axioms Ipp.Props.C10.build_eq_spec
#print axioms Ipp.Props.C10.new_request_spec
#print axioms Ipp.Props.C10.new_response_spec
