import IppModel.Props.C15
#print axioms Ipp.Props.C15.cost_model_is_the_parser
#print axioms Ipp.Props.C15.linear
