import IppModel.Props.C06
#print axioms Ipp.Props.C06.fragmentation_blocking
#print axioms Ipp.Props.C06.fragmentation_async
#print axioms Ipp.Props.C06.exact_consumption
