import IppModel.Props.C19
#print axioms Ipp.Props.C19.add_into_first
#print axioms Ipp.Props.C19.add_appends_new
#print axioms Ipp.Props.C19.add_lookup
#print axioms Ipp.Props.C19.history_from_empty
#print axioms Ipp.Props.C19.history_tags
#print axioms Ipp.Props.C19.groups_of_order
#print axioms Ipp.Props.C19.traversal
#print axioms Ipp.Props.C19.traversal_ends
#print axioms Ipp.Props.C19.traversal_exhausts
#print axioms Ipp.Props.C19.history_general
