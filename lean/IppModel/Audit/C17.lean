import IppModel.Props.C17
#print axioms Ipp.Props.C17.error_states_pin
#print axioms Ipp.Props.C17.error_states_contains
#print axioms Ipp.Props.C17.names_pin
#print axioms Ipp.Props.C17.ready_iff
#print axioms Ipp.Props.C17.error_iff_not_success
#print axioms Ipp.Props.C17.stopped_not_ready
#print axioms Ipp.Props.C17.blocked_not_ready
#print axioms Ipp.Props.C17.otherwise_ready
