import IppModel.Props.C18
#print axioms Ipp.Props.C18.true_is_boolean
#print axioms Ipp.Props.C18.false_is_boolean
#print axioms Ipp.Props.C18.integer_text
#print axioms Ipp.Props.C18.keyword_text
#print axioms Ipp.Props.C18.classification
#print axioms Ipp.Props.C18.no_check_submits
#print axioms Ipp.Props.C18.not_ready_submits_nothing
#print axioms Ipp.Props.C18.ready_submits
#print axioms Ipp.Props.C18.exit_zero_iff
#print axioms Ipp.Props.C18.print_job_is_a_builder_result
