import IppModel.Props.C08
#print axioms Ipp.Props.C08.stream_is_header_then_payload
#print axioms Ipp.Props.C08.bridges_agree
#print axioms Ipp.Props.C08.empty_payload
