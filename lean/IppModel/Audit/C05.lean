import IppModel.Props.C05
#print axioms Ipp.Props.C05.loops_pin
#print axioms Ipp.Props.C05.async_eq_blocking
#print axioms Ipp.Props.C05.async_eq_blocking_delivered
#print axioms Ipp.Props.C05.interrupted_differs
