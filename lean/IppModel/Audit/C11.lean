import IppModel.Props.C11
#print axioms Ipp.Props.C11.one_post
#print axioms Ipp.Props.C11.body_decodes_to_request
#print axioms Ipp.Props.C11.custom_header_last_wins
#print axioms Ipp.Props.C11.basic_credentials
#print axioms Ipp.Props.C11.basic_header_on_wire
#print axioms Ipp.Props.C11.error_status_is_error
#print axioms Ipp.Props.C11.timeout_is_error
#print axioms Ipp.Props.C11.exact_response
#print axioms Ipp.Props.C11.cut_is_error
#print axioms Ipp.Props.C11.sends_are_independent
