import IppModel.Props.C02
#print axioms Ipp.Props.C02.decode_total
#print axioms Ipp.Props.C02.decode_errors
#print axioms Ipp.Props.C02.parse_total
#print axioms Ipp.Props.C02.parse_sync_total
#print axioms Ipp.Props.C02.parse_async_total
#print axioms Ipp.Props.C02.nest_wf
#print axioms Ipp.Props.C02.nestMsg_wf
#print axioms Ipp.Props.C02.lossy_m
#print axioms Ipp.Props.C02.nest_depth
#print axioms Ipp.Props.C02.depth_unbounded
#print axioms Ipp.Props.C02.nest_size
#print axioms Ipp.Props.C02.depth_linear
#print axioms Ipp.Props.C02.depth_sum_linear
#print axioms Ipp.Props.C02.depth_linear_blocking
#print axioms Ipp.Props.C02.depth_linear_async
