import IppModel.Props.C02
#print axioms Ipp.Props.C02.decode_total
#print axioms Ipp.Props.C02.decode_errors
#print axioms Ipp.Props.C02.parse_total
#print axioms Ipp.Props.C02.parse_sync_total
#print axioms Ipp.Props.C02.parse_async_total
