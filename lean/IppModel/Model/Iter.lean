/-
  `IppValueIterator` (ipp/src/value.rs): traversal of a value.
-/
import IppModel.Model.Value
namespace Ipp

structure IterSt where
  value : Value
  index : Nat
  deriving Repr, Inhabited

/-- `IntoIterator for &IppValue` -/
def Value.iter (v : Value) : IterSt := ⟨v, 0⟩

/-- `Iterator::next` -/
def IterSt.next (s : IterSt) : Option Value × IterSt :=
  match s.value with
  | .array vs =>
    if s.index < vs.length then (vs[s.index]?, { s with index := s.index + 1 }) else (none, s)
  | .coll ms =>
    (match ms[s.index]? with                       -- `map.iter().nth(self.index)`
     | some (_, v) => (some v, { s with index := s.index + 1 })
     | none => (none, s))
  | v => if s.index = 0 then (some v, { s with index := s.index + 1 }) else (none, s)

/-- call `next` until it returns `None`, at most `fuel` times -/
def IterSt.collect : Nat → IterSt → List Value × IterSt
  | 0, s => ([], s)
  | fuel + 1, s =>
    match s.next with
    | (some v, s') => let (vs, s'') := IterSt.collect fuel s'; (v :: vs, s'')
    | (none, s') => ([], s')

def valueSize : Value → Nat
  | .array vs => vs.length
  | .coll ms => ms.length
  | _ => 1

/-- `value.into_iter().collect::<Vec<_>>()` -/
def iterAll (v : Value) : List Value := (IterSt.collect (valueSize v + 1) v.iter).1

end Ipp
