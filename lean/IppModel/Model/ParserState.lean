/-
  `ParserState` (ipp/src/parser.rs): delimiter handling, value handling with the collection stack,
  member grouping when a collection closes.
-/
import IppModel.Model.Codec
import IppModel.Model.Attr
namespace Ipp
open Gen

/-- `list_or_value` -/
def listOrValue : List Value → Value
  | [v] => v
  | vs => .array vs

structure PState where
  currentGroup : Option Group
  lastName : Option Bytes
  /-- `Vec<Vec<IppValue>>`; the head of the list is the top of the stack (the Vec's last element) -/
  context : List (List Value)
  groups : List Group
  deriving Repr, Inhabited

def PState.init : PState := { currentGroup := none, lastName := none, context := [[]], groups := [] }

/-- `ParserState::add_last_attribute` -/
def PState.addLastAttribute (s : PState) : PState :=
  match s.lastName with
  | none => s
  | some n =>
    match s.context with
    | [] => { s with lastName := none, context := [[]] }
    | vl :: rest =>
      { s with lastName := none, context := [] :: rest,
               currentGroup := s.currentGroup.map fun g => { g with attrs := sinsert n (listOrValue vl) g.attrs } }

/-- `ParserState::parse_delimiter` -/
def PState.parseDelimiter (s : PState) (tag : UInt8) : Except Err (PState × DelimiterTag) :=
  match DelimiterTag.fromCode tag.toNat with
  | none => .error (.invalidTag tag)
  | some t =>
    let s1 := s.addLastAttribute
    let gs := match s1.currentGroup with
      | some g => s1.groups ++ [g]
      | none => s1.groups
    .ok ({ s1 with groups := gs, currentGroup := some ⟨t, []⟩ }, t)

/-- pending member while grouping: insert it when it has at least one value -/
def flushMember (m : List (Bytes × Value)) : Option (Bytes × List Value) → List (Bytes × Value)
  | some (k, vals) => if vals.isEmpty then m else sinsert k (listOrValue vals) m
  | none => m

/-- the grouping loop that runs when a collection closes -/
def collectGo : List Value → List (Bytes × Value) → Option (Bytes × List Value) → List (Bytes × Value)
  | [], m, cur => flushMember m cur
  | .str .memberAttrName name :: rest, m, cur => collectGo rest (flushMember m cur) (some (name, []))
  | v :: rest, m, cur =>
    match cur with
    | some (k, vals) => collectGo rest m (some (k, vals ++ [v]))
    | none => collectGo rest m none

def collect (arr : List Value) : List (Bytes × Value) := collectGo arr [] none

def isEmptyOther : Value → Bool
  | .other _ [] => true
  | _ => false

/-- `ParserState::parse_value`; `name` is the already lossily decoded name -/
def PState.parseValue (s : PState) (tag : UInt8) (name : Bytes) (body : Bytes) : Outcome PState :=
  match decodeValue tag body with
  | .err e => .err e
  | .panic => .panic
  | .outOfFuel => .outOfFuel
  | .ok v =>
    let s1 := if name.isEmpty then s else { s.addLastAttribute with lastName := some name }
    if tag = begBracket.u8 then
      if isEmptyOther v then .ok { s1 with context := [] :: s1.context } else .err .invalidCollection
    else if tag = endBracket.u8 then
      if isEmptyOther v then
        match s1.context with
        | arr :: top :: rest => .ok { s1 with context := (top ++ [.coll (collect arr)]) :: rest }
        | [_] => .ok { s1 with context := [] }
        | [] => .ok s1
      else .err .invalidCollection
    else
      match s1.context with
      | top :: rest => .ok { s1 with context := (top ++ [v]) :: rest }
      | [] => .ok s1

end Ipp
