/-
  TLS configuration plumbing of the two clients (ipp/src/client.rs): what each of the four backend blocks
  hands to its TLS library – the accept-invalid flags or the accept-all verifier, and which of the roots
  supplied through the builder effectively reach the trust store, given how each library's decoders treat
  PEM and DER input.  The libraries' certificate verification is a parameter with the stated behaviour.
-/
import IppModel.Model.Basic
namespace Ipp

inductive Backend where | nativeTls | rustls
  deriving DecidableEq, Repr, Inhabited
inductive ClientKind where | blocking | async
  deriving DecidableEq, Repr, Inhabited
/-- the server's certificate -/
inductive CertKind where | valid | wrongName | expired | selfSigned | unknownCa
  deriving DecidableEq, Repr, Inhabited
/-- the extra root handed to `ca_cert` -/
inductive RootArg where
  | none | correctPem | correctDer | unrelated
  /-- `ca_cert` called twice: first a root with the *same subject name* as the correct one but another key
      (a CA key roll-over), then the correct root -/
  | decoyThenCorrect
  /-- the same two roots in the other order -/
  | correctThenDecoy
  deriving DecidableEq, Repr, Inhabited
/-- the calls of `ignore_tls_errors(flag)` made on one builder, in order (none: the setter was never called) -/
abbrev IgnoreArg := List Bool
/-- how the target URI names the server: a DNS name or an IP literal (no block of the client looks at it) -/
inductive HostKind where | dns | ip
  deriving DecidableEq, Repr, Inhabited

/-- certificate authorities in play -/
inductive Ca where | correct | other | unrelatedRoot | self | sameNameDecoy
  deriving DecidableEq, Repr, Inhabited

/-- the builder: the field starts as false and every call of the setter overwrites it -/
def ignoreFlag (calls : IgnoreArg) : Bool := calls.foldl (fun _ flag => flag) false

inductive Enc where | pem | der
  deriving DecidableEq, Repr, Inhabited

/-- what was passed to `ca_cert`, call by call: the CA and the encoding of the bytes -/
def rootData : RootArg → List (Ca × Enc)
  | .none => []
  | .correctPem => [(.correct, .pem)]
  | .correctDer => [(.correct, .der)]
  | .unrelated => [(.unrelatedRoot, .pem)]
  | .decoyThenCorrect => [(.sameNameDecoy, .pem), (.correct, .pem)]
  | .correctThenDecoy => [(.correct, .pem), (.sameNameDecoy, .pem)]

/-- decoders as the libraries implement them -/
def nativeFromPem (e : Enc) : Bool := e = .pem          -- native_tls::Certificate::from_pem fails on DER
def nativeFromDer (e : Enc) : Bool := e = .der          -- …::from_der fails on PEM text
def pkiFromPemSlice (e : Enc) : Bool := e = .pem        -- rustls_pki_types from_pem_slice: no PEM section in DER
/-- reqwest `Certificate::from_pem` validates only when native-tls is compiled in; with rustls alone it
    never fails and later yields *no* certificate for non-PEM input -/
def reqwestFromPemFails (b : Backend) (e : Enc) : Bool := b = .nativeTls && e = .der

/-- does the supplied root reach the trust store?  (`none` = building the client fails ⇒ the send is an error) -/
def rootEffective (c : ClientKind) (b : Backend) (e : Enc) : Option Bool :=
  match c, b with
  | .blocking, .nativeTls =>
    -- `from_pem(data).or_else(|_| from_der(data))?`
    if nativeFromPem e then some true else if nativeFromDer e then some true else Option.none
  | .blocking, .rustls =>
    -- `from_pem_slice(data).unwrap_or_else(|_| from_slice(data))`, then `root_store.add(cert)?`
    if pkiFromPemSlice e then some true else some true
  | .async, _ =>
    -- after the repair: the decoder is chosen by looking for a `-----BEGIN ` marker
    match e with
    | .pem => some true
    | .der => some true

/-- the async block before the repair (F7): `from_pem(data).or_else(|_| from_der(data))` -/
def rootEffectiveAsyncOld (b : Backend) (e : Enc) : Option Bool :=
  if reqwestFromPemFails b e then some true        -- falls back to from_der
  else if e = .pem then some true
  else some false                                   -- rustls: DER bytes taken as an empty PEM bundle

structure TlsParams where
  acceptInvalidCerts : Bool
  acceptInvalidHostnames : Bool
  noVerifier : Bool                -- rustls `dangerous().with_custom_certificate_verifier(NoVerifier)`
  roots : List Ca                  -- extra roots in the trust store (system roots contain none of ours)
  buildFails : Bool
  deriving Repr, Inhabited

/-- what each backend block configures -/
def tlsParams (c : ClientKind) (b : Backend) (ig : IgnoreArg) (root : RootArg) : TlsParams :=
  let flag := ignoreFlag ig
  -- every `ca_cert` call is pushed onto a list and each block installs the whole list, one by one
  let (roots, fails) : List Ca × Bool :=
    (rootData root).foldl (fun (acc : List Ca × Bool) (r : Ca × Enc) =>
      match rootEffective c b r.2 with
      | some true => (acc.1 ++ [r.1], acc.2)
      | some false => acc
      | Option.none => (acc.1, true)) ([], false)
  match c, b with
  | .blocking, .rustls => ⟨false, false, flag, roots, fails⟩
  | _, _ => ⟨flag, flag, false, roots, fails⟩

def issuer : CertKind → Ca
  | .valid | .wrongName | .expired => .correct
  | .unknownCa => .other
  | .selfSigned => .self

/-- assumed behaviour of the TLS libraries' verification -/
def verify (p : TlsParams) (cert : CertKind) : Bool :=
  let trusted := p.roots.contains (issuer cert)
  let certOk := trusted && cert != .expired
  let nameOk := cert != .wrongName
  !p.buildFails && (p.noVerifier || ((p.acceptInvalidCerts || certOk) && (p.acceptInvalidHostnames || nameOk)))

/-- does the exchange go through?  (`_host`: the four backend blocks configure the same thing whether the
    URI's host is a name or an IP literal; the certificate kinds are relative to that host) -/
def accepts (c : ClientKind) (b : Backend) (ig : IgnoreArg) (root : RootArg) (cert : CertKind) (_host : HostKind := .dns) : Bool :=
  verify (tlsParams c b ig root) cert

end Ipp
