/-
  Readers (ipp/src/reader.rs) and the drive loop `parse_header_attributes` (ipp/src/parser.rs).
  The loop is written once over an abstract reader (a `read_exact`) and an abstract machine (what to do
  with a delimiter / a value token); it is instantiated with the tag ranges the translator extracts from
  the blocking and from the async loop separately.
-/
import IppModel.Model.ParserState
namespace Ipp
open Gen

/-- a byte source as seen through `read_exact` -/
structure Reader (ρ : Type) where
  readExact : Nat → ρ → Except IoKind (Bytes × ρ)

/-- what the loop does with tokens -/
structure Machine (σ : Type) where
  delim : σ → UInt8 → Except Err (σ × Nat)        -- new state, numeric code of the delimiter
  value : σ → UInt8 → Bytes → Bytes → Outcome σ   -- tag, raw name bytes, body

variable {ρ σ : Type}

/-- `read_u8` (`read_tag`) -/
def rdU8 (rd : Reader ρ) (r : ρ) : Outcome (UInt8 × ρ) :=
  match rd.readExact 1 r with
  | .error k => .err (.io k)
  | .ok (b :: _, r') => .ok (b, r')
  | .ok ([], _) => .panic

/-- `read_u16` -/
def rdU16 (rd : Reader ρ) (r : ρ) : Outcome (Nat × ρ) :=
  match rd.readExact 2 r with
  | .error k => .err (.io k)
  | .ok (a :: b :: _, r') => .ok (unbe16 a b, r')
  | .ok (_, _) => .panic

/-- `read_u32` -/
def rdU32 (rd : Reader ρ) (r : ρ) : Outcome (UInt32 × ρ) :=
  match rd.readExact 4 r with
  | .error k => .err (.io k)
  | .ok (a :: b :: c :: d :: _, r') => .ok (unbe32 a b c d, r')
  | .ok (_, _) => .panic

/-- `read_name` without the lossy decoding / `read_value`: u16 length then that many bytes -/
def rdLV (rd : Reader ρ) (r : ρ) : Outcome (Bytes × ρ) :=
  match rdU16 rd r with
  | .ok (n, r1) =>
    (match rd.readExact n r1 with
     | .error k => .err (.io k)
     | .ok (bs, r2) => .ok (bs, r2))
  | .err e => .err e
  | .panic => .panic
  | .outOfFuel => .outOfFuel

/-- `read_header` -/
def rdHeader (rd : Reader ρ) (r : ρ) : Outcome (Header × ρ) :=
  match rdU16 rd r with
  | .ok (v, r1) =>
    (match rdU16 rd r1 with
     | .ok (o, r2) =>
       (match rdU32 rd r2 with
        | .ok (i, r3) => .ok (⟨UInt16.ofNat v, UInt16.ofNat o, i⟩, r3)
        | .err e => .err e
        | .panic => .panic
        | .outOfFuel => .outOfFuel)
     | .err e => .err e
     | .panic => .panic
     | .outOfFuel => .outOfFuel)
  | .err e => .err e
  | .panic => .panic
  | .outOfFuel => .outOfFuel

/-- the `loop { match read_tag()? { … } }` of `parse_header_attributes` -/
def driveLoop (rd : Reader ρ) (cfg : LoopCfg) (m : Machine σ) : Nat → ρ → σ → Outcome (σ × ρ)
  | 0, _, _ => .outOfFuel
  | fuel + 1, r, st =>
    match rdU8 rd r with
    | .err e => .err e
    | .panic => .panic
    | .outOfFuel => .outOfFuel
    | .ok (tag, r1) =>
      if cfg.delimLo ≤ tag.toNat ∧ tag.toNat ≤ cfg.delimHi then
        match m.delim st tag with
        | .error e => .err e
        | .ok (st', code) => if code = cfg.endTag then .ok (st', r1) else driveLoop rd cfg m fuel r1 st'
      else if cfg.valueLo ≤ tag.toNat ∧ tag.toNat ≤ cfg.valueHi then
        match rdLV rd r1 with
        | .err e => .err e
        | .panic => .panic
        | .outOfFuel => .outOfFuel
        | .ok (name, r2) =>
          match rdLV rd r2 with
          | .err e => .err e
          | .panic => .panic
          | .outOfFuel => .outOfFuel
          | .ok (body, r3) =>
            match m.value st tag name body with
            | .err e => .err e
            | .panic => .panic
            | .outOfFuel => .outOfFuel
            | .ok st' => driveLoop rd cfg m fuel r3 st'
      else .err (.invalidTag tag)

/-- the parser's machine: `ParserState::parse_delimiter` / `parse_value` (names decoded lossily by `read_name`) -/
def pMachine : Machine PState where
  delim := fun s tag => match s.parseDelimiter tag with
    | .ok (s', t) => .ok (s', t.code)
    | .error e => .error e
  value := fun s tag name body => s.parseValue tag (lossy name) body

/-- `parse_header_attributes` followed by taking `state.attributes`: header, groups, remaining reader -/
def parseWith (rd : Reader ρ) (cfg : LoopCfg) (fuel : Nat) (r : ρ) : Outcome ((Header × List Group) × ρ) :=
  match rdHeader rd r with
  | .err e => .err e
  | .panic => .panic
  | .outOfFuel => .outOfFuel
  | .ok (h, r1) =>
    match driveLoop rd cfg pMachine fuel r1 PState.init with
    | .err e => .err e
    | .panic => .panic
    | .outOfFuel => .outOfFuel
    | .ok (st, r2) => .ok ((h, st.groups), r2)

/-! ### the flat reader: a fully available byte string (`io::Cursor`, a slice) -/

def flatRd : Reader Bytes where
  readExact := fun n bs => if n ≤ bs.length then .ok (bs.take n, bs.drop n) else .error .unexpectedEof

/-- blocking parser on a fully available byte string; fuel `length + 1` is never exhausted (C02) -/
def parseFlat (bs : Bytes) : Outcome ((Header × List Group) × Bytes) :=
  parseWith flatRd syncLoop (bs.length + 1) bs

/-! ### scripted sources: what a `Read` / `AsyncRead` may do between the bytes -/

inductive Ev where
  | data (b : Bytes)
  | pending
  | interrupted
  | fail (k : IoKind)
  deriving Repr, BEq, Inhabited

abbrev Source := List Ev

/-- std `Read::read_exact` (default implementation) over a scripted blocking source:
    `Interrupted` is retried, `Ok(0)` is `UnexpectedEof`, any other error is returned;
    a zero-length request performs no read.  (`pending` has no meaning for a blocking source and is skipped.) -/
def readExactStd : Nat → Source → Except IoKind (Bytes × Source)
  | 0, src => .ok ([], src)
  | _ + 1, [] => .error .unexpectedEof
  | n + 1, .data b :: rest =>
    if b.length ≤ n then
      (if b.isEmpty then readExactStd (n + 1) rest
       else match readExactStd (n + 1 - b.length) rest with
        | .ok (bs, src') => .ok (b ++ bs, src')
        | .error k => .error k)
    else .ok (b.take (n + 1), .data (b.drop (n + 1)) :: rest)
  | n + 1, .pending :: rest => readExactStd (n + 1) rest
  | n + 1, .interrupted :: rest => readExactStd (n + 1) rest
  | _ + 1, .fail k :: _ => .error k

/-- futures-util `ReadExact::poll` over a scripted async source: `Pending` suspends and the task is
    polled again (modelled as: the event is consumed and polling continues), every error – also
    `Interrupted` – is returned, `Ok(0)` is `UnexpectedEof`; a zero-length request performs no poll. -/
def readExactFut : Nat → Source → Except IoKind (Bytes × Source)
  | 0, src => .ok ([], src)
  | _ + 1, [] => .error .unexpectedEof
  | n + 1, .data b :: rest =>
    if b.length ≤ n then
      (if b.isEmpty then readExactFut (n + 1) rest
       else match readExactFut (n + 1 - b.length) rest with
        | .ok (bs, src') => .ok (b ++ bs, src')
        | .error k => .error k)
    else .ok (b.take (n + 1), .data (b.drop (n + 1)) :: rest)
  | n + 1, .pending :: rest => readExactFut (n + 1) rest
  | _ + 1, .interrupted :: _ => .error .interrupted
  | _ + 1, .fail k :: _ => .error k

def stdRd : Reader Source := ⟨readExactStd⟩
def futRd : Reader Source := ⟨readExactFut⟩

/-- total number of data bytes of a script -/
def Source.size : Source → Nat
  | [] => 0
  | .data b :: r => b.length + Source.size r
  | _ :: r => Source.size r

/-- blocking `IppParser` over a scripted source -/
def parseSync (src : Source) : Outcome ((Header × List Group) × Source) :=
  parseWith stdRd syncLoop (Source.size src + 1) src

/-- `AsyncIppParser` over a scripted source -/
def parseAsync (src : Source) : Outcome ((Header × List Group) × Source) :=
  parseWith futRd asyncLoop (Source.size src + 1) src

end Ipp
