/-
  `IppHeader::status_code` (ipp/src/lib.rs) and `StatusCode::is_success` (ipp/src/model.rs), over the
  translated tables.  `FromPrimitive::from_u16` of enum-primitive-derive = "the variant with that discriminant".
-/
import IppModel.Generated.Source
namespace Ipp
open Gen

/-- `StatusCode::from_u16(operation_or_status).unwrap_or(StatusCode::UnknownStatusCode)` -/
def statusOf (c : Nat) : StatusCode := (StatusCode.fromCode c).getD .UnknownStatusCode

/-- `matches!(self, …)` -/
def isSuccess (s : StatusCode) : Bool := successVariants.contains s

end Ipp
