/-
  The decision logic of the two HTTP clients (ipp/src/client.rs): what is put on the wire for a request
  and what `send` returns for a server reply.  reqwest / ureq / hyper / TCP / timeouts are parameters:
  the server is described by what it delivers (status, body bytes, where the connection is cut, how long
  it stalls); de-framing (content-length / chunked / close-delimited) is the HTTP stack's.
-/
import IppModel.Model.Loop
import IppModel.Model.Attr
namespace Ipp

/-! ### RFC 4648 base64 (the `base64` crate's STANDARD engine, with padding) -/

def b64Char (n : Nat) : UInt8 :=
  if n < 26 then UInt8.ofNat (65 + n)
  else if n < 52 then UInt8.ofNat (97 + (n - 26))
  else if n < 62 then UInt8.ofNat (48 + (n - 52))
  else if n = 62 then 43 else 47

def b64Val (c : UInt8) : Option Nat :=
  let n := c.toNat
  if 65 ≤ n ∧ n ≤ 90 then some (n - 65)
  else if 97 ≤ n ∧ n ≤ 122 then some (n - 97 + 26)
  else if 48 ≤ n ∧ n ≤ 57 then some (n - 48 + 52)
  else if n = 43 then some 62
  else if n = 47 then some 63
  else none

def b64Pad : UInt8 := 61   -- '='

def b64Encode : Bytes → Bytes
  | [] => []
  | [a] =>
    let n := a.toNat * 65536
    [b64Char (n / 262144), b64Char (n / 4096 % 64), b64Pad, b64Pad]
  | [a, b] =>
    let n := a.toNat * 65536 + b.toNat * 256
    [b64Char (n / 262144), b64Char (n / 4096 % 64), b64Char (n / 64 % 64), b64Pad]
  | a :: b :: c :: r =>
    let n := a.toNat * 65536 + b.toNat * 256 + c.toNat
    b64Char (n / 262144) :: b64Char (n / 4096 % 64) :: b64Char (n / 64 % 64) :: b64Char (n % 64) :: b64Encode r

def b64Decode : Bytes → Option Bytes
  | [] => some []
  | [w, x, y, z] =>
    (match b64Val w, b64Val x with
     | some a, some b =>
       if y = b64Pad ∧ z = b64Pad then some [UInt8.ofNat ((a * 64 + b) / 16)]
       else match b64Val y with
         | none => none
         | some c =>
           if z = b64Pad then
             let n := a * 4096 + b * 64 + c
             some [UInt8.ofNat (n / 1024), UInt8.ofNat (n / 4 % 256)]
           else match b64Val z with
             | none => none
             | some d =>
               let n := a * 262144 + b * 4096 + c * 64 + d
               some [UInt8.ofNat (n / 65536), UInt8.ofNat (n / 256 % 256), UInt8.ofNat (n % 256)]
     | _, _ => none)
  | w :: x :: y :: z :: r =>
    (match b64Val w, b64Val x, b64Val y, b64Val z, b64Decode r with
     | some a, some b, some c, some d, some rest =>
       let n := a * 262144 + b * 4096 + c * 64 + d
       some (UInt8.ofNat (n / 65536) :: UInt8.ofNat (n / 256 % 256) :: UInt8.ofNat (n % 256) :: rest)
     | _, _, _, _, _ => none)
  | _ => none

/-! ### client configuration and the request on the wire -/

def basicLit : Bytes := [0x42, 0x61, 0x73, 0x69, 0x63, 0x20]                                   -- "Basic "
def authorizationLit : Bytes := [0x61, 0x75, 0x74, 0x68, 0x6f, 0x72, 0x69, 0x7a, 0x61, 0x74, 0x69, 0x6f, 0x6e]  -- "authorization"
def contentTypeLit : Bytes := [0x63, 0x6f, 0x6e, 0x74, 0x65, 0x6e, 0x74, 0x2d, 0x74, 0x79, 0x70, 0x65]          -- "content-type"
def applicationIpp : Bytes := [0x61, 0x70, 0x70, 0x6c, 0x69, 0x63, 0x61, 0x74, 0x69, 0x6f, 0x6e, 0x2f, 0x69, 0x70, 0x70]  -- "application/ipp"
def postLit : Bytes := [0x50, 0x4f, 0x53, 0x54]                                                -- "POST"

/-- builder calls that touch the header map, in call order -/
inductive CfgCall where
  | header (k v : Bytes)              -- `http_header`
  | basicAuth (user pass : Bytes)     -- `basic_auth`
  deriving Repr, Inhabited

/-- `format!("Basic {authz}")` with `authz = STANDARD.encode(format!("{}:{}", user, pass))` -/
def authValue (user pass : Bytes) : Bytes := basicLit ++ b64Encode (user ++ (0x3a :: pass))

/-- the `BTreeMap<String, String>` of headers after the calls -/
def cfgHeaders (calls : List CfgCall) : List (Bytes × Bytes) :=
  calls.foldl (fun m c => match c with
    | .header k v => sinsert k v m
    | .basicAuth u p => sinsert authorizationLit (authValue u p) m) []

structure HttpRequest where
  method : Bytes
  target : Bytes          -- path and query of the mapped URL
  contentType : Bytes
  headers : List (Bytes × Bytes)
  body : Bytes
  deriving Repr, Inhabited

/-- what one `send` puts on the wire: one POST to the mapped URL with content-type application/ipp, every
    configured header, and the body `into_read()` / `into_async_read()` yields (C08: header+attributes then payload) -/
def wireRequest (calls : List CfgCall) (pathAndQuery : Bytes) (h : Header) (L : List Group) (payload : Bytes) : List HttpRequest :=
  [⟨postLit, pathAndQuery, applicationIpp, cfgHeaders calls, encodeMsg h L ++ payload⟩]

/-- what the server does, as far as the client can tell -/
structure ServerReply where
  status : Nat
  body : Bytes                 -- the de-framed body it intends to deliver
  cutAt : Option Nat           -- the connection is cut after this many body bytes
  stallMs : Option Nat         -- it waits this long before answering
  deriving Repr, Inhabited

inductive SendResult where
  | ok (r : Header × List Group) (rest : Bytes)
  | status (code : Nat)        -- `IppError::RequestError(code)` / `ureq::Error::Status(code, _)`
  | other                      -- any other `Err(_)`
  deriving Repr, Inhabited

def timedOut (timeoutMs : Option Nat) (r : ServerReply) : Bool :=
  match timeoutMs, r.stallMs with
  | some t, some s => t < s
  | _, _ => false

/-- bytes that actually arrive -/
def delivered (r : ServerReply) : Bytes :=
  match r.cutAt with
  | some k => r.body.take k
  | none => r.body

/-- `send`: timeout ⇒ error; 4xx/5xx ⇒ status error; otherwise the parse of what arrives -/
def sendResult (timeoutMs : Option Nat) (r : ServerReply) : SendResult :=
  if timedOut timeoutMs r then .other
  else if 400 ≤ r.status then .status r.status
  else match parseFlat (delivered r) with
    | .ok (res, rest) => .ok res rest
    | _ => .other

end Ipp
