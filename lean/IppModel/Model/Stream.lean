/-
  A message read as a byte stream (ipp/src/request.rs `into_read` / `into_async_read`, ipp/src/payload.rs).
  `io::Cursor`, std `io::Chain`, the futures `Chain`, `AllowStdIo` and `futures_executor::block_on` are
  modelled libraries (their logic is transcribed from the sources, see DESIGN Appendix A).
-/
import IppModel.Model.Sources
namespace Ipp

/-- one `read(buf)` call with `buf.len() = n` on a scripted blocking source -/
def srcRead : Nat → Source → Except IoKind Bytes × Source
  | 0, src => (.ok [], src)
  | _ + 1, [] => (.ok [], [])
  | n + 1, .data b :: rest =>
    if b.isEmpty then srcRead (n + 1) rest
    else if b.length ≤ n + 1 then (.ok b, rest)
    else (.ok (b.take (n + 1)), .data (b.drop (n + 1)) :: rest)
  | n + 1, .pending :: rest => srcRead (n + 1) rest
  | _ + 1, .interrupted :: rest => (.error .interrupted, rest)
  | _ + 1, .fail k :: rest => (.error k, rest)

/-- one `poll_read` on a scripted async source: `none` = `Poll::Pending` (the event is consumed) -/
def srcPoll : Nat → Source → Option (Except IoKind Bytes) × Source
  | 0, src => (some (.ok []), src)
  | _ + 1, [] => (some (.ok []), [])
  | n + 1, .data b :: rest =>
    if b.isEmpty then srcPoll (n + 1) rest
    else if b.length ≤ n + 1 then (some (.ok b), rest)
    else (some (.ok (b.take (n + 1))), .data (b.drop (n + 1)) :: rest)
  | _ + 1, .pending :: rest => (none, rest)
  | _ + 1, .interrupted :: rest => (some (.error .interrupted), rest)
  | _ + 1, .fail k :: rest => (some (.error k), rest)

/-- `PayloadKind` -/
inductive Payload where
  | empty
  | sync (src : Source)
  | async (src : Source)
  deriving Repr, Inhabited

/-- `impl Read for IppPayload`: Empty → Ok(0); Sync → inner.read; Async → block_on(inner.read(buf)) which
    polls again after every `Pending` -/
def Payload.read (n : Nat) : Payload → Except IoKind Bytes × Payload
  | .empty => (.ok [], .empty)
  | .sync src => let (r, s) := srcRead n src; (r, .sync s)
  | .async src => let (r, s) := blockOn n src src.length; (r, .async s)
where
  blockOn (n : Nat) (src : Source) : Nat → Except IoKind Bytes × Source
    | 0 => (.ok [], src)
    | fuel + 1 =>
      match srcPoll n src with
      | (some r, s) => (r, s)
      | (none, s) => blockOn n s fuel

/-- `impl AsyncRead for IppPayload`, one poll: Async → inner.poll_read; Sync → AllowStdIo (retries
    `Interrupted`, everything else is Ready); Empty → Ready(Ok(0)) -/
def Payload.poll (n : Nat) : Payload → Option (Except IoKind Bytes) × Payload
  | .empty => (some (.ok []), .empty)
  | .async src => let (r, s) := srcPoll n src; (r, .async s)
  | .sync src => let (r, s) := allowStd n src src.length; (some r, .sync s)
where
  allowStd (n : Nat) (src : Source) : Nat → Except IoKind Bytes × Source
    | 0 => srcRead n src
    | fuel + 1 =>
      match srcRead n src with
      | (.error .interrupted, s) => allowStd n s fuel
      | (r, s) => (r, s)

/-- `Cursor::new(header).chain(payload)` -/
structure Chain where
  first : Bytes          -- unread part of the header-and-attributes bytes
  doneFirst : Bool
  second : Payload
  deriving Repr, Inhabited

/-- std `io::Chain::read` over `io::Cursor` and the payload -/
def Chain.read (n : Nat) (c : Chain) : Except IoKind Bytes × Chain :=
  if !c.doneFirst then
    let got := c.first.take n
    if got.isEmpty && n ≠ 0 then
      let (r, p) := c.second.read n
      (r, { c with doneFirst := true, second := p })
    else (.ok got, { c with first := c.first.drop n })
  else
    let (r, p) := c.second.read n
    (r, { c with second := p })

/-- futures-util `Chain::poll_read`, one poll -/
def Chain.poll (n : Nat) (c : Chain) : Option (Except IoKind Bytes) × Chain :=
  if !c.doneFirst then
    let got := c.first.take n
    if got.isEmpty && n ≠ 0 then
      let (r, p) := c.second.poll n
      (r, { c with doneFirst := true, second := p })
    else (some (.ok got), { c with first := c.first.drop n })
  else
    let (r, p) := c.second.poll n
    (r, { c with second := p })

inductive Consumer where
  | blocking | async
  deriving DecidableEq, Repr, Inhabited

/-- a consumer that reads with buffer sizes `sizes i` (then `dflt` for ever), retries `Interrupted`,
    polls again after `Pending`, and stops at end of stream (`Ok(0)` for a non-empty buffer) or at an error:
    the bytes delivered and how it ended (`none` = end of stream) -/
def drain (cons : Consumer) (dflt : Nat) : Nat → List Nat → Chain → Bytes × Option IoKind
  | 0, _, _ => ([], some .other)          -- fuel exhausted (never, see C08)
  | fuel + 1, sizes, c =>
    let n := sizes.headD dflt
    let r : Option (Except IoKind Bytes) × Chain :=
      match cons with
      | .blocking => let (x, c') := c.read n; (some x, c')
      | .async => c.poll n
    match r with
    | (none, c') => drain cons dflt fuel sizes c'                        -- Pending: polled again, same buffer
    | (some (.error .interrupted), c') => drain cons dflt fuel sizes c'  -- the consumer retries
    | (some (.error k), _) => ([], some k)
    | (some (.ok bs), c') =>
      if bs.isEmpty && n ≠ 0 then ([], none)
      else
        let (more, e) := drain cons dflt fuel sizes.tail c'
        (bs ++ more, e)

def Payload.source : Payload → Source
  | .empty => []
  | .sync s => s
  | .async s => s

/-- enough fuel for `drain`: every step delivers a byte, consumes an event, or consumes a size -/
def drainFuel (hdr : Bytes) (p : Payload) (sizes : List Nat) : Nat :=
  hdr.length + Source.size p.source + 2 * p.source.length + sizes.length + 4

end Ipp
