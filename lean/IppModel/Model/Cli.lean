/-
  `ipputil print` (util/src/main.rs `do_print_job`): control flow from command line and printer behaviour
  to the requests sent and the exit status.  clap, file reading, the HTTP exchange and process exit are
  parameters (observed by the harness with the real binary).
-/
import IppModel.Model.Request
import IppModel.Model.Ready
import IppModel.Model.FromStr
namespace Ipp
open Gen

structure PrintArgs where
  uri : Uri
  noCheckState : Bool
  jobName : Option Bytes
  userName : Option Bytes
  options : List Bytes          -- each `-o` argument as given
  document : Bytes              -- contents of the file or of standard input
  deriving Repr, Inhabited

/-- what the printer answers to one request -/
inductive Answer where
  | httpError                                   -- HTTP 4xx/5xx or a broken connection
  | response (h : Header) (gs : List Group)
  deriving Repr, Inhabited

def cEq : UInt8 := 0x3d   -- '='

/-- `str::split_once('=')` -/
def splitOnce : Bytes → Option (Bytes × Bytes)
  | [] => none
  | x :: r => if x = cEq then some ([], r) else (splitOnce r).map fun (a, b) => (x :: a, b)

/-- `-o key=value` arguments as job attributes: options without '=' are ignored, the value is typed by its text -/
def optionAttrs (opts : List Bytes) : List (Bytes × Value) :=
  opts.filterMap fun o => (splitOnce o).map fun (k, v) => (k, valueFromStr v)

/-- the Print-Job request `do_print_job` builds -/
def cliPrintJob (a : PrintArgs) : Request :=
  buildOp .printJob a.uri 0 a.document
    ((match a.jobName with | some j => [Call.jobTitle j] | none => []) ++
     (match a.userName with | some u => [Call.userName u] | none => []) ++
     (optionAttrs a.options).map fun (k, v) => Call.attribute k v)

/-- the state query -/
def cliGetAttrs (a : PrintArgs) : Request := buildOp .getPrinterAttributes a.uri 0 [] []

/-- requests sent (in order) and exit status; `answers` are the printer's replies in order -/
def cliPrint (a : PrintArgs) (answers : List Answer) : List Request × Nat :=
  let submit (rest : List Answer) (sent : List Request) : List Request × Nat :=
    let sent' := sent ++ [cliPrintJob a]
    match rest with
    | .response h _ :: _ => (sent', if isSuccess (statusOf h.opOrStatus.toNat) then 0 else 1)
    | _ => (sent', 1)
  if a.noCheckState then submit answers []
  else
    match answers with
    | .response h gs :: rest =>
      (match isPrinterReady h gs with
       | .ok true => submit rest [cliGetAttrs a]
       | _ => ([cliGetAttrs a], 1))
    | _ => ([cliGetAttrs a], 1)

end Ipp
