/-
  `util::is_printer_ready` (ipp/src/util.rs).
-/
import IppModel.Model.Iter
import IppModel.Model.Attr
import IppModel.Model.Status
namespace Ipp
open Gen

/-- `as_enum()` (enum-as-inner): the payload iff the value is of the Enum kind -/
def asEnum : Value → Option UInt32
  | .int .enum v => some v
  | _ => none

/-- `as_keyword()` -/
def asKeyword : Value → Option Bytes
  | .str .keyword s => some s
  | _ => none

/-- `PrinterState::from_i32`: negative numbers match no discriminant -/
def printerStateOf (v : UInt32) : Option PrinterState :=
  if v.toNat < 2147483648 then PrinterState.fromCode v.toNat else none

/-- `groups_of(DelimiterTag::PrinterAttributes).next().and_then(|g| g.attributes().get(name))` -/
def printerAttr (name : Bytes) (gs : List Group) : Option Value :=
  match groupsOf .PrinterAttributes gs with
  | g :: _ => sget name g.attrs
  | [] => none

/-- `is_printer_ready`: `Err(StatusError(status))`, or `Ok(ready)` -/
def isPrinterReady (h : Header) (gs : List Group) : Except StatusCode Bool :=
  let status := statusOf h.opOrStatus.toNat
  if !isSuccess status then .error status
  else
    let state := ((printerAttr readyStateAttr gs).bind asEnum).bind printerStateOf
    if state = some readyStoppedState then .ok false
    else
      match printerAttr readyReasonsAttr gs with
      | some reasons =>
        let keywords := (iterAll reasons).filterMap asKeyword
        if keywords.any (fun k => errorStates.contains k) then .ok false else .ok true
      | none => .ok true

end Ipp
