/-
  `impl FromStr for IppValue` (ipp/src/value.rs): how `ipputil` types the text of an option.
  `i32::from_str`: an optional single '+' or '-', at least one ASCII digit, value within i32.
-/
import IppModel.Model.Value
import IppModel.Model.Uri
namespace Ipp

def trueLit : Bytes := [0x74, 0x72, 0x75, 0x65]
def falseLit : Bytes := [0x66, 0x61, 0x6c, 0x73, 0x65]
def cMinus : UInt8 := 0x2d

/-- `str::parse::<i32>()` as the 32-bit pattern of the result -/
def parseI32 (s : Bytes) : Option UInt32 :=
  let (neg, ds) := match s with
    | x :: r => if x = cPlus then (false, r) else if x = cMinus then (true, r) else (false, s)
    | [] => (false, s)
  if ds.isEmpty || !ds.all isDigit then none
  else
    let v := digitsVal ds 0
    if neg then (if v ≤ 2147483648 then some (UInt32.ofNat (4294967296 - v)) else none)
    else (if v ≤ 2147483647 then some (UInt32.ofNat v) else none)

/-- `IppValue::from_str` (infallible) -/
def valueFromStr (s : Bytes) : Value :=
  if s = trueLit then .bool true
  else if s = falseLit then .bool false
  else match parseI32 s with
    | some v => .int .integer v
    | none => .str .keyword s

end Ipp
