/-
  The serde feature (C20): what `#[derive(Serialize, Deserialize)]` produces for the message types, as a
  mapping to and from the JSON data model.  serde's derive conventions are a modelled library:
  structs → objects keyed by field name, newtype structs → the inner value, unit variants → a string,
  newtype/struct variants → a one-entry object keyed by the variant name (externally tagged), maps →
  objects, `Vec` → arrays, `bytes::Bytes` → array of numbers, `char` → a one-character string (kept
  atomic here as `chr`), `#[serde(skip)]` fields absent.
-/
import IppModel.Model.Attr
namespace Ipp
open Gen

inductive Json where
  | num (n : Int)
  | bool (b : Bool)
  | str (s : Bytes)
  | chr (cp : Nat)
  | arr (l : List Json)
  | obj (kvs : List (Bytes × Json))
  deriving Repr, Inhabited

/-- an `i32` field given by its 32-bit pattern -/
def i32ToInt (v : UInt32) : Int := if v.toNat < 2147483648 then (v.toNat : Int) else (v.toNat : Int) - 4294967296
def intToI32 (n : Int) : Option UInt32 :=
  if 0 ≤ n ∧ n < 2147483648 then some (UInt32.ofNat n.toNat)
  else if -2147483648 ≤ n ∧ n < 0 then some (UInt32.ofNat (n + 4294967296).toNat)
  else none
def i8ToInt (v : UInt8) : Int := if v.toNat < 128 then (v.toNat : Int) else (v.toNat : Int) - 256
def intToI8 (n : Int) : Option UInt8 :=
  if 0 ≤ n ∧ n < 128 then some (UInt8.ofNat n.toNat)
  else if -128 ≤ n ∧ n < 0 then some (UInt8.ofNat (n + 256).toNat)
  else none

def strKindName : StrKind → Bytes
  | .octetString => J.OctetString | .textWithoutLanguage => J.TextWithoutLanguage
  | .nameWithoutLanguage => J.NameWithoutLanguage | .charset => J.Charset | .naturalLanguage => J.NaturalLanguage
  | .uri => J.Uri | .uriScheme => J.UriScheme | .keyword => J.Keyword | .mimeMediaType => J.MimeMediaType
  | .memberAttrName => J.MemberAttrName

def tag1 (k : Bytes) (v : Json) : Json := .obj [(k, v)]

def bytesToJson : Bytes → List Json
  | [] => []
  | b :: r => .num b.toNat :: bytesToJson r

mutual
def valueToJson : Value → Json
  | .int .integer v => tag1 J.Integer (.num (i32ToInt v))
  | .int .enum v => tag1 J.Enum (.num (i32ToInt v))
  | .bool b => tag1 J.Boolean (.bool b)
  | .str k s => tag1 (strKindName k) (.str s)
  | .lang .text l t => tag1 J.TextWithLanguage (.obj [(J.language, .str l), (J.text, .str t)])
  | .lang .name l t => tag1 J.NameWithLanguage (.obj [(J.language, .str l), (J.name, .str t)])
  | .range lo hi => tag1 J.RangeOfInteger (.obj [(J.min_, .num (i32ToInt lo)), (J.max_, .num (i32ToInt hi))])
  | .dateTime y mo d h mi s ds dir uh um =>
      tag1 J.DateTime (.obj [(J.year, .num y.toNat), (J.month, .num mo.toNat), (J.day, .num d.toNat), (J.hour, .num h.toNat),
        (J.minutes, .num mi.toNat), (J.seconds, .num s.toNat), (J.deci_seconds, .num ds.toNat), (J.utc_dir, .chr dir),
        (J.utc_hours, .num uh.toNat), (J.utc_mins, .num um.toNat)])
  | .resolution c f u => tag1 J.Resolution (.obj [(J.cross_feed, .num (i32ToInt c)), (J.feed, .num (i32ToInt f)), (J.units, .num (i8ToInt u))])
  | .noValue => .str J.NoValue
  | .other t d => tag1 J.Other (.obj [(J.tag, .num t.toNat), (J.data, .arr (bytesToJson d))])
  | .array vs => tag1 J.Array (.arr (valuesToJson vs))
  | .coll ms => tag1 J.Collection (.obj (membersToJson ms))
def valuesToJson : List Value → List Json
  | [] => []
  | v :: vs => valueToJson v :: valuesToJson vs
def membersToJson : List (Bytes × Value) → List (Bytes × Json)
  | [] => []
  | (k, v) :: ms => (k, valueToJson v) :: membersToJson ms
end

def attrsToJson : List (Bytes × Value) → List (Bytes × Json)
  | [] => []
  | (n, v) :: r => (n, .obj [(J.name, .str n), (J.value, valueToJson v)]) :: attrsToJson r

def groupToJson (g : Group) : Json :=
  .obj [(J.tag, .str g.tag.ident), (J.attributes, .obj (attrsToJson g.attrs))]

def groupsToJson : List Group → List Json
  | [] => []
  | g :: gs => groupToJson g :: groupsToJson gs

/-- `serde_json::to_value(&request)`: header and attributes; the payload is skipped -/
def msgToJson (h : Header) (gs : List Group) : Json :=
  .obj [(J.header, .obj [(J.version, .num h.version.toNat), (J.operation_or_status, .num h.opOrStatus.toNat),
                         (J.request_id, .num h.requestId.toNat)]),
        (J.attributes, .obj [(J.groups, .arr (groupsToJson gs))])]

/-! ### deserialisation -/

def jget (k : Bytes) : List (Bytes × Json) → Option Json
  | [] => none
  | (k', v) :: r => if k = k' then some v else jget k r

def jnat (bound : Nat) : Json → Option Nat
  | .num n => if 0 ≤ n ∧ n.toNat < bound then some n.toNat else none
  | _ => none

def jstr : Json → Option Bytes
  | .str s => some s
  | _ => none

def strKindOfName (n : Bytes) : Option StrKind :=
  [StrKind.octetString, .textWithoutLanguage, .nameWithoutLanguage, .charset, .naturalLanguage, .uri, .uriScheme,
   .keyword, .mimeMediaType, .memberAttrName].find? fun k => strKindName k == n

def jsonToBytes : List Json → Option Bytes
  | [] => some []
  | j :: r => match jnat 256 j, jsonToBytes r with
    | some b, some bs => some (UInt8.ofNat b :: bs)
    | _, _ => none

mutual
def jsonToValue : Json → Option Value
  | .str s => if s = J.NoValue then some .noValue else none
  | .obj [(k, j)] =>
    if k = J.Integer then (match j with | .num n => (intToI32 n).map (.int .integer) | _ => none)
    else if k = J.Enum then (match j with | .num n => (intToI32 n).map (.int .enum) | _ => none)
    else if k = J.Boolean then (match j with | .bool b => some (.bool b) | _ => none)
    else if k = J.TextWithLanguage then
      (match j with
       | .obj kv => (match (jget J.language kv).bind jstr, (jget J.text kv).bind jstr with
                     | some l, some t => some (.lang .text l t) | _, _ => none)
       | _ => none)
    else if k = J.NameWithLanguage then
      (match j with
       | .obj kv => (match (jget J.language kv).bind jstr, (jget J.name kv).bind jstr with
                     | some l, some t => some (.lang .name l t) | _, _ => none)
       | _ => none)
    else if k = J.RangeOfInteger then
      (match j with
       | .obj kv => (match jget J.min_ kv, jget J.max_ kv with
                     | some (.num a), some (.num b) => (match intToI32 a, intToI32 b with
                        | some lo, some hi => some (.range lo hi) | _, _ => none)
                     | _, _ => none)
       | _ => none)
    else if k = J.DateTime then
      (match j with
       | .obj kv =>
         (match (jget J.year kv).bind (jnat 65536), (jget J.month kv).bind (jnat 256), (jget J.day kv).bind (jnat 256),
                (jget J.hour kv).bind (jnat 256), (jget J.minutes kv).bind (jnat 256), (jget J.seconds kv).bind (jnat 256),
                (jget J.deci_seconds kv).bind (jnat 256), jget J.utc_dir kv, (jget J.utc_hours kv).bind (jnat 256),
                (jget J.utc_mins kv).bind (jnat 256) with
          | some y, some mo, some d, some h, some mi, some s, some ds, some (.chr dir), some uh, some um =>
            some (.dateTime (UInt16.ofNat y) (UInt8.ofNat mo) (UInt8.ofNat d) (UInt8.ofNat h) (UInt8.ofNat mi) (UInt8.ofNat s)
                  (UInt8.ofNat ds) dir (UInt8.ofNat uh) (UInt8.ofNat um))
          | _, _, _, _, _, _, _, _, _, _ => none)
       | _ => none)
    else if k = J.Resolution then
      (match j with
       | .obj kv => (match jget J.cross_feed kv, jget J.feed kv, jget J.units kv with
                     | some (.num a), some (.num b), some (.num u) => (match intToI32 a, intToI32 b, intToI8 u with
                        | some c, some f, some u => some (.resolution c f u) | _, _, _ => none)
                     | _, _, _ => none)
       | _ => none)
    else if k = J.Other then
      (match j with
       | .obj kv => (match (jget J.tag kv).bind (jnat 256), jget J.data kv with
                     | some t, some (.arr bs) => (jsonToBytes bs).map (.other (UInt8.ofNat t))
                     | _, _ => none)
       | _ => none)
    else if k = J.Array then (match j with | .arr l => (jsonToValues l).map .array | _ => none)
    else if k = J.Collection then (match j with | .obj kv => (jsonToMembers kv).map (fun ms => .coll (sinsertAll ms [])) | _ => none)
    else match strKindOfName k, j with
      | some sk, .str s => some (.str sk s)
      | _, _ => none
  | _ => none
def jsonToValues : List Json → Option (List Value)
  | [] => some []
  | j :: r => match jsonToValue j, jsonToValues r with
    | some v, some vs => some (v :: vs)
    | _, _ => none
/-- the entries of a JSON object as (key, value) pairs in document order (the caller inserts them into the `BTreeMap`) -/
def jsonToMembers : List (Bytes × Json) → Option (List (Bytes × Value))
  | [] => some []
  | (k, j) :: r => match jsonToValue j, jsonToMembers r with
    | some v, some ms => some ((k, v) :: ms)
    | _, _ => none
end

/-- `HashMap<String, IppAttribute>` deserialisation: key ↦ attribute (whose stored name is its own field) -/
def jsonToAttrs : List (Bytes × Json) → Option (List (Bytes × (Bytes × Value)))
  | [] => some []
  | (k, .obj kv) :: r =>
    (match (jget J.name kv).bind jstr, (jget J.value kv).bind jsonToValue, jsonToAttrs r with
     | some n, some v, some as => some ((k, (n, v)) :: as)
     | _, _, _ => none)
  | _ :: _ => none

def jsonToGroup : Json → Option Group
  | .obj kv =>
    (match (jget J.tag kv).bind jstr, jget J.attributes kv with
     | some t, some (.obj as) =>
       (match DelimiterTag.all.find? (fun d => d.ident == t), jsonToAttrs as with
        | some tag, some attrs =>
          -- the map is rebuilt by insertion under the object's keys; the model keeps (key ↦ value) and
          -- requires key = stored name (the modelling assumption of Model/Attr.lean)
          if attrs.all (fun p => p.1 == p.2.1) then some ⟨tag, sinsertAll (attrs.map fun p => (p.1, p.2.2)) []⟩ else none
        | _, _ => none)
     | _, _ => none)
  | _ => none

def jsonToGroups : List Json → Option (List Group)
  | [] => some []
  | j :: r => match jsonToGroup j, jsonToGroups r with
    | some g, some gs => some (g :: gs)
    | _, _ => none

/-- `serde_json::from_value::<IppRequestResponse>` (the payload defaults to empty) -/
def jsonToMsg : Json → Option (Header × List Group)
  | .obj kv =>
    (match jget J.header kv, jget J.attributes kv with
     | some (.obj hk), some (.obj ak) =>
       (match (jget J.version hk).bind (jnat 65536), (jget J.operation_or_status hk).bind (jnat 65536),
              (jget J.request_id hk).bind (jnat 4294967296), jget J.groups ak with
        | some v, some o, some i, some (.arr gs) =>
          (jsonToGroups gs).map fun g => (⟨UInt16.ofNat v, UInt16.ofNat o, UInt32.ofNat i⟩, g)
        | _, _, _, _ => none)
     | _, _ => none)
  | _ => none

end Ipp
