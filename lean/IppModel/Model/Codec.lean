/-
  `IppValue::parse` (ipp/src/value.rs): per-tag decoding of a value body.
  `bytes::Buf::get_*`, slicing and `advance` panic when the buffer is short; those panics are explicit
  `Outcome.panic` results here, and `checkLen` is the guard the implementation places before them.
-/
import IppModel.Model.Value
namespace Ipp
open Gen

def getU8 : Bytes → Outcome (UInt8 × Bytes)
  | b :: r => .ok (b, r)
  | [] => .panic

def getU16 : Bytes → Outcome (Nat × Bytes)
  | a :: b :: r => .ok (unbe16 a b, r)
  | _ => .panic

def getU32 : Bytes → Outcome (UInt32 × Bytes)
  | a :: b :: c :: d :: r => .ok (unbe32 a b c d, r)
  | _ => .panic

/-- `&data[0..len]` followed by `data.advance(len)` -/
def sliceAdvance (len : Nat) (d : Bytes) : Outcome (Bytes × Bytes) :=
  if len ≤ d.length then .ok (d.take len, d.drop len) else .panic

/-- `check_len`: the guard added by the length fix -/
def checkLen (d : Bytes) (n : Nat) : Outcome Unit :=
  if d.length < n then .err (.io .invalidData) else .ok ()

/-- `get_len_string` -/
def getLenString (d : Bytes) : Outcome (Bytes × Bytes) :=
  (checkLen d 2).bind fun _ =>
  (getU16 d).bind fun (len, d1) =>
  (checkLen d1 len).bind fun _ =>
  (sliceAdvance len d1).bind fun (s, d2) =>
  .ok (lossy s, d2)

def decodeLang (k : LangKind) (d : Bytes) : Outcome Value :=
  (getLenString d).bind fun (l, d1) =>
  (getLenString d1).bind fun (t, _) =>
  .ok (.lang k l t)

def decodeDateTime (d : Bytes) : Outcome Value :=
  (getU16 d).bind fun (y, d) =>
  (getU8 d).bind fun (mo, d) =>
  (getU8 d).bind fun (dd, d) =>
  (getU8 d).bind fun (h, d) =>
  (getU8 d).bind fun (mi, d) =>
  (getU8 d).bind fun (s, d) =>
  (getU8 d).bind fun (ds, d) =>
  (getU8 d).bind fun (dir, d) =>
  (getU8 d).bind fun (uh, d) =>
  (getU8 d).bind fun (um, _) =>
  .ok (.dateTime (UInt16.ofNat y) mo dd h mi s ds dir.toNat uh um)

/-- the first `match ipp_tag` of `IppValue::parse`: minimum body length per syntax -/
def minLen : ValueTag → Nat
  | .Integer | .Enum => 4
  | .RangeOfInteger => 8
  | .Boolean => 1
  | .DateTime => 11
  | .Resolution => 9
  | _ => 0

/-- the second `match ipp_tag` of `IppValue::parse` -/
def decodeKnown (t : ValueTag) (tag : UInt8) (d : Bytes) : Outcome Value :=
  match t with
  | .Integer => (getU32 d).bind fun (v, _) => .ok (.int .integer v)
  | .Enum => (getU32 d).bind fun (v, _) => .ok (.int .enum v)
  | .OctetStringUnspecified => .ok (.str .octetString (lossy d))
  | .TextWithoutLanguage => .ok (.str .textWithoutLanguage (lossy d))
  | .NameWithoutLanguage => .ok (.str .nameWithoutLanguage (lossy d))
  | .TextWithLanguage => decodeLang .text d
  | .NameWithLanguage => decodeLang .name d
  | .Charset => .ok (.str .charset (lossy d))
  | .NaturalLanguage => .ok (.str .naturalLanguage (lossy d))
  | .Uri => .ok (.str .uri (lossy d))
  | .UriScheme => .ok (.str .uriScheme (lossy d))
  | .RangeOfInteger => (getU32 d).bind fun (lo, d1) => (getU32 d1).bind fun (hi, _) => .ok (.range lo hi)
  | .Boolean => (getU8 d).bind fun (b, _) => .ok (.bool (b != 0))
  | .Keyword => .ok (.str .keyword (lossy d))
  | .MimeMediaType => .ok (.str .mimeMediaType (lossy d))
  | .DateTime => decodeDateTime d
  | .MemberAttrName => .ok (.str .memberAttrName (lossy d))
  | .Resolution =>
      (getU32 d).bind fun (c, d1) => (getU32 d1).bind fun (f, d2) => (getU8 d2).bind fun (u, _) =>
      .ok (.resolution c f u)
  | .NoValue => .ok .noValue
  | _ => .ok (.other tag d)

/-- `IppValue::parse(value_tag, data)` -/
def decodeValue (tag : UInt8) (d : Bytes) : Outcome Value :=
  match ValueTag.fromCode tag.toNat with
  | none => .ok (.other tag d)
  | some t => (checkLen d (minLen t)).bind fun _ => decodeKnown t tag d

end Ipp
