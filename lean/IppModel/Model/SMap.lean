/-
  Sorted association list on byte-string keys: the model of `BTreeMap<String, _>` (iteration order is
  the byte-lexicographic order of `str`) and the canonical representative of `HashMap<String, _>`.
-/
import IppModel.Model.Basic
namespace Ipp

/-- byte-lexicographic strict order (`str`'s `Ord`) -/
def blt : Bytes → Bytes → Bool
  | [], [] => false
  | [], _ :: _ => true
  | _ :: _, [] => false
  | a :: as, b :: bs => a < b || (a == b && blt as bs)

variable {α : Type}

/-- `BTreeMap::insert` / `HashMap::insert`: replace or place in order -/
def sinsert (k : Bytes) (v : α) : List (Bytes × α) → List (Bytes × α)
  | [] => [(k, v)]
  | (k', v') :: r =>
    if blt k k' then (k, v) :: (k', v') :: r
    else if k = k' then (k, v) :: r
    else (k', v') :: sinsert k v r

def sget (k : Bytes) : List (Bytes × α) → Option α
  | [] => none
  | (k', v') :: r => if k = k' then some v' else sget k r

def sortedB : List (Bytes × α) → Bool
  | [] => true
  | [_] => true
  | (a, _) :: (b, vb) :: r => blt a b && sortedB ((b, vb) :: r)

/-- insert all pairs of a list, in list order, into a map -/
def sinsertAll (l : List (Bytes × α)) (m : List (Bytes × α)) : List (Bytes × α) :=
  l.foldl (fun acc p => sinsert p.1 p.2 acc) m

end Ipp
