/-
  `String::from_utf8_lossy` (core::str::lossy::Utf8Chunks) and UTF-8 validity (Unicode Table 3-7).
  A Rust `String` is modelled as a byte list satisfying `validUtf8`.
-/
import IppModel.Model.Basic
namespace Ipp

def isCont (b : UInt8) : Bool := 0x80 ≤ b && b ≤ 0xBF
/-- second-byte range for a 3-byte lead -/
def ok3 (b0 b1 : UInt8) : Bool :=
  (b0 == 0xE0 && 0xA0 ≤ b1 && b1 ≤ 0xBF) || (0xE1 ≤ b0 && b0 ≤ 0xEC && isCont b1) ||
  (b0 == 0xED && 0x80 ≤ b1 && b1 ≤ 0x9F) || (0xEE ≤ b0 && b0 ≤ 0xEF && isCont b1)
/-- second-byte range for a 4-byte lead -/
def ok4 (b0 b1 : UInt8) : Bool :=
  (b0 == 0xF0 && 0x90 ≤ b1 && b1 ≤ 0xBF) || (0xF1 ≤ b0 && b0 ≤ 0xF3 && isCont b1) ||
  (b0 == 0xF4 && 0x80 ≤ b1 && b1 ≤ 0x8F)

/-- U+FFFD REPLACEMENT CHARACTER -/
def fffd : Bytes := [0xEF, 0xBF, 0xBD]

/-- classification of the sequence at the head: (bytes consumed, is a valid scalar?);
    an invalid one is the *maximal invalid subpart* the std library replaces by one U+FFFD -/
def classify : Bytes → Nat × Bool
  | [] => (0, true)
  | b0 :: r =>
    if b0 < 0x80 then (1, true)
    else if 0xC2 ≤ b0 && b0 ≤ 0xDF then
      match r with
      | b1 :: _ => if isCont b1 then (2, true) else (1, false)
      | [] => (1, false)
    else if 0xE0 ≤ b0 && b0 ≤ 0xEF then
      match r with
      | b1 :: r1 =>
        if ok3 b0 b1 then
          match r1 with
          | b2 :: _ => if isCont b2 then (3, true) else (2, false)
          | [] => (2, false)
        else (1, false)
      | [] => (1, false)
    else if 0xF0 ≤ b0 && b0 ≤ 0xF4 then
      match r with
      | b1 :: r1 =>
        if ok4 b0 b1 then
          match r1 with
          | b2 :: r2 =>
            if isCont b2 then
              match r2 with
              | b3 :: _ => if isCont b3 then (4, true) else (3, false)
              | [] => (3, false)
            else (2, false)
          | [] => (2, false)
        else (1, false)
      | [] => (1, false)
    else (1, false)

def lossyF : Nat → Bytes → Bytes
  | 0, _ => []
  | _, [] => []
  | fuel + 1, b :: r =>
    let c := classify (b :: r)
    if c.2 then (b :: r).take c.1 ++ lossyF fuel ((b :: r).drop c.1)
    else fffd ++ lossyF fuel ((b :: r).drop c.1)

/-- `String::from_utf8_lossy(bs).into_owned()` as bytes -/
def lossy (bs : Bytes) : Bytes := lossyF bs.length bs

def validF : Nat → Bytes → Bool
  | 0, bs => bs.isEmpty
  | _, [] => true
  | fuel + 1, b :: r =>
    let c := classify (b :: r)
    c.2 && validF fuel ((b :: r).drop c.1)

def validUtf8 (bs : Bytes) : Bool := validF bs.length bs

end Ipp
