/-
  `IppRequestResponse::new`, `new_response` (ipp/src/request.rs), the ten operations
  (ipp/src/operation.rs, operation/cups.rs) and their builders (operation/builder.rs), as functions
  from constructor arguments and builder call sequences to messages.
  The payload is carried through as an opaque byte string (the model of "whatever the reader yields").
-/
import IppModel.Model.Attr
import IppModel.Model.Uri
namespace Ipp
open Gen

def utf8Lit : Bytes := [0x75, 0x74, 0x66, 0x2d, 0x38]   -- "utf-8"
def enLit : Bytes := [0x65, 0x6e]                        -- "en"

structure Request where
  header : Header
  groups : List Group
  payload : Bytes
  deriving Repr, Inhabited

def v11 : UInt16 := 0x0101

/-- `IppRequestResponse::new(version, operation, uri)` -/
def newRequest (version : UInt16) (op : Operation) (uri : Option Uri) : Request :=
  let g0 : List Group := []
  let g1 := addAttr .OperationAttributes A.ATTRIBUTES_CHARSET (.str .charset utf8Lit) g0
  let g2 := addAttr .OperationAttributes A.ATTRIBUTES_NATURAL_LANGUAGE (.str .naturalLanguage enLit) g1
  let g3 := match uri with
    | some u => addAttr .OperationAttributes A.PRINTER_URI (.str .uri (renderUri (canonUri u))) g2
    | none => g2
  { header := ⟨version, UInt16.ofNat op.code, UInt32.ofNat newRequestId⟩, groups := g3, payload := [] }

/-- `IppRequestResponse::new_response(version, status, id)` -/
def newResponse (version : UInt16) (status : StatusCode) (id : UInt32) : Request :=
  let g1 := addAttr .OperationAttributes A.ATTRIBUTES_CHARSET (.str .charset utf8Lit) []
  let g2 := addAttr .OperationAttributes A.ATTRIBUTES_NATURAL_LANGUAGE (.str .naturalLanguage enLit) g1
  { header := ⟨version, UInt16.ofNat status.code, id⟩, groups := g2, payload := [] }

def Request.add (r : Request) (t : DelimiterTag) (n : Bytes) (v : Value) : Request :=
  { r with groups := addAttr t n v r.groups }

/-- `with_user_name` -/
def withUserName (user : Option Bytes) (r : Request) : Request :=
  match user with
  | some u => r.add .OperationAttributes A.REQUESTING_USER_NAME (.str .nameWithoutLanguage u)
  | none => r

def addJobAttrs (attrs : List (Bytes × Value)) (r : Request) : Request :=
  attrs.foldl (fun r a => r.add .JobAttributes a.1 a.2) r

/-- the ten operations: `into_ipp_request` -/
def printJob (uri : Uri) (payload : Bytes) (user jobName : Option Bytes) (attrs : List (Bytes × Value)) : Request :=
  let r := newRequest v11 .PrintJob (some uri)
  let r := withUserName user r
  let r := match jobName with
    | some j => r.add .OperationAttributes A.JOB_NAME (.str .nameWithoutLanguage j)
    | none => r
  let r := addJobAttrs attrs r
  { r with payload := payload }

def getPrinterAttributes (uri : Uri) (attrs : List Bytes) : Request :=
  let r := newRequest v11 .GetPrinterAttributes (some uri)
  if attrs.isEmpty then r
  else r.add .OperationAttributes A.REQUESTED_ATTRIBUTES (.array (attrs.map (.str .keyword)))

def createJob (uri : Uri) (jobName : Option Bytes) (attrs : List (Bytes × Value)) : Request :=
  let r := newRequest v11 .CreateJob (some uri)
  let r := match jobName with
    | some j => r.add .OperationAttributes A.JOB_NAME (.str .nameWithoutLanguage j)
    | none => r
  addJobAttrs attrs r

def sendDocument (uri : Uri) (jobId : UInt32) (payload : Bytes) (user : Option Bytes) (last : Bool) : Request :=
  let r := newRequest v11 .SendDocument (some uri)
  let r := r.add .OperationAttributes A.JOB_ID (.int .integer jobId)
  let r := r.add .OperationAttributes A.LAST_DOCUMENT (.bool last)
  let r := withUserName user r
  { r with payload := payload }

def purgeJobs (uri : Uri) (user : Option Bytes) : Request :=
  withUserName user (newRequest v11 .PurgeJobs (some uri))

def cancelJob (uri : Uri) (jobId : UInt32) (user : Option Bytes) : Request :=
  withUserName user ((newRequest v11 .CancelJob (some uri)).add .OperationAttributes A.JOB_ID (.int .integer jobId))

def getJobAttributes (uri : Uri) (jobId : UInt32) (user : Option Bytes) : Request :=
  withUserName user ((newRequest v11 .GetJobAttributes (some uri)).add .OperationAttributes A.JOB_ID (.int .integer jobId))

def getJobs (uri : Uri) (user : Option Bytes) : Request :=
  withUserName user (newRequest v11 .GetJobs (some uri))

def cupsGetPrinters : Request := newRequest v11 .CupsGetPrinters none

def cupsDeletePrinter (uri : Uri) : Request := newRequest v11 .CupsDeletePrinter (some uri)

/-! ### builders: a call sequence folds into the builder's fields; `build()` hands them to the operation -/

inductive Call where
  | userName (s : Bytes)
  | jobTitle (s : Bytes)            -- PrintJobBuilder::job_title / CreateJobBuilder::job_name
  | attribute (n : Bytes) (v : Value)
  | attributes (as : List (Bytes × Value))
  | last (b : Bool)
  | reqAttr (s : Bytes)             -- GetPrinterAttributesBuilder::attribute
  | reqAttrs (ss : List Bytes)      -- GetPrinterAttributesBuilder::attributes
  deriving Repr, Inhabited

structure BState where
  user : Option Bytes := none
  title : Option Bytes := none
  attrs : List (Bytes × Value) := []
  isLast : Bool := true
  requested : List Bytes := []
  deriving Repr, Inhabited

/-- one builder method call; methods a builder does not have are not expressible in the harness and
    leave the state unchanged here -/
def BState.step (b : BState) : Call → BState
  | .userName s => { b with user := some s }
  | .jobTitle s => { b with title := some s }
  | .attribute n v => { b with attrs := b.attrs ++ [(n, v)] }
  | .attributes as => { b with attrs := b.attrs ++ as }
  | .last l => { b with isLast := l }
  | .reqAttr s => { b with requested := b.requested ++ [s] }
  | .reqAttrs ss => { b with requested := b.requested ++ ss }

def BState.run (calls : List Call) : BState := calls.foldl BState.step {}

inductive OpKind where
  | printJob | getPrinterAttributes | createJob | sendDocument | purgeJobs | cancelJob
  | getJobAttributes | getJobs | cupsGetPrinters | cupsDeletePrinter
  deriving DecidableEq, Repr, Inhabited

/-- `IppOperationBuilder::<op>(…)…build().into_ipp_request()` -/
def buildOp (k : OpKind) (uri : Uri) (jobId : UInt32) (payload : Bytes) (calls : List Call) : Request :=
  let b := BState.run calls
  match k with
  | .printJob => printJob uri payload b.user b.title b.attrs
  | .getPrinterAttributes => getPrinterAttributes uri b.requested
  | .createJob => createJob uri b.title b.attrs
  | .sendDocument => sendDocument uri jobId payload b.user b.isLast
  | .purgeJobs => purgeJobs uri b.user
  | .cancelJob => cancelJob uri jobId b.user
  | .getJobAttributes => getJobAttributes uri jobId b.user
  | .getJobs => getJobs uri b.user
  | .cupsGetPrinters => cupsGetPrinters
  | .cupsDeletePrinter => cupsDeletePrinter uri

end Ipp
