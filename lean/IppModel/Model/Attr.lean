/-
  Attributes, groups, messages (ipp/src/attribute.rs, ipp/src/lib.rs): `IppAttributes::add`, `groups_of`,
  `IppHeader::to_bytes`, `IppAttributes::to_bytes`, `IppRequestResponse::to_bytes`.

  A group's `HashMap<String, IppAttribute>` is a list of (name, value) pairs.  Modelling assumption: the
  map key equals the name stored in the attribute (maintained by `add`, the constructors, the builders and
  the parser).  Two readings of the list are used:
    * canonical: kept sorted by `sinsert` (what `add` and the parser build) – order is not observable;
    * listing:   the order in which this map instance iterates – what the encoder walks.  The encoder
                 theorems quantify over every listing that is a permutation of the canonical list.
-/
import IppModel.Model.Value
namespace Ipp
open Gen

structure Header where
  version : UInt16
  opOrStatus : UInt16
  requestId : UInt32
  deriving DecidableEq, Repr, Inhabited

structure Group where
  tag : DelimiterTag
  attrs : List (Bytes × Value)
  deriving Repr, BEq, Inhabited

/-- `IppHeader::to_bytes` -/
def encHeader (h : Header) : Bytes :=
  be16 h.version.toNat ++ (be16 h.opOrStatus.toNat ++ be32 h.requestId)

/-- `IppAttributes::add` -/
def addAttr (tag : DelimiterTag) (name : Bytes) (v : Value) : List Group → List Group
  | [] => [⟨tag, sinsert name v []⟩]
  | g :: gs =>
    if g.tag = tag then { g with attrs := sinsert name v g.attrs } :: gs
    else g :: addAttr tag name v gs

/-- `IppAttributes::groups_of` -/
def groupsOf (tag : DelimiterTag) (gs : List Group) : List Group := gs.filter (fun g => g.tag = tag)

/-- `is_header_attr` -/
def isHeaderAttr (n : Bytes) : Bool := headerAttrs.any (fun h => h == n)

/-- all attributes of a listing, in listing order -/
def encAttrs : List (Bytes × Value) → Bytes
  | [] => []
  | (n, v) :: r => encAttr n v ++ encAttrs r

/-- the header attributes that are present, in `HEADER_ATTRS` order (`group.attributes().get(*hdr)`) -/
def encHeaderAttrs (attrs : List (Bytes × Value)) : List Bytes → Bytes
  | [] => []
  | h :: hs => (match sget h attrs with
                | some v => encAttr h v
                | none => []) ++ encHeaderAttrs attrs hs

/-- the other operation attributes, in listing order -/
def encNonHeaderAttrs : List (Bytes × Value) → Bytes
  | [] => []
  | (n, v) :: r => (if isHeaderAttr n then [] else encAttr n v) ++ encNonHeaderAttrs r

def isOpGroup (g : Group) : Bool := g.tag = DelimiterTag.OperationAttributes

/-- first operation-attributes group (`groups_of(OperationAttributes).next()`) -/
def firstOp : List Group → Option Group
  | [] => none
  | g :: gs => if isOpGroup g then some g else firstOp gs

/-- every group except the first operation-attributes group, in order -/
def restGroups : List Group → List Group
  | [] => []
  | g :: gs => if isOpGroup g then gs else g :: restGroups gs

def encGroup (g : Group) : Bytes := g.tag.u8 :: encAttrs g.attrs

def encGroups : List Group → Bytes
  | [] => []
  | g :: gs => encGroup g ++ encGroups gs

/-- `IppAttributes::to_bytes` on a message whose groups carry their listings -/
def encAttributes (gs : List Group) : Bytes :=
  DelimiterTag.OperationAttributes.u8 ::
    ((match firstOp gs with
      | some g => encHeaderAttrs g.attrs headerAttrs ++ encNonHeaderAttrs g.attrs
      | none => []) ++
     (encGroups (restGroups gs) ++ [DelimiterTag.EndOfAttributes.u8]))

/-- `IppRequestResponse::to_bytes` -/
def encodeMsg (h : Header) (gs : List Group) : Bytes := encHeader h ++ encAttributes gs

/-- canonical form of a group: its listing re-inserted into an empty map -/
def Group.canon (g : Group) : Group := { g with attrs := sinsertAll g.attrs [] }

end Ipp
