/-
  `util::canonicalize_uri` (ipp/src/util.rs) and `client::ipp_uri_to_string` (ipp/src/client.rs).

  An `http::Uri` is modelled by the components its accessors report: scheme, the *raw* authority text,
  `path()`, `query()`.  `Authority::host` / `Authority::port_u16` are transcribed from the `http` crate
  (text after the last '@'; a bracketed literal up to the first ']', else up to the first ':'; the port is
  what `u16::from_str` makes of the text after the last ':').  How a string is split into components, and
  the re-validation done by `Uri::builder()`, are the `http` crate's (modelled library, validated by the
  correspondence run).
-/
import IppModel.Generated.Source
namespace Ipp
open Gen

structure Uri where
  scheme : Option Bytes
  authority : Option Bytes
  /-- what `path()` reports ("/" for an absolute URI written without a path) -/
  path : Bytes
  query : Option Bytes
  /-- `path_and_query().map(|p| p.as_str())`: the stored text (`/` only when it is completely empty) -/
  pq : Option Bytes := none
  deriving DecidableEq, Repr, Inhabited

def cAt : UInt8 := 0x40      -- '@'
def cColon : UInt8 := 0x3a   -- ':'
def cLBr : UInt8 := 0x5b     -- '['
def cRBr : UInt8 := 0x5d     -- ']'
def cPlus : UInt8 := 0x2b    -- '+'

/-- text after the last occurrence of `c` (the whole text when `c` does not occur): `rsplit(c).next()` -/
def afterLast (c : UInt8) : Bytes → Bytes
  | [] => []
  | x :: r => if r.contains c then afterLast c r else if x = c then r else x :: r

/-- text before the first occurrence of `c`: `split(c).next()` -/
def beforeFirst (c : UInt8) : Bytes → Bytes
  | [] => []
  | x :: r => if x = c then [] else x :: beforeFirst c r

/-- text up to and including the first occurrence of `c` (whole text if none) -/
def throughFirst (c : UInt8) : Bytes → Bytes
  | [] => []
  | x :: r => if x = c then [x] else x :: throughFirst c r

/-- `http::uri::authority::host` -/
def hostOf (raw : Bytes) : Bytes :=
  let hp := afterLast cAt raw
  match hp with
  | x :: _ => if x = cLBr then throughFirst cRBr hp else beforeFirst cColon hp
  | [] => []

def isDigit (b : UInt8) : Bool := 0x30 ≤ b && b ≤ 0x39

def digitsVal : Bytes → Nat → Nat
  | [], acc => acc
  | d :: r, acc => digitsVal r (acc * 10 + (d.toNat - 0x30))

/-- `u16::from_str`: an optional single '+', at least one ASCII digit, value ≤ 65535 -/
def parseU16 (s : Bytes) : Option Nat :=
  let ds := match s with
    | x :: r => if x = cPlus then r else s
    | [] => s
  if ds.isEmpty || !ds.all isDigit then none
  else
    let v := digitsVal ds 0
    if v ≤ 65535 then some v else none

/-- `Authority::port_u16`: `rfind(':')` then `u16::from_str` of the tail -/
def portOf (raw : Bytes) : Option Nat :=
  if raw.contains cColon then parseU16 (afterLast cColon raw) else none

def natToDecAux : Nat → Nat → Bytes → Bytes
  | 0, _, acc => acc
  | fuel + 1, n, acc =>
    let acc' := UInt8.ofNat (0x30 + n % 10) :: acc
    if n / 10 = 0 then acc' else natToDecAux fuel (n / 10) acc'

/-- `format!("{}", port)` -/
def natToDec (n : Nat) : Bytes := natToDecAux 6 n []

/-- `format!("{}:{}", authority.host(), port)` / `authority.host()` -/
def canonAuthority (raw : Bytes) : Bytes :=
  match portOf raw with
  | some p => hostOf raw ++ (cColon :: natToDec p)
  | none => hostOf raw

/-- `canonicalize_uri`: `Uri::builder().scheme("ipp").path_and_query(uri.path()).authority(…).build()`,
    falling back to a copy of the input when the builder fails (scheme without authority) -/
def cSlash : UInt8 := 0x2f
def cQ : UInt8 := 0x3f

/-- what `path()` reports for a URI that has a scheme: "/" when the stored path is empty.  A parsed
    absolute URI never has an empty path; a target in authority form (`host:port`, no scheme) does, and the
    URI built from it prints with "/" -/
def builtPath (p : Bytes) : Bytes := if p.isEmpty then [cSlash] else p

def canonUri (u : Uri) : Uri :=
  match u.authority with
  | some raw => { scheme := some canonScheme, authority := some (canonAuthority raw), path := builtPath u.path, query := none,
                  pq := some (builtPath u.path) }
  | none => u

/-- `impl Display for Uri` -/
def renderUri (u : Uri) : Bytes :=
  (match u.scheme with
   | some s => s ++ [cColon, cSlash, cSlash]
   | none => []) ++
  ((u.authority.getD []) ++
   (u.path ++
    (match u.query with
     | some q => cQ :: q
     | none => [])))

/-- `ipp_uri_to_string`; `u.pq.getD []` is `uri.path_and_query().map(|p| p.as_str()).unwrap_or_default()` -/
def transportUrl (u : Uri) : Bytes :=
  match u.scheme with
  | none => renderUri u
  | some s =>
    match transportArms.find? (fun a => a.1 == s) with
    | none => renderUri u
    | some (_, scheme, defaultPort) =>
      match u.authority with
      | none => renderUri u
      | some raw =>
        let auth := if (portOf raw).isSome then raw else raw ++ (cColon :: natToDec defaultPort)
        scheme ++ ([cColon, cSlash, cSlash] ++ (auth ++ u.pq.getD []))

end Ipp
