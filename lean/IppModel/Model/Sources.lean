/-
  Vocabulary about scripted sources used by the stream properties (C05, C06, C07).
-/
import IppModel.Model.Loop
namespace Ipp

/-- all data bytes of a script, in order -/
def Source.flat : Source → Bytes
  | [] => []
  | .data b :: r => b ++ Source.flat r
  | _ :: r => Source.flat r

def Ev.isFail : Ev → Bool
  | .fail _ => true
  | _ => false

def Ev.isIntr : Ev → Bool
  | .interrupted => true
  | _ => false

def Ev.isPending : Ev → Bool
  | .pending => true
  | _ => false

/-- the source never fails (it may fragment, be not ready, be interrupted) -/
def noFault (src : Source) : Bool := src.all fun e => !e.isFail
/-- the source reports no `Interrupted` -/
def noIntr (src : Source) : Bool := src.all fun e => !e.isIntr

/-- the same script as a blocking source sees it: not-ready results removed -/
def deliver (src : Source) : Source := src.filter fun e => !e.isPending

def Outcome.mapRest {α ρ ρ'} (f : ρ → ρ') : Outcome (α × ρ) → Outcome (α × ρ')
  | .ok (a, r) => .ok (a, f r)
  | .err e => .err e
  | .panic => .panic
  | .outOfFuel => .outOfFuel

end Ipp
