/-
  `IppValue` (ipp/src/value.rs): the 22 value kinds, `to_tag`, `to_bytes`.
  i32 fields are modelled by their 32-bit pattern, `i8` by its 8-bit pattern, `char` by its code point,
  `String` by its UTF-8 bytes, `BTreeMap<String, IppValue>` by a list kept sorted by `sinsert`.
-/
import IppModel.Generated.Source
import IppModel.Model.SMap
import IppModel.Model.Utf8
namespace Ipp
open Gen

inductive IntKind where
  | integer | enum
  deriving DecidableEq, Repr, Inhabited

inductive StrKind where
  | octetString | textWithoutLanguage | nameWithoutLanguage | charset | naturalLanguage
  | uri | uriScheme | keyword | mimeMediaType | memberAttrName
  deriving DecidableEq, Repr, Inhabited

inductive LangKind where
  | text | name
  deriving DecidableEq, Repr, Inhabited

inductive Value where
  | int (k : IntKind) (v : UInt32)
  | bool (b : Bool)
  | str (k : StrKind) (s : Bytes)
  | lang (k : LangKind) (language text : Bytes)
  | range (lo hi : UInt32)
  | dateTime (year : UInt16) (month day hour minutes seconds deci : UInt8) (utcDir : Nat) (utcH utcM : UInt8)
  | resolution (cross feed : UInt32) (units : UInt8)
  | noValue
  | other (tag : UInt8) (data : Bytes)
  | array (vs : List Value)
  | coll (ms : List (Bytes × Value))
  deriving Repr, BEq, Inhabited

def Gen.ValueTag.u8 (t : ValueTag) : UInt8 := UInt8.ofNat t.code
def Gen.DelimiterTag.u8 (t : DelimiterTag) : UInt8 := UInt8.ofNat t.code

/-- the ValueTag variants `to_tag` uses, per kind (all from the generated `T` table) -/
def IntKind.vtag : IntKind → ValueTag
  | .integer => T.Integer
  | .enum => T.Enum

def StrKind.vtag : StrKind → ValueTag
  | .octetString => T.OctetString
  | .textWithoutLanguage => T.TextWithoutLanguage
  | .nameWithoutLanguage => T.NameWithoutLanguage
  | .charset => T.Charset
  | .naturalLanguage => T.NaturalLanguage
  | .uri => T.Uri
  | .uriScheme => T.UriScheme
  | .keyword => T.Keyword
  | .mimeMediaType => T.MimeMediaType
  | .memberAttrName => T.MemberAttrName

def LangKind.vtag : LangKind → ValueTag
  | .text => T.TextWithLanguage
  | .name => T.NameWithLanguage

mutual
/-- `IppValue::to_tag` -/
def tagOf : Value → UInt8
  | .int k _ => k.vtag.u8
  | .bool _ => T.Boolean.u8
  | .str k _ => k.vtag.u8
  | .lang k _ _ => k.vtag.u8
  | .range _ _ => T.RangeOfInteger.u8
  | .dateTime .. => T.DateTime.u8
  | .resolution .. => T.Resolution.u8
  | .noValue => T.NoValue.u8
  | .other tag _ => tag
  | .array vs => tagOfFirst vs
  | .coll _ => T.Collection.u8
def tagOfFirst : List Value → UInt8
  | [] => T.EmptyArray.u8
  | v :: _ => tagOf v
end

def boolByte (b : Bool) : UInt8 := if b then 1 else 0

/-- tag written before the member name inside a collection: `IppValue::MemberAttrName(..).to_tag()` -/
def memberNameTag : UInt8 := StrKind.memberAttrName.vtag.u8
/-- `ValueTag::EndCollection as u8` -/
def endCollTag : UInt8 := ValueTag.EndCollection.u8

mutual
/-- `IppValue::to_bytes`: value length field and value, *without* the leading tag and name -/
def encValue : Value → Bytes
  | .int _ v => be16 4 ++ be32 v
  | .range lo hi => be16 8 ++ (be32 lo ++ be32 hi)
  | .bool b => be16 1 ++ [boolByte b]
  | .str _ s => be16 s.length ++ s
  | .lang _ l t => be16 (l.length + t.length + 4) ++ (be16 l.length ++ (l ++ (be16 t.length ++ t)))
  | .array vs => encElems vs true
  | .coll ms => be16 0 ++ (encMembers ms ++ (endCollTag :: be32 0))
  | .dateTime y mo d h mi s ds dir uh um =>
      be16 11 ++ (be16 y.toNat ++ [mo, d, h, mi, s, ds, UInt8.ofNat dir, uh, um])
  | .resolution c f u => be16 9 ++ (be32 c ++ (be32 f ++ [u]))
  | .noValue => be16 0
  | .other _ d => be16 d.length ++ d
/-- elements of a set: every element but the first is preceded by its own tag and an empty name -/
def encElems : List Value → Bool → Bytes
  | [], _ => []
  | v :: vs, first =>
      (if first then [] else tagOf v :: be16 0) ++ (encValue v ++ encElems vs false)
def encMembers : List (Bytes × Value) → Bytes
  | [] => []
  | (k, v) :: ms =>
      (memberNameTag :: be16 0) ++ ((be16 k.length ++ k) ++ ((tagOf v :: be16 0) ++ (encValue v ++ encMembers ms)))
end

/-- `IppAttribute::to_bytes` -/
def encAttr (name : Bytes) (v : Value) : Bytes :=
  tagOf v :: (be16 name.length ++ (name ++ encValue v))

mutual
/-- nesting depth of a value (recursion depth of the derived `Drop`/`Clone`/`Display`) -/
def depth : Value → Nat
  | .array vs => depthL vs + 1
  | .coll ms => depthM ms + 1
  | _ => 1
def depthL : List Value → Nat
  | [] => 0
  | v :: vs => max (depth v) (depthL vs)
def depthM : List (Bytes × Value) → Nat
  | [] => 0
  | (_, v) :: ms => max (depth v) (depthM ms)
end

end Ipp
