/-
  Basic vocabulary of the model: byte strings, error values, outcomes, big-endian fields.
  Core Lean only (no Mathlib, no Std) so that the line-protocol driver links natively.
-/
namespace Ipp

abbrev Bytes := List UInt8

/-- `std::io::ErrorKind`, the kinds the harness injects or the library produces -/
inductive IoKind where
  | unexpectedEof | invalidData | connectionReset | connectionAborted | timedOut | brokenPipe
  | permissionDenied | other | wouldBlock | interrupted | invalidInput
  deriving DecidableEq, Repr, Inhabited

/-- `IppParseError` -/
inductive Err where
  | io (k : IoKind)
  | invalidTag (t : UInt8)
  | invalidCollection
  deriving DecidableEq, Repr, Inhabited

/-- Result of running a piece of the implementation: a value, an error *value*, a Rust panic,
    or (model artefact) exhausted fuel.  The totality theorems show the last two never occur. -/
inductive Outcome (α : Type) where
  | ok (a : α)
  | err (e : Err)
  | panic
  | outOfFuel
  deriving Repr, BEq, Inhabited

def Outcome.bind {α β} (x : Outcome α) (f : α → Outcome β) : Outcome β :=
  match x with
  | .ok a => f a
  | .err e => .err e
  | .panic => .panic
  | .outOfFuel => .outOfFuel

def Outcome.map {α β} (f : α → β) (x : Outcome α) : Outcome β := x.bind (fun a => .ok (f a))

def Outcome.isOk {α} : Outcome α → Bool
  | .ok _ => true
  | _ => false

/-- `put_u16(n as u16)`: truncating cast, big endian -/
def be16 (n : Nat) : Bytes := [UInt8.ofNat (n / 256), UInt8.ofNat n]

/-- `put_u32` / `put_i32` on the 32-bit pattern -/
def be32 (u : UInt32) : Bytes :=
  [UInt8.ofNat (u.toNat / 16777216), UInt8.ofNat (u.toNat / 65536), UInt8.ofNat (u.toNat / 256), UInt8.ofNat u.toNat]

def unbe16 (a b : UInt8) : Nat := a.toNat * 256 + b.toNat

def unbe32 (a b c d : UInt8) : UInt32 :=
  UInt32.ofNat (a.toNat * 16777216 + b.toNat * 65536 + c.toNat * 256 + d.toNat)

/-- tag dispatch of a drive loop, as extracted from `parse_header_attributes` -/
structure LoopCfg where
  delimLo : Nat
  delimHi : Nat
  valueLo : Nat
  valueHi : Nat
  endTag : Nat
  deriving DecidableEq, Repr

end Ipp
