/-
  Cost model of the parser (C15): the drive loop run with a machine that carries, next to the parser
  state, a counter of the work the implementation does per token:
    * reading a token allocates and fills its name and its value buffers (`vec![0; len]`), decodes them;
    * a value is pushed on the current list (amortised O(1) `Vec::push`);
    * a named token flushes the pending attribute: the value list is *moved* into the attribute (O(1)), the
      name is hashed and copied (its length), the map insert is amortised O(1);
    * closing a collection moves every item of the closed level once into the member map (the repaired
      grouping loop consumes the list; before the repair it deep-cloned each value);
    * a delimiter flushes the pending attribute and pushes the group (O(1) amortised).
  Comparisons inside `BTreeMap::insert` (n log n) and allocator internals are outside this model.
-/
import IppModel.Model.Loop
namespace Ipp
open Gen

structure CState where
  st : PState
  cost : Nat
  deriving Inhabited

/-- work of flushing the pending attribute: constant, plus hashing/copying the name -/
def flushCost (s : PState) : Nat :=
  match s.lastName with
  | some n => 1 + n.length
  | none => 0

/-- items moved when a collection closes: the length of the closed level -/
def closeCost (s : PState) (tag : UInt8) (name : Bytes) : Nat :=
  if tag = endBracket.u8 then
    match (if name.isEmpty then s else { s.addLastAttribute with lastName := some name }).context with
    | arr :: _ => arr.length
    | [] => 0
  else 0

/-- the parser's machine with the work counter -/
def cMachine : Machine CState where
  delim := fun c tag => match c.st.parseDelimiter tag with
    | .ok (s', t) => .ok (⟨s', c.cost + 1 + flushCost c.st⟩, t.code)
    | .error e => .error e
  value := fun c tag name body =>
    match c.st.parseValue tag (lossy name) body with
    | .ok s' =>
      .ok ⟨s', c.cost + 5 + name.length + body.length + 1
                + (if name.isEmpty then 0 else flushCost c.st + (lossy name).length)
                + closeCost c.st tag (lossy name)⟩
    | .err e => .err e
    | .panic => .panic
    | .outOfFuel => .outOfFuel

/-- parse with cost: header (8 bytes read), then the loop; returns result, cost, rest -/
def parseCost (bs : Bytes) : Outcome (((Header × List Group) × Nat) × Bytes) :=
  match rdHeader flatRd bs with
  | .err e => .err e
  | .panic => .panic
  | .outOfFuel => .outOfFuel
  | .ok (h, r1) =>
    match driveLoop flatRd syncLoop cMachine (bs.length + 1) r1 ⟨PState.init, 8⟩ with
    | .err e => .err e
    | .panic => .panic
    | .outOfFuel => .outOfFuel
    | .ok (c, r2) => .ok (((h, c.st.groups), c.cost), r2)

end Ipp
