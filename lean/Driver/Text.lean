/-
  Text format of the line protocol (DESIGN Appendix B): S-expressions with hex byte strings.
  Not part of the proofs; shared by every driver op.
-/
import IppModel
namespace Ipp.Text
open Ipp Ipp.Gen

inductive SExp where
  | atom (s : String)
  | list (xs : List SExp)
  deriving Repr, Inhabited

/-- split into tokens; parentheses are their own tokens -/
def tokenize (s : String) : Array String := Id.run do
  let mut out : Array String := #[]
  let mut cur : String := ""
  for c in s.toList do
    if c == '(' || c == ')' then
      if cur != "" then out := out.push cur; cur := ""
      out := out.push (String.singleton c)
    else if c == ' ' || c == '\t' || c == '\n' || c == '\r' then
      if cur != "" then out := out.push cur; cur := ""
    else cur := cur.push c
  if cur != "" then out := out.push cur
  return out

/-- parse a sequence of S-expressions from tokens (iterative, explicit stack) -/
def parseSExps (toks : Array String) : Except String (List SExp) := Id.run do
  let mut stack : List (List SExp) := [[]]   -- reversed children per open paren
  for t in toks do
    if t == "(" then stack := [] :: stack
    else if t == ")" then
      match stack with
      | top :: parent :: rest => stack := (SExp.list top.reverse :: parent) :: rest
      | _ => return .error "unbalanced )"
    else
      match stack with
      | top :: rest => stack := (SExp.atom t :: top) :: rest
      | [] => return .error "internal"
  match stack with
  | [top] => return .ok top.reverse
  | _ => return .error "unbalanced ("

def hexVal (c : Char) : Option Nat :=
  if '0' ≤ c && c ≤ '9' then some (c.toNat - '0'.toNat)
  else if 'a' ≤ c && c ≤ 'f' then some (c.toNat - 'a'.toNat + 10)
  else if 'A' ≤ c && c ≤ 'F' then some (c.toNat - 'A'.toNat + 10)
  else none

def hexToBytes (s : String) : Option Bytes :=
  if s == "-" then some [] else
  let rec go : List Char → Array UInt8 → Option (Array UInt8)
    | [], acc => some acc
    | [_], _ => none
    | a :: b :: r, acc => match hexVal a, hexVal b with
      | some x, some y => go r (acc.push (UInt8.ofNat (x * 16 + y)))
      | _, _ => none
  (go s.toList #[]).map Array.toList

def hexToNat (s : String) : Option Nat :=
  s.toList.foldl (fun acc c => match acc, hexVal c with
    | some a, some v => some (a * 16 + v)
    | _, _ => none) (some 0)

def hexDigit (n : Nat) : Char := if n < 10 then Char.ofNat (n + 48) else Char.ofNat (n + 87)

def bytesToHex (b : Bytes) : String :=
  if b.isEmpty then "-" else
  String.ofList (b.foldr (fun x acc => hexDigit (x.toNat / 16) :: hexDigit (x.toNat % 16) :: acc) [])

def natHex (width : Nat) (n : Nat) : String :=
  String.ofList ((List.range width).reverse.map fun i => hexDigit ((n / 16 ^ i) % 16))

def strKindName : StrKind → String
  | .octetString => "octet" | .textWithoutLanguage => "text" | .nameWithoutLanguage => "name"
  | .charset => "charset" | .naturalLanguage => "lang" | .uri => "uri" | .uriScheme => "scheme"
  | .keyword => "keyword" | .mimeMediaType => "mime" | .memberAttrName => "member"

def strKindOf : String → Option StrKind
  | "octet" => some .octetString | "text" => some .textWithoutLanguage | "name" => some .nameWithoutLanguage
  | "charset" => some .charset | "lang" => some .naturalLanguage | "uri" => some .uri | "scheme" => some .uriScheme
  | "keyword" => some .keyword | "mime" => some .mimeMediaType | "member" => some .memberAttrName
  | _ => none

mutual
partial def showValue : Value → String
  | .int .integer v => s!"(int {natHex 8 v.toNat})"
  | .int .enum v => s!"(enum {natHex 8 v.toNat})"
  | .bool b => s!"(bool {if b then 1 else 0})"
  | .str k s => s!"(str {strKindName k} {bytesToHex s})"
  | .lang .text l t => s!"(lang text {bytesToHex l} {bytesToHex t})"
  | .lang .name l t => s!"(lang name {bytesToHex l} {bytesToHex t})"
  | .range lo hi => s!"(range {natHex 8 lo.toNat} {natHex 8 hi.toNat})"
  | .dateTime y mo d h mi s ds dir uh um =>
    s!"(dt {natHex 4 y.toNat} {natHex 2 mo.toNat} {natHex 2 d.toNat} {natHex 2 h.toNat} {natHex 2 mi.toNat} {natHex 2 s.toNat} {natHex 2 ds.toNat} {natHex 6 dir} {natHex 2 uh.toNat} {natHex 2 um.toNat})"
  | .resolution c f u => s!"(res {natHex 8 c.toNat} {natHex 8 f.toNat} {natHex 2 u.toNat})"
  | .noValue => "(novalue)"
  | .other t d => s!"(other {natHex 2 t.toNat} {bytesToHex d})"
  | .array vs => "(array" ++ String.join (vs.map fun v => " " ++ showValue v) ++ ")"
  | .coll ms => "(coll" ++ String.join (ms.map fun (k, v) => s!" ({bytesToHex k} {showValue v})") ++ ")"
end

def u32 (s : String) : Option UInt32 := (hexToNat s).map UInt32.ofNat
def u8 (s : String) : Option UInt8 := (hexToNat s).map UInt8.ofNat

partial def readValue : SExp → Option Value
  | .list [.atom "int", .atom h] => (u32 h).map (.int .integer)
  | .list [.atom "enum", .atom h] => (u32 h).map (.int .enum)
  | .list [.atom "bool", .atom b] => some (.bool (b == "1"))
  | .list [.atom "str", .atom k, .atom h] => do let k ← strKindOf k; let b ← hexToBytes h; pure (.str k b)
  | .list [.atom "lang", .atom k, .atom l, .atom t] => do
      let l ← hexToBytes l; let t ← hexToBytes t
      if k == "text" then pure (.lang .text l t) else if k == "name" then pure (.lang .name l t) else none
  | .list [.atom "range", .atom a, .atom b] => do pure (.range (← u32 a) (← u32 b))
  | .list [.atom "dt", .atom y, .atom mo, .atom d, .atom h, .atom mi, .atom s, .atom ds, .atom dir, .atom uh, .atom um] => do
      pure (.dateTime (UInt16.ofNat (← hexToNat y)) (← u8 mo) (← u8 d) (← u8 h) (← u8 mi) (← u8 s) (← u8 ds) (← hexToNat dir) (← u8 uh) (← u8 um))
  | .list [.atom "res", .atom c, .atom f, .atom u] => do pure (.resolution (← u32 c) (← u32 f) (← u8 u))
  | .list [.atom "novalue"] => some .noValue
  | .list [.atom "other", .atom t, .atom d] => do pure (.other (← u8 t) (← hexToBytes d))
  | .list (.atom "array" :: vs) => (vs.mapM readValue).map .array
  | .list (.atom "coll" :: ms) => (ms.mapM fun (m : SExp) => match m with
      | SExp.list [SExp.atom k, v] => do pure (← hexToBytes k, ← readValue v)
      | _ => none).map .coll
  | _ => none

def showAttr (p : Bytes × Value) : String := s!"(a {bytesToHex p.1} {showValue p.2})"

def showGroup (g : Group) : String :=
  s!"(g {natHex 2 g.tag.code}" ++ String.join (g.attrs.map fun a => " " ++ showAttr a) ++ ")"

def showMsg (h : Header) (gs : List Group) : String :=
  s!"(msg {natHex 4 h.version.toNat} {natHex 4 h.opOrStatus.toNat} {natHex 8 h.requestId.toNat}" ++
    String.join (gs.map fun g => " " ++ showGroup g) ++ ")"

def readAttr : SExp → Option (Bytes × Value)
  | .list [.atom "a", .atom n, v] => do pure (← hexToBytes n, ← readValue v)
  | _ => none

def readGroup : SExp → Option Group
  | .list (.atom "g" :: .atom t :: as) => do
      let t ← DelimiterTag.fromCode (← hexToNat t)
      pure ⟨t, ← as.mapM readAttr⟩
  | _ => none

def readMsg : SExp → Option (Header × List Group)
  | .list (.atom "msg" :: .atom v :: .atom o :: .atom i :: gs) => do
      pure (⟨UInt16.ofNat (← hexToNat v), UInt16.ofNat (← hexToNat o), UInt32.ofNat (← hexToNat i)⟩, ← gs.mapM readGroup)
  | _ => none

def ioKindName : IoKind → String
  | .unexpectedEof => "eof" | .invalidData => "invalid-data" | .connectionReset => "reset"
  | .connectionAborted => "aborted" | .timedOut => "timed-out" | .brokenPipe => "broken-pipe"
  | .permissionDenied => "denied" | .other => "other" | .wouldBlock => "would-block"
  | .interrupted => "interrupted" | .invalidInput => "invalid-input"

def ioKindOf : String → Option IoKind
  | "eof" => some .unexpectedEof | "invalid-data" => some .invalidData | "reset" => some .connectionReset
  | "aborted" => some .connectionAborted | "timed-out" => some .timedOut | "broken-pipe" => some .brokenPipe
  | "denied" => some .permissionDenied | "other" => some .other | "would-block" => some .wouldBlock
  | "interrupted" => some .interrupted | "invalid-input" => some .invalidInput
  | _ => none

def showErr : Err → String
  | .io k => s!"(err io {ioKindName k})"
  | .invalidTag t => s!"(err tag {natHex 2 t.toNat})"
  | .invalidCollection => "(err coll)"

def showOutcome {α} (f : α → String) : Outcome α → String
  | .ok a => s!"(ok {f a})"
  | .err e => showErr e
  | .panic => "(panic)"
  | .outOfFuel => "(fuel)"

def readEv : SExp → Option Ev
  | .list [.atom "d", .atom h] => (hexToBytes h).map .data
  | .list [.atom "pend"] => some .pending
  | .list [.atom "intr"] => some .interrupted
  | .list [.atom "fail", .atom k] => (ioKindOf k).map .fail
  | _ => none

def showEv : Ev → String
  | .data b => s!"(d {bytesToHex b})"
  | .pending => "(pend)"
  | .interrupted => "(intr)"
  | .fail k => s!"(fail {ioKindName k})"

/-- remaining data bytes of a source up to the first failure (what a drain would deliver) -/
def drainData : Source → Bytes
  | [] => []
  | .data b :: r => b ++ drainData r
  | .pending :: r => drainData r
  | .interrupted :: r => drainData r
  | .fail _ :: _ => []


open Ipp.Spec in
partial def readWVal : SExp → Option WVal
  | .list [.atom "p", .atom t, .atom b] => do pure (.plain (← u8 t) (← hexToBytes b))
  | .list (.atom "c" :: ms) => (ms.mapM fun (m : SExp) => match m with
      | SExp.list (SExp.atom k :: vs) => do pure (← hexToBytes k, ← vs.mapM readWVal)
      | _ => none).map .coll
  | _ => none

open Ipp.Spec in
def readWMsg : SExp → Option WMsg
  | .list (.atom "wmsg" :: .atom v :: .atom o :: .atom i :: gs) => do
      let groups ← gs.mapM fun (g : SExp) => match g with
        | SExp.list (SExp.atom "wg" :: SExp.atom t :: as) => do
            let attrs ← as.mapM fun (a : SExp) => match a with
              | SExp.list (SExp.atom "wa" :: SExp.atom n :: vs) => do pure (⟨← hexToBytes n, ← vs.mapM readWVal⟩ : WAttr)
              | _ => none
            pure (⟨← u8 t, attrs⟩ : WGroup)
        | _ => none
      pure ⟨UInt16.ofNat (← hexToNat v), UInt16.ofNat (← hexToNat o), UInt32.ofNat (← hexToNat i), groups⟩
  | _ => none

end Ipp.Text
