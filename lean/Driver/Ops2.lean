import Driver.Text
import IppModel
import IppModel.Spec.Requests
namespace Ipp.Ops2
open Ipp Ipp.Gen Ipp.Text

def optHex (s : String) : Option (Option Bytes) := if s == "~" then some none else (hexToBytes s).map some

def readComponents : SExp → Option Uri
  | .list [.atom "c", .atom s, .atom a, .atom p, .atom q, .atom pq] => do
      pure { scheme := ← optHex s, authority := ← optHex a, path := ← hexToBytes p, query := ← optHex q, pq := ← optHex pq }
  | _ => none

def showOptHex : Option Bytes → String
  | some b => bytesToHex b
  | none => "~"

def groupsOfText (gs : List Group) : String :=
  String.join ([1, 2, 3, 4, 5].map fun t =>
    match DelimiterTag.fromCode t with
    | some tag =>
      let idx := (List.range gs.length).filter fun i => (gs[i]?.map (·.tag)) == some tag
      s!" of{natHex 2 t}={if idx.isEmpty then "-" else ",".intercalate (idx.map toString)}"
    | none => "")

def identStr (b : Bytes) : String := String.fromUTF8! (ByteArray.mk b.toArray)

def readCall : SExp → Option Call
  | .list [.atom "user_name", .atom h] => (hexToBytes h).map .userName
  | .list [.atom "job_title", .atom h] => (hexToBytes h).map .jobTitle
  | .list [.atom "job_name", .atom h] => (hexToBytes h).map .jobTitle
  | .list [.atom "last", .atom b] => some (.last (b == "1"))
  | .list [.atom "attribute", .atom h] => (hexToBytes h).map .reqAttr
  | .list [.atom "attribute", a] => (readAttr a).map fun p => .attribute p.1 p.2
  | .list (.atom "attributes" :: rest) =>
    (match rest.mapM readAttr with
     | some as => some (.attributes as)
     | none => (rest.mapM fun (e : SExp) => match e with
         | SExp.atom h => hexToBytes h
         | _ => none).map .reqAttrs)
  | _ => none

def opKindOf : String → Option OpKind
  | "print_job" => some .printJob | "get_printer_attributes" => some .getPrinterAttributes
  | "create_job" => some .createJob | "send_document" => some .sendDocument | "purge_jobs" => some .purgeJobs
  | "cancel_job" => some .cancelJob | "get_job_attributes" => some .getJobAttributes | "get_jobs" => some .getJobs
  | "cups_get_printers" => some .cupsGetPrinters | "cups_delete_printer" => some .cupsDeletePrinter
  | _ => none

def showReq (r : Request) : String := s!"{showMsg r.header r.groups} payload={bytesToHex r.payload}"

def dispatch2 (op : String) (args : List SExp) : Option String :=
  match op, args with
  | "add_seq", (m :: ops) =>
    some (match readMsg m with
     | some (h, gs) =>
        let start : List Group := gs.map Group.canon
        let step (acc : Option (List Group)) (o : SExp) : Option (List Group) :=
          match acc, o with
          | some g, SExp.list [SExp.atom "op", SExp.atom t, SExp.atom n, v] =>
            (match (hexToNat t).bind DelimiterTag.fromCode, hexToBytes n, readValue v with
             | some t, some n, some v => some (addAttr t n v g)
             | _, _, _ => none)
          | _, _ => none
        (match ops.foldl step (some start) with
         | some g => s!"{showMsg h g}{groupsOfText g}"
         | none => "(bad-arg)")
     | none => "(bad-arg)")
  | "iter", [v] =>
    some (match readValue v with
     | some v =>
        let (vs, st) := IterSt.collect (valueSize v + 1) v.iter
        let after := (st.next.1.isSome) || (st.next.2.next.1.isSome)
        "[" ++ " ".intercalate (vs.map showValue) ++ "]" ++ (if after then " resumed" else " end")
     | none => "(bad-arg)")
  | "ready", [m] =>
    some (match readMsg m with
     | some (h, gs) =>
        (match isPrinterReady h gs with
         | .ok b => s!"(ok {if b then 1 else 0})"
         | .error s => s!"(err {identStr s.ident})")
     | none => "(bad-arg)")
  | "fromstr", [.atom h] =>
    some (match hexToBytes h with
     | some b => showValue (valueFromStr b)
     | none => "(bad-arg)")
  | "canon", [_, _, _, _, c] =>
    some (match readComponents c with
     | some u =>
        let raw := u.authority
        s!"R={bytesToHex (renderUri (canonUri u))} host={showOptHex (raw.map hostOf)} port={match raw.bind portOf with | some p => toString p | none => "-"}"
     | none => "(bad-arg)")
  | "canon", [_] => some "(invalid-uri)"
  | "canon", [_, _, _, _] => some "(invalid-uri)"
  | "transport", [_, _, c] =>
    some (match readComponents c with
     | some u => bytesToHex (transportUrl u)
     | none => "(bad-arg)")
  | "transport", [_, _] => some "(invalid-uri)"
  | "order", args =>
    -- `order <build args…> (adds …) [(c …)]`: the request of `build`, further adds, then the wire prefix
    (match args.partition (fun (a : SExp) => match a with | SExp.list (SExp.atom "adds" :: _) => true | _ => false) with
     | ([SExp.list (_ :: adds)], rest) =>
       let req : Option Request :=
         match rest with
         | [.atom "new_response", .atom v, .atom s, .atom i] =>
           (match hexToNat v, (hexToNat s).bind StatusCode.fromCode, hexToNat i with
            | some v, some st, some i => some (newResponse (UInt16.ofNat v) st (UInt32.ofNat i))
            | _, _, _ => none)
         | [.atom "new_request", .atom u, .atom v, .atom o, c] =>
           (match hexToNat v, (hexToNat o).bind Operation.fromCode, readComponents c with
            | some v, some op, some comps => some (newRequest (UInt16.ofNat v) op (if u == "~" then none else some comps))
            | _, _, _ => none)
         | [.atom k, .atom _, .atom j, .atom p, .list (.atom "calls" :: calls), c] =>
           (match opKindOf k, hexToNat j, hexToBytes p, calls.mapM readCall, readComponents c with
            | some k, some j, some p, some calls, some u => some (buildOp k u (UInt32.ofNat j) p calls)
            | _, _, _, _, _ => none)
         | _ => none
       let step (acc : Option (List Group)) (o : SExp) : Option (List Group) :=
         match acc, o with
         | some g, SExp.list [SExp.atom "op", SExp.atom t, SExp.atom n, v] =>
           (match (hexToNat t).bind DelimiterTag.fromCode, hexToBytes n, readValue v with
            | some t, some n, some v => some (addAttr t n v g)
            | _, _, _ => none)
         | _, _ => none
       (match req with
        | some r =>
          (match adds.foldl step (some r.groups) with
           | some gs =>
             let hdrAttrs := match firstOp gs with
               | some g => encHeaderAttrs g.attrs headerAttrs
               | none => []
             some (bytesToHex (encHeader r.header ++ (DelimiterTag.OperationAttributes.u8 :: hdrAttrs)))
           | none => some "(bad-arg)")
        | none => some "(bad-arg)")
     | _ => some "(bad-arg)")
  | "thm10", [.atom k, .atom _, .atom j, .atom p, .list (.atom "calls" :: calls), c] =>
    some (match opKindOf k, hexToNat j, hexToBytes p, calls.mapM readCall, readComponents c with
     | some k, some j, some p, some calls, some u =>
        let lhs := buildOp k u (UInt32.ofNat j) (if Spec.hasPayload k then p else []) calls
        let rhs := Spec.request k u (UInt32.ofNat j) p (Spec.summary calls)
        if showReq lhs == showReq rhs then "eq" else s!"DIFF {showReq lhs} VS {showReq rhs}"
     | _, _, _, _, _ => "(bad-arg)")
  | "build", [.atom "new_response", .atom v, .atom s, .atom i] =>
    some (match hexToNat v, (hexToNat s).bind StatusCode.fromCode, hexToNat i with
     | some v, some st, some i => showReq (newResponse (UInt16.ofNat v) st (UInt32.ofNat i))
     | _, _, _ => "(bad-arg)")
  | "build", [.atom "new_request", .atom u, .atom v, .atom o, c] =>
    some (match hexToNat v, (hexToNat o).bind Operation.fromCode, readComponents c with
     | some v, some op, some comps => showReq (newRequest (UInt16.ofNat v) op (if u == "~" then none else some comps))
     | _, _, _ => "(bad-arg)")
  | "build", [.atom k, .atom _, .atom j, .atom p, .list (.atom "calls" :: calls), c] =>
    some (match opKindOf k, hexToNat j, hexToBytes p, calls.mapM readCall, readComponents c with
     | some k, some j, some p, some calls, some u =>
        let payload := if k == .printJob || k == .sendDocument then p else []
        showReq (buildOp k u (UInt32.ofNat j) payload calls)
     | _, _, _, _, _ => "(bad-arg)")
  | _, _ => none

end Ipp.Ops2
