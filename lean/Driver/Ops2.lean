import Driver.Text
import IppModel
import IppModel.Spec.Requests
import IppModel.Model.Stream
import IppModel.Model.Json
import IppModel.Model.Cost
import IppModel.Model.Http
import IppModel.Model.Cli
import IppModel.Model.Tls
import IppModel.Spec.Container
namespace Ipp.Ops2
open Ipp Ipp.Gen Ipp.Text

def optHex (s : String) : Option (Option Bytes) := if s == "~" then some none else (hexToBytes s).map some

def readComponents : SExp → Option Uri
  | .list [.atom "c", .atom s, .atom a, .atom p, .atom q, .atom pq] => do
      pure { scheme := ← optHex s, authority := ← optHex a, path := ← hexToBytes p, query := ← optHex q, pq := ← optHex pq }
  | _ => none

def showOptHex : Option Bytes → String
  | some b => bytesToHex b
  | none => "~"

def groupsOfText (gs : List Group) : String :=
  String.join ([1, 2, 3, 4, 5].map fun t =>
    match DelimiterTag.fromCode t with
    | some tag =>
      let idx := (List.range gs.length).filter fun i => (gs[i]?.map (·.tag)) == some tag
      s!" of{natHex 2 t}={if idx.isEmpty then "-" else ",".intercalate (idx.map toString)}"
    | none => "")

def identStr (b : Bytes) : String := String.fromUTF8! (ByteArray.mk b.toArray)

def readCall : SExp → Option Call
  | .list [.atom "user_name", .atom h] => (hexToBytes h).map .userName
  | .list [.atom "job_title", .atom h] => (hexToBytes h).map .jobTitle
  | .list [.atom "job_name", .atom h] => (hexToBytes h).map .jobTitle
  | .list [.atom "last", .atom b] => some (.last (b == "1"))
  | .list [.atom "attribute", .atom h] => (hexToBytes h).map .reqAttr
  | .list [.atom "attribute", a] => (readAttr a).map fun p => .attribute p.1 p.2
  | .list (.atom "attributes" :: rest) =>
    (match rest.mapM readAttr with
     | some as => some (.attributes as)
     | none => (rest.mapM fun (e : SExp) => match e with
         | SExp.atom h => hexToBytes h
         | _ => none).map .reqAttrs)
  | _ => none

def opKindOf : String → Option OpKind
  | "print_job" => some .printJob | "get_printer_attributes" => some .getPrinterAttributes
  | "create_job" => some .createJob | "send_document" => some .sendDocument | "purge_jobs" => some .purgeJobs
  | "cancel_job" => some .cancelJob | "get_job_attributes" => some .getJobAttributes | "get_jobs" => some .getJobs
  | "cups_get_printers" => some .cupsGetPrinters | "cups_delete_printer" => some .cupsDeletePrinter
  | _ => none

def showReq (r : Request) : String := s!"{showMsg r.header r.groups} payload={bytesToHex r.payload}"

def utf8Enc (cp : Nat) : Bytes :=
  if cp < 0x80 then [UInt8.ofNat cp]
  else if cp < 0x800 then [UInt8.ofNat (0xC0 + cp / 64), UInt8.ofNat (0x80 + cp % 64)]
  else if cp < 0x10000 then [UInt8.ofNat (0xE0 + cp / 4096), UInt8.ofNat (0x80 + cp / 64 % 64), UInt8.ofNat (0x80 + cp % 64)]
  else [UInt8.ofNat (0xF0 + cp / 262144), UInt8.ofNat (0x80 + cp / 4096 % 64), UInt8.ofNat (0x80 + cp / 64 % 64), UInt8.ofNat (0x80 + cp % 64)]

partial def showJson : Json → String
  | .num n => s!"(n {n})"
  | .bool b => s!"(b {if b then 1 else 0})"
  | .str s => s!"(s {bytesToHex s})"
  | .chr cp => s!"(s {bytesToHex (utf8Enc cp)})"
  | .arr l => "(a" ++ String.join (l.map fun j => " " ++ showJson j) ++ ")"
  | .obj kvs =>
    let sorted := kvs.toArray.qsort (fun a b => blt a.1 b.1)
    "(o" ++ String.join (sorted.toList.map fun (k, v) => s!" ({bytesToHex k} {showJson v})") ++ ")"

def dispatch2 (op : String) (args : List SExp) : Option String :=
  match op, args with
  | "add_seq", (m :: ops) =>
    some (match readMsg m with
     | some (h, gs) =>
        let start : List Group := gs.map Group.canon
        let step (acc : Option (List Group)) (o : SExp) : Option (List Group) :=
          match acc, o with
          | some g, SExp.list [SExp.atom "op", SExp.atom t, SExp.atom n, v] =>
            (match (hexToNat t).bind DelimiterTag.fromCode, hexToBytes n, readValue v with
             | some t, some n, some v => some (addAttr t n v g)
             | _, _, _ => none)
          | _, _ => none
        -- specification of the container (C19), computed without folding `add`: every existing group that is the
        -- first of its kind receives, in order, the additions made to that kind; kinds that are new are appended
        -- in order of first use, each holding its additions
        let parsed : Option (List (DelimiterTag × Bytes × Value)) := ops.mapM fun (o : SExp) => match o with
          | SExp.list [SExp.atom "op", SExp.atom t, SExp.atom n, v] =>
            (match (hexToNat t).bind DelimiterTag.fromCode, hexToBytes n, readValue v with
             | some t, some n, some v => some (t, n, v)
             | _, _, _ => none)
          | _ => none
        let spec : Option (List Group) := parsed.map fun pops => Spec.addHistory start pops
        (match ops.foldl step (some start), spec with
         | some g, some sp => s!"{showMsg h g}{groupsOfText g} ## {showMsg h sp}{groupsOfText sp}"
         | _, _ => "(bad-arg)")
     | none => "(bad-arg)")
  | "iter", [v] =>
    some (match readValue v with
     | some v =>
        let (vs, st) := IterSt.collect (valueSize v + 1) v.iter
        let after := (st.next.1.isSome) || (st.next.2.next.1.isSome)
        -- model ## specification of traversal (C19): set elements in order, collection member values in
        -- member-name order, any other value exactly once; then it ends
        let specVs : List Value := match v with
          | .array xs => xs
          | .coll ms => ms.map (·.2)
          | w => [w]
        "[" ++ " ".intercalate (vs.map showValue) ++ "]" ++ (if after then " resumed" else " end") ++
          " ## [" ++ " ".intercalate (specVs.map showValue) ++ "] end"
     | none => "(bad-arg)")
  | "ready", [m] =>
    some (match readMsg m with
     | some (h, gs) =>
        -- model ## the property's own wording (C17), written with the RFC names and the ten blocking words
        let blocking : List Bytes := [Spec.N.media_jam, Spec.N.toner_empty, Spec.N.spool_area_full, Spec.N.cover_open, Spec.N.door_open,
          Spec.N.input_tray_missing, Spec.N.output_tray_missing, Spec.N.marker_supply_empty, Spec.N.paused, Spec.N.shutdown]
        let firstPrinter := (gs.filter fun g => g.tag == .PrinterAttributes).head?
        let attr (n : Bytes) : Option Value := firstPrinter.bind fun g => (g.attrs.find? fun p => p.1 == n).map (·.2)
        let stopped := match attr Spec.N.printer_state with
          | some (.int .enum v) => v == 5
          | _ => false
        let kws : List Bytes := match attr Spec.N.printer_state_reasons with
          | some (.str .keyword s) => [s]
          | some (.array vs) => vs.filterMap fun v => match v with | .str .keyword s => some s | _ => none
          | some (.coll ms) => ms.filterMap fun m => match m.2 with | .str .keyword s => some s | _ => none
          | _ => []
        let code := h.opOrStatus.toNat
        let specText :=
          if code ≤ 2 then s!"(ok {if !stopped && !(kws.any fun k => blocking.contains k) then 1 else 0})"
          else s!"(err {identStr (statusOf code).ident})"
        let modelText := match isPrinterReady h gs with
         | .ok b => s!"(ok {if b then 1 else 0})"
         | .error s => s!"(err {identStr s.ident})"
        s!"{modelText} ## {specText}"
     | none => "(bad-arg)")
  | "fromstr", [.atom h] =>
    some (match hexToBytes h with
     | some b =>
        -- model ## the property's wording: true/false → boolean, a decimal 32-bit integer → integer, anything else → keyword
        let digits (ds : Bytes) : Option Int := if ds.isEmpty || !ds.all (fun c => 0x30 ≤ c && c ≤ 0x39) then none
          else some (ds.foldl (fun (a : Int) c => a * 10 + ((c.toNat - 0x30 : Nat) : Int)) 0)
        let num : Option Int := match b with
          | 0x2d :: r => (digits r).map (fun v => -v)
          | 0x2b :: r => digits r
          | _ => digits b
        let spec : Value :=
          if b == trueLit then .bool true else if b == falseLit then .bool false
          else match num with
            | some v => if -2147483648 ≤ v && v ≤ 2147483647 then .int .integer (UInt32.ofNat ((v % 4294967296).toNat)) else .str .keyword b
            | none => .str .keyword b
        s!"{showValue (valueFromStr b)} ## {showValue spec}"
     | none => "(bad-arg)")
  | "canon", [_, _, _, _, c] =>
    some (match readComponents c with
     | some u =>
        let raw := u.authority
        s!"R={bytesToHex (renderUri (canonUri u))} host={showOptHex (raw.map hostOf)} port={match raw.bind portOf with | some p => toString p | none => "-"}"
     | none => "(bad-arg)")
  | "canon", [_] => some "(invalid-uri)"
  | "canon", [_, _, _, _] => some "(invalid-uri)"
  | "transport", [_, _, c] =>
    some (match readComponents c with
     | some u => bytesToHex (transportUrl u)
     | none => "(bad-arg)")
  | "transport", [_, _] => some "(invalid-uri)"
  | "order", args =>
    -- `order <build args…> (adds …) [(c …)]`: the request of `build`, further adds, then the wire prefix
    (match args.partition (fun (a : SExp) => match a with | SExp.list (SExp.atom "adds" :: _) => true | _ => false) with
     | ([SExp.list (_ :: adds)], rest) =>
       let req : Option Request :=
         match rest with
         | [.atom "new_response", .atom v, .atom s, .atom i] =>
           (match hexToNat v, (hexToNat s).bind StatusCode.fromCode, hexToNat i with
            | some v, some st, some i => some (newResponse (UInt16.ofNat v) st (UInt32.ofNat i))
            | _, _, _ => none)
         | [.atom "new_request", .atom u, .atom v, .atom o, c] =>
           (match hexToNat v, (hexToNat o).bind Operation.fromCode, readComponents c with
            | some v, some op, some comps => some (newRequest (UInt16.ofNat v) op (if u == "~" then none else some comps))
            | _, _, _ => none)
         | [.atom k, .atom _, .atom j, .atom p, .list (.atom "calls" :: calls), c] =>
           (match opKindOf k, hexToNat j, hexToBytes p, calls.mapM readCall, readComponents c with
            | some k, some j, some p, some calls, some u => some (buildOp k u (UInt32.ofNat j) p calls)
            | _, _, _, _, _ => none)
         | _ => none
       let step (acc : Option (List Group)) (o : SExp) : Option (List Group) :=
         match acc, o with
         | some g, SExp.list [SExp.atom "op", SExp.atom t, SExp.atom n, v] =>
           (match (hexToNat t).bind DelimiterTag.fromCode, hexToBytes n, readValue v with
            | some t, some n, some v => some (addAttr t n v g)
            | _, _, _ => none)
         | _, _ => none
       (match req with
        | some r =>
          (match adds.foldl step (some r.groups) with
           | some gs =>
             let hdrAttrs := match firstOp gs with
               | some g => encHeaderAttrs g.attrs headerAttrs
               | none => []
             some (bytesToHex (encHeader r.header ++ (DelimiterTag.OperationAttributes.u8 :: hdrAttrs)))
           | none => some "(bad-arg)")
        | none => some "(bad-arg)")
     | _ => some "(bad-arg)")
  | "stream", [.atom kind, .atom cons, m, .list (.atom "pay" :: evs), .list (.atom "sizes" :: sizes)] =>
    some (match readMsg m, evs.mapM readEv, sizes.mapM (fun (a : SExp) => match a with | SExp.atom x => x.toNat? | _ => none) with
     | some (h, gs), some src, some ns =>
        let hdr := encodeMsg h gs
        let pay : Option Payload := if kind == "none" then some .empty else if kind == "sync" then some (.sync src)
                   else if kind == "async" then some (.async src) else none
        let c : Option Consumer := if cons == "read" then some .blocking else if cons == "aread" then some .async else none
        (match pay, c with
         | some pay, some c =>
           let (bs, e) := drain c 4096 (drainFuel hdr pay ns) ns ⟨hdr, false, pay⟩
           s!"{bytesToHex bs} {match e with | none => "end" | some k => "err " ++ ioKindName k}"
         | _, _ => "(bad-arg)")
     | _, _, _ => "(bad-arg)")
  | "json", [m] =>
    some (match readMsg m with
     | some (h, gs) =>
        let canon : List Group := gs.map Group.canon
        let j := msgToJson h canon
        let back := match jsonToMsg j with
          | some (h', gs') => if showMsg h' gs' == showMsg h canon then "rt=ok" else "rt=DIFF"
          | none => "rt=NONE"
        s!"{showJson j} {back}"
     | none => "(bad-arg)")
  | "costcheck", [.atom h] =>
    some (match hexToBytes h with
     | some b =>
        (match parseCost b with
         | .ok ((_, c), rest) => if c ≤ 8 * (b.length - rest.length) + 8 then "ok" else s!"BOUND-VIOLATED consumed={b.length - rest.length} cost={c}"
         | _ => "err")
     | none => "(bad-arg)")
  | "costcheckw", [w, .atom p] =>
    some (match readWMsg w, hexToBytes p with
     | some w, some pay =>
        let b := Spec.ser w ++ pay
        (match parseCost b with
         | .ok ((_, c), rest) => if c ≤ 8 * (b.length - rest.length) + 8 then "ok" else s!"BOUND-VIOLATED consumed={b.length - rest.length} cost={c}"
         | _ => "err")
     | _, _ => "(bad-arg)")
  | "send_many", [.atom _, .atom n] => some s!"own-response={n} of {n}"
  | "send", (.atom _ :: m :: .atom p :: rest) =>
    some (match readMsg m, hexToBytes p with
     | some (h, L), some payload =>
        let findL (name : String) : Option (List SExp) := rest.findSome? fun (e : SExp) => match e with
          | SExp.list (SExp.atom a :: xs) => if a == name then some xs else none
          | _ => none
        let calls : Option (List CfgCall × Option Nat) := (findL "cfg").bind fun xs =>
          xs.foldl (fun acc (e : SExp) => match acc, e with
            | some (cs, t), SExp.list [SExp.atom "h", SExp.atom k, SExp.atom v] =>
              (match hexToBytes k, hexToBytes v with | some k, some v => some (cs ++ [CfgCall.header k v], t) | _, _ => none)
            | some (cs, t), SExp.list [SExp.atom "auth", SExp.atom u, SExp.atom pw] =>
              (match hexToBytes u, hexToBytes pw with | some u, some pw => some (cs ++ [CfgCall.basicAuth u pw], t) | _, _ => none)
            | some (cs, _), SExp.list [SExp.atom "timeout", SExp.atom ms] => ms.toNat?.map fun t => (cs, some t)
            | _, _ => none) (some ([], none))
        let target := (findL "target").bind fun xs => match xs with | [SExp.atom t] => hexToBytes t | _ => none
        let reply : Option ServerReply := (findL "srv").bind fun xs => match xs with
          | SExp.atom st :: SExp.atom _ :: SExp.atom body :: opts =>
            (match st.toNat?, hexToBytes body with
             | some st, some body =>
               let cut := opts.findSome? fun (e : SExp) => match e with | SExp.list [SExp.atom "cut", SExp.atom n] => n.toNat? | _ => none
               let stall := opts.findSome? fun (e : SExp) => match e with
                 | SExp.list [SExp.atom "stall", SExp.atom n] => n.toNat?
                 | SExp.list [SExp.atom "takes", SExp.atom n] => n.toNat?     -- total time a trickling server needs
                 | _ => none
               some ⟨st, body, cut, stall⟩
             | _, _ => none)
          | _ => none
        -- harness applies http_header calls first, then basic_auth
        (match calls, target, reply with
         | some (cs, tmo), some tgt, some rep =>
           let ordered := (cs.filter fun c => match c with | .header .. => true | _ => false) ++ (cs.filter fun c => match c with | .basicAuth .. => true | _ => false)
           let reqs := wireRequest ordered tgt h L payload
           let reqText := match reqs with
             | [r] =>
               let auth := match sget authorizationLit r.headers with | some v => bytesToHex v | none => "~"
               let custom : List (Bytes × Bytes) := r.headers.filter fun (p : Bytes × Bytes) => p.1.take 2 == [0x78, 0x2d]
               s!"({identStr r.method} {bytesToHex r.target} ct={bytesToHex r.contentType} auth={auth} custom=({" ".intercalate (custom.map fun (p : Bytes × Bytes) => s!"({bytesToHex p.1} {bytesToHex p.2})")}) body={bytesToHex r.body} complete=1) n=1"
             | _ => s!"(none) n={reqs.length}"
           let respText := match sendResult tmo rep with
             | .ok (hh, gs) rest => s!"(ok {showMsg hh gs} rest={bytesToHex rest})"
             | .status c => s!"(err status {c})"
             | .other => "(err other)"
           -- what the property demands of the returned value, from the independent decoder of Spec/Unser.lean:
           -- an uncut, timely, non-error reply that is a well-formed RFC 8010 message is returned exactly
           let specResp : Option String :=
             if rep.status < 400 && rep.cutAt.isNone && !(timedOut tmo rep) then
               (match Spec.unser rep.body with
                | some (w, rest) =>
                  if Spec.wfWire w then some s!"(ok {showMsg (Spec.interp w).1 (Spec.interp w).2} rest={bytesToHex rest})" else none
                | none => none)
             else none
           match specResp with
           | some sr => s!"req={reqText} resp={respText} ## req={reqText} resp={sr}"
           | none => s!"req={reqText} resp={respText}"
         | _, _, _ => "(bad-arg)")
     | _, _ => "(bad-arg)")
  | "cli", [.list (.atom "args" :: as), .atom doc, .list (.atom "answers" :: ans), c] =>
    -- `cli (args (n 0|1) (j HEX)? (u HEX)? (o HEX)*) DOCHEX (answers (http)|MSG …) (c …)`
    some (match hexToBytes doc, readComponents c with
     | some document, some uri =>
        let flag (k : String) : Option Bytes := as.findSome? fun (e : SExp) => match e with
          | SExp.list [SExp.atom a, SExp.atom v] => if a == k then hexToBytes v else none
          | _ => none
        let opts : List Bytes := as.filterMap fun (e : SExp) => match e with
          | SExp.list [SExp.atom "o", SExp.atom v] => hexToBytes v
          | _ => none
        let noCheck := as.any fun (e : SExp) => match e with | SExp.list [SExp.atom "n", SExp.atom "1"] => true | _ => false
        let answers : Option (List Answer) := ans.mapM fun (e : SExp) => match e with
          | SExp.list [SExp.atom "http"] => some Answer.httpError
          | m => (readMsg m).map fun (h, gs) => Answer.response h (gs.map Group.canon)
        (match answers with
         | some answers =>
           let a : PrintArgs := ⟨uri, noCheck, flag "j", flag "u", opts, document⟩
           let (reqs, code) := cliPrint a answers
           s!"exit={code} reqs=({" ".intercalate (reqs.map fun r => "(" ++ showReq r ++ ")")})"
         | none => "(bad-arg)")
     | _, _ => "(bad-arg)")
  | "tlscase", .atom be :: .atom cl :: .atom ig :: .atom root :: .atom cert :: more =>
    some (
      let b : Option Backend := if be == "native-tls" then some .nativeTls else if be == "rustls" then some .rustls else none
      let c : Option ClientKind := if cl == "blocking" then some .blocking else if cl == "async" then some .async else none
      -- the setter calls in order: `unset`, `true`, `false`, or a word over t/f such as `tf`
      let i : Option IgnoreArg := if ig == "unset" then some [] else if ig == "false" then some [false] else if ig == "true" then some [true]
        else ig.toList.mapM (fun ch => if ch == 't' then some true else if ch == 'f' then some false else none)
      let r : Option RootArg := if root == "none" then some .none else if root == "pem" then some .correctPem else if root == "der" then some .correctDer
        else if root == "unrelated" then some .unrelated else if root == "decoyfirst" then some .decoyThenCorrect
        else if root == "decoylast" then some .correctThenDecoy else none
      let k : Option CertKind := if cert == "valid" then some .valid else if cert == "wrongname" then some .wrongName else if cert == "expired" then some .expired
        else if cert == "selfsigned" then some .selfSigned else if cert == "unknownca" then some .unknownCa else none
      -- optional: host kind, then the scheme the target is written with (ipps / https: the same TLS set-up)
      let h : Option HostKind := match more with
        | [] => some .dns
        | [.atom "dns"] => some .dns
        | [.atom "ip"] => some .ip
        | [.atom "dns", .atom sch] => if sch == "ipps" || sch == "https" then some .dns else none
        | [.atom "ip", .atom sch] => if sch == "ipps" || sch == "https" then some .ip else none
        | _ => none
      match b, c, i, r, k, h with
      | some b, some c, some i, some r, some k, some h =>
        let show_ (a : Bool) := if a then "accepted app=+" else "rejected app=0"
        -- model ## what the property demands (accept iff the latest setter call opted out, or valid certificate with the correct root)
        let should := i.getLast? == some true || (k == .valid && (r == .correctPem || r == .correctDer || r == .decoyThenCorrect || r == .correctThenDecoy))
        s!"{show_ (accepts c b i r k h)} ## {show_ should}"
      | _, _, _, _, _, _ => "(bad-arg)")
  | "thmunser", [w, .atom p] =>
    some (match readWMsg w, hexToBytes p with
     | some w, some pay =>
        if !Spec.wfWire w then "notwf" else
        (match Spec.unser (Spec.ser w ++ pay) with
         | some (w', rest) => if Spec.ser w' == Spec.ser w && rest == pay && w'.groups.length == w.groups.length &&
             (w'.groups.map fun g => g.attrs.map fun a => a.vals.length) == (w.groups.map fun g => g.attrs.map fun a => a.vals.length) then "eq" else "DIFF"
         | none => "NONE")
     | _, _ => "(bad-arg)")
  | "thm10", [.atom k, .atom _, .atom j, .atom p, .list (.atom "calls" :: calls), c] =>
    some (match opKindOf k, hexToNat j, hexToBytes p, calls.mapM readCall, readComponents c with
     | some k, some j, some p, some calls, some u =>
        let lhs := buildOp k u (UInt32.ofNat j) (if Spec.hasPayload k then p else []) calls
        let rhs := Spec.request k u (UInt32.ofNat j) p (Spec.summary calls)
        if showReq lhs == showReq rhs then "eq" else s!"DIFF {showReq lhs} VS {showReq rhs}"
     | _, _, _, _, _ => "(bad-arg)")
  | "build", [.atom "new_response", .atom v, .atom s, .atom i] =>
    some (match hexToNat v, (hexToNat s).bind StatusCode.fromCode, hexToNat i with
     | some v, some st, some i => showReq (newResponse (UInt16.ofNat v) st (UInt32.ofNat i))
     | _, _, _ => "(bad-arg)")
  | "build", [.atom "new_request", .atom u, .atom v, .atom o, c] =>
    some (match hexToNat v, (hexToNat o).bind Operation.fromCode, readComponents c with
     | some v, some op, some comps =>
        let uri := if u == "~" then none else some comps
        let specGroups : List Group := [⟨.OperationAttributes, sinsertAll
          ([(Spec.N.attributes_charset, Value.str .charset Spec.N.utf8), (Spec.N.attributes_natural_language, Value.str .naturalLanguage Spec.N.en)] ++
           (match uri with
            | some x => [(Spec.N.printer_uri, Value.str .uri (renderUri (canonUri x)))]
            | none => [])) []⟩]
        s!"{showReq (newRequest (UInt16.ofNat v) op uri)} ## {showMsg ⟨UInt16.ofNat v, UInt16.ofNat op.code, 1⟩ specGroups} payload=-"
     | _, _, _ => "(bad-arg)")
  | "build", [.atom k, .atom _, .atom j, .atom p, .list (.atom "calls" :: calls), c] =>
    some (match opKindOf k, hexToNat j, hexToBytes p, calls.mapM readCall, readComponents c with
     | some k, some j, some p, some calls, some u =>
        let payload := if k == .printJob || k == .sendDocument then p else []
        -- model ## declarative specification of the request the arguments describe (C10 oracle)
        s!"{showReq (buildOp k u (UInt32.ofNat j) payload calls)} ## {showReq (Spec.request k u (UInt32.ofNat j) p (Spec.summary calls))}"
     | _, _, _, _, _ => "(bad-arg)")
  | _, _ => none

end Ipp.Ops2
