import Driver.Text
import Driver.Families
import IppModel.Spec.ToWire
import Driver.Ops2
namespace Ipp.Ops
open Ipp Ipp.Gen Ipp.Text

def showParsed {ρ} (rest : ρ → String) : Outcome ((Header × List Group) × ρ) → String
  | .ok ((h, gs), r) => s!"(ok {showMsg h gs} rest={rest r})"
  | .err e => showErr e
  | .panic => "(panic)"
  | .outOfFuel => "(fuel)"

def statusName (c : Nat) : String :=
  match StatusCode.fromCode c with
  | some s => String.fromUTF8! (ByteArray.mk s.ident.toArray)
  | none => "none"

def enumLookup (name : String) (n : Nat) : String :=
  let f (tbl : List (Bytes × Nat)) : String :=
    match tbl.find? (fun p => p.2 == n) with
    | some p => String.fromUTF8! (ByteArray.mk p.1.toArray)
    | none => "none"
  match name with
  | "Operation" => f Operation.table
  | "PrinterState" => f PrinterState.table
  | "Orientation" => f Orientation.table
  | "PrintQuality" => f PrintQuality.table
  | "Finishings" => f Finishings.table
  | "JobState" => f JobState.table
  | "DelimiterTag" => f DelimiterTag.table
  | "ValueTag" => f ValueTag.table
  | "StatusCode" => f StatusCode.table
  | _ => "bad-enum"

def dispatch (op : String) (args : List SExp) : String :=
  match op, args with
  | "status", (.atom h :: _) =>
    -- optional further atoms (protocol version, request-id of the header): the decoding does not look at them
    (match hexToNat h with
     | some c => let s := statusOf c
                 s!"{String.fromUTF8! (ByteArray.mk s.ident.toArray)} {if isSuccess s then 1 else 0}"
     | none => "(bad-arg)")
  | "enum", [.atom name, .atom h] =>
    (match hexToNat h with
     | some c => enumLookup name c
     | none => "(bad-arg)")
  | "decode_value", [.atom t, .atom h] =>
    (match u8 t, hexToBytes h with
     | some t, some b => showOutcome showValue (decodeValue t b)
     | _, _ => "(bad-arg)")
  | "encode_value", [v] =>
    (match readValue v with
     | some v => s!"{natHex 2 (tagOf v).toNat} {bytesToHex (encValue v)}"
     | none => "(bad-arg)")
  | "encode_msg", [m] =>
    (match readMsg m with
     | some (h, gs) => bytesToHex (encodeMsg h gs)
     | none => "(bad-arg)")
  | "roundtrip", [m, .atom p] =>
    (match readMsg m, hexToBytes p with
     | some (h, gs), some pay =>
        let bytes := encodeMsg h gs
        s!"{bytesToHex bytes} {showParsed bytesToHex (parseFlat (bytes ++ pay))}"
     | _, _ => "(bad-arg)")
  | "encoded", [m, .atom b] =>
    (match readMsg m, hexToBytes b with
     | some (h, gs), some bytes =>
        let mine := encodeMsg h gs
        let modelPart := if mine == bytes then "match" else s!"(model-bytes {bytesToHex mine})"
        -- the content the bytes must carry: the message, with its first operation group in front (RFC 8011)
        let canon : List Group := Spec.opFirst (gs.map Group.canon)
        let specPart :=
          match Spec.unser bytes with
          | none => "(spec-fail not-rfc8010)"
          | some (w, rest) =>
            if !rest.isEmpty then "(spec-fail trailing-bytes)"
            else if !Spec.wfWire w then "(spec-fail not-well-formed)"
            else if Spec.ser w != bytes then "(spec-fail lengths-or-layout)"
            else if !Spec.namesUnique w then "(spec-fail duplicate-names)"
            else if showMsg (Spec.interp w).1 (Spec.interp w).2 != showMsg h canon then
              s!"(spec-fail content {showMsg (Spec.interp w).1 (Spec.interp w).2})"
            else "match"
        s!"{modelPart} ## {specPart}"
     | _, _ => "(bad-arg)")
  | "thm03", [m, .atom _] =>
    -- falsification test of the C03 theorem statements on concrete messages
    (match readMsg m with
     | some (h, L) =>
        let gs : List Group := L.map Group.canon
        let w := Spec.toWireMsg h L
        let a := if Spec.wfMsg gs then "wf" else "NOT-wfMsg"
        let b := if encodeMsg h L == Spec.ser w then "ser-eq" else "SER-DIFF"
        let c := if Spec.wfWire w then "wire-wf" else "WIRE-NOT-WF"
        let d := if showMsg (Spec.interp w).1 (Spec.interp w).2 == showMsg h gs then "interp-eq" else "INTERP-DIFF"
        s!"{a} {b} {c} {d}"
     | none => "(bad-arg)")
  | "wire", [w, .atom p] =>
    (match readWMsg w, hexToBytes p with
     | some w, some pay =>
        let bytes := Spec.ser w ++ pay
        let modelPart := showParsed bytesToHex (parseFlat bytes)
        let specPart := if Spec.wfWire w then s!"(ok {showMsg (Spec.interp w).1 (Spec.interp w).2} rest={bytesToHex pay})" else "-"
        s!"{modelPart} ## {specPart}"
     | _, _ => "(bad-arg)")
  | "bomb", [.atom kind, .atom n] =>
    -- the list-based model is quadratic on some families; above 4096 elements only the implementation
    -- side (and its oracles) runs, and run.py does not compare the line
    (match n.toNat? with
     | some k =>
       if k > 4096 then "(model-skipped)" else
       (match Families.family kind k with
        | some b => Families.summary (parseFlat b)
        | none => "(bad-arg)")
     | none => "(bad-arg)")
  | "cost", [.atom kind, .atom n] =>
    (match n.toNat? with
     | some k =>
       if k > 4096 then "(model-skipped)" else
       (match Families.family kind k with
        | some b => (match parseFlat b with
           | .ok (_, rest) => s!"consumed={b.length - rest.length}"
           | .err e => showErr e
           | .panic => "(panic)"
           | .outOfFuel => "(fuel)")
        | none => "(bad-arg)")
     | none => "(bad-arg)")
  | "parse", [.atom h] =>
    (match hexToBytes h with
     | some b => showParsed bytesToHex (parseFlat b)
     | none => "(bad-arg)")
  | "manyreq", [.atom _] => "all-positive"   -- the model's constructors always use request-id 1
  | "tagpos", [.atom _, .atom h] =>
    -- `tagpos OFFSET HEX`: like `parse`; the harness knows that the byte at OFFSET stands where a tag is expected
    (match hexToBytes h with
     | some b => showParsed bytesToHex (parseFlat b)
     | none => "(bad-arg)")
  | "parse_src", (.atom mode :: evs) =>
    (match evs.mapM readEv with
     | some src =>
        let showRest (s : Source) := bytesToHex (drainData s)
        if mode == "sync" then showParsed showRest (parseSync src)
        else if mode == "async" || mode == "async-deferred" then showParsed showRest (parseAsync src)
        else "(bad-arg)"
     | none => "(bad-arg)")
  | _, _ => (Ops2.dispatch2 op args).getD "(bad-op)"

end Ipp.Ops
