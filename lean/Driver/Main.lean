/-
  Line-protocol driver: one case per input line, one canonical result per output line.
  The harness runs the real implementation on the same lines and the two streams are diffed.
-/
import Driver.Text
import Driver.Ops
open Ipp Ipp.Text

partial def loop (h : IO.FS.Stream) (out : IO.FS.Stream) : IO Unit := do
  let line ← h.getLine
  if line.isEmpty then return ()
  let res := match parseSExps (tokenize line) with
    | .ok (.atom op :: args) => Ipp.Ops.dispatch op args
    | .ok [] => "(empty)"
    | .ok _ => "(bad-line)"
    | .error e => s!"(bad-line {e})"
  out.putStrLn res
  loop h out

def main : IO Unit := do
  let out ← IO.getStdout
  loop (← IO.getStdin) out
  out.flush
