/- Size-parameterised input families (mirror of harness/src/malformed.rs `family`). -/
import Driver.Text
namespace Ipp.Families
open Ipp Ipp.Text

def header : Bytes := [1, 1, 0, 2, 0, 0, 0, 1]

def tok (tag : UInt8) (name body : Bytes) : Bytes :=
  tag :: (be16 name.length ++ name ++ be16 body.length ++ body)

def rep (n : Nat) (b : Bytes) : Bytes := (List.replicate n b).flatten

def ascii (s : String) : Bytes := s.toUTF8.toList

def i32 (n : Nat) : Bytes := be32 (UInt32.ofNat n)

def family (kind : String) (n : Nat) : Option Bytes :=
  let body : Option Bytes :=
    match kind with
    | "depth" => some (tok 0x34 (ascii "c") [] ++ rep (n - 1) (tok 0x4a [] (ascii "m") ++ tok 0x34 [] []) ++
                       tok 0x4a [] (ascii "m") ++ tok 0x21 [] [0, 0, 0, 1] ++ rep n (tok 0x37 [] []))
    | "width" => some (tok 0x21 (ascii "a") [0, 0, 0, 0] ++ ((List.range n).map fun i => tok 0x21 [] (i32 i)).flatten)
    | "attrs" => some (((List.range n).map fun i => tok 0x21 (ascii s!"a{i}") [0, 0, 0, 1]).flatten)
    | "dupattrs" => some (rep n (tok 0x21 (ascii "a") [0, 0, 0, 1]))
    | "groups" => some ((List.range n).map fun i => (([1, 2, 4, 5] : List UInt8)[i % 4]!))
    | "members" => some (tok 0x34 (ascii "c") [] ++
                         ((List.range n).map fun i => tok 0x4a [] (ascii s!"m{i}") ++ tok 0x21 [] [0, 0, 0, 1]).flatten ++ tok 0x37 [] [])
    | "unclosed" => some (tok 0x34 (ascii "c") [] ++ rep (n - 1) (tok 0x34 [] []))
    | "ends" => some (tok 0x21 (ascii "a") [0, 0, 0, 1] ++ rep n (tok 0x37 [] []))
    | "bigvalues" => some (((List.range (max (n / 65535) 1)).map fun i => tok 0x41 (ascii s!"t{i}") (List.replicate 65535 0x61)).flatten)
    | "collset" => some (tok 0x34 (ascii "c") [] ++ tok 0x37 [] [] ++
                         rep n (tok 0x34 [] [] ++ tok 0x4a [] (ascii "m") ++ tok 0x22 [] [1] ++ tok 0x37 [] []))
    | "deepsets" => some (tok 0x34 (ascii "c") [] ++ rep (n - 1) (tok 0x4a [] (ascii "m") ++ tok 0x34 [] []) ++
                          tok 0x4a [] (ascii "m") ++ tok 0x21 [] [0, 0, 0, 1] ++ tok 0x21 [] [0, 0, 0, 2] ++
                          ((List.range n).map fun i => tok 0x37 [] [] ++ (if i + 1 < n then tok 0x21 [] [0, 0, 0, 3] else [])).flatten)
    | "widethenmany" => some (tok 0x21 (ascii "w") [0, 0, 0, 0] ++ ((List.range n).map fun i => tok 0x21 [] (i32 i)).flatten ++
                              ((List.range n).map fun i => tok 0x21 (ascii s!"a{i}") [0, 0, 0, 1]).flatten)
    | "widegroupthenmany" => some (((List.range n).map fun i => tok 0x21 (ascii s!"a{i}") [0, 0, 0, 1]).flatten ++
                                   ((List.range n).map fun i => (([2, 4, 5, 1] : List UInt8)[i % 4]!)))
    | "opengroups" => some (((List.range n).map fun i =>
                              (if i > 0 then [(([1, 2, 4, 5] : List UInt8)[i % 4]!)] else []) ++
                              tok 0x34 (ascii "c") [] ++ tok 0x4a [] (ascii "m") ++ tok 0x21 [] [0, 0, 0, 1]).flatten)
    | "longfirst" => some (tok 0x41 (ascii "t") (List.replicate 60000 0x61) ++ ((List.range n).map fun i => tok 0x21 [] (i32 i)).flatten)
    | "badnames" =>
        let l := min 16000 (max n 1)
        some (rep (max (n / l) 1) (tok 0x21 (List.replicate l 0xff) [0, 0, 0, 1]))
    | "badtext" =>
        let l := min 60000 (max n 1)
        some (((List.range (max (n / l) 1)).map fun i => tok 0x41 (ascii s!"t{i}") (List.replicate l 0xc3)).flatten)
    | _ => none
  body.map fun b => header ++ [1] ++ b ++ [3]

def summary : Outcome ((Header × List Group) × Bytes) → String
  | .ok ((_, gs), rest) =>
    let attrs := gs.foldl (fun n g => n + g.attrs.length) 0
    let d := gs.foldl (fun n g => max n (depthM g.attrs)) 0
    s!"(ok groups={gs.length} attrs={attrs} depth={d} rest={rest.length})"
  | .err e => showErr e
  | .panic => "(panic)"
  | .outOfFuel => "(fuel)"

end Ipp.Families
