#!/usr/bin/env python3
"""Validate a seeded mutant and run the checks against it.

  seedtest.py confirm <dir>            # <dir> holds patch.diff + demo.rs: in a scratch worktree, (a) build (b) suite green
                                       #   (c) demo fails with the patch (d) demo passes without it
  seedtest.py detect <dir> Cxx [Cyy…]  # apply patch.diff to /repo, run `run.py check` for each property, undo; prints verdicts
"""
import json
import os
import subprocess
import sys
import shutil

ENV = dict(os.environ, CARGO_NET_OFFLINE="true", RUSTFLAGS="--cfg ancwrd1_ipp_rs_verif --check-cfg cfg(ancwrd1_ipp_rs_verif)")


def sh(cmd, cwd=None, timeout=3600):
    return subprocess.run(cmd, cwd=cwd, env=ENV, shell=isinstance(cmd, str), capture_output=True, text=True, timeout=timeout)


def confirm(d):
    wt = "/tmp/confirm-" + os.path.basename(os.path.dirname(os.path.abspath(d))) + "-" + os.path.basename(os.path.abspath(d))
    sh(f"git -C /repo worktree remove --force {wt}")
    shutil.rmtree(wt, ignore_errors=True)
    r = sh(f"git -C /repo worktree add -q --detach {wt} HEAD")
    res = {}
    try:
        patch = os.path.join(os.path.abspath(d), "patch.diff")
        demo = os.path.join(os.path.abspath(d), "demo.rs")
        r = sh(f"git -C {wt} apply {patch}")
        res["applies"] = r.returncode == 0
        r = sh("cargo build --workspace --offline", cwd=wt)
        res["builds"] = r.returncode == 0
        r = sh("cargo test --workspace --no-fail-fast --offline", cwd=wt)
        res["suite_green"] = r.returncode == 0 and "32 passed" in r.stdout
        if os.path.exists(demo):
            # optional demo.json: {"dest": "util/tests/demo.rs", "cmd": "cargo test …", "pre": "shell command run in the worktree first"}
            dj = {}
            if os.path.exists(os.path.join(os.path.abspath(d), "demo.json")):
                dj = json.load(open(os.path.join(os.path.abspath(d), "demo.json")))
            dest = os.path.join(wt, dj.get("dest", "ipp/tests/demo.rs"))
            cmd = dj.get("cmd", "cargo test -p ipp --test demo --offline")
            os.makedirs(os.path.dirname(dest), exist_ok=True)
            shutil.copy(demo, dest)
            if dj.get("pre"):
                sh(dj["pre"], cwd=wt)
            r = sh(cmd, cwd=wt)
            res["demo_fails_with_mutant"] = r.returncode != 0 and ("test result: FAILED" in r.stdout or "panicked" in (r.stdout + r.stderr) or "overflowed its stack" in (r.stdout + r.stderr) or "(signal:" in (r.stdout + r.stderr))
            sh(f"git -C {wt} apply -R {patch}")
            r = sh(cmd, cwd=wt)
            res["demo_passes_without"] = r.returncode == 0
        else:
            res["demo"] = "no demo.rs (see notes.md)"
    finally:
        sh(f"git -C /repo worktree remove --force {wt}")
        shutil.rmtree(wt, ignore_errors=True)
    print(json.dumps(res))
    return res


def detect(d, props):
    patch = os.path.join(os.path.abspath(d), "patch.diff")
    st = sh("git -C /repo status --porcelain --untracked-files=no").stdout.strip()
    if st:
        print("refusing: /repo has local changes:", st)
        return 2
    out = {}
    r = sh(f"git -C /repo apply {patch}")
    if r.returncode != 0:
        print("patch does not apply:", r.stderr)
        return 2
    try:
        for p in props:
            r = sh([sys.executable, "/verif/run.py", "check", p, "--tier", "quick"], cwd="/verif", timeout=7200)
            lines = [l for l in r.stdout.splitlines() if l.startswith("VIOLATION") or l.startswith("KNOWN-FINDING") or l.startswith(p + " ")]
            out[p] = {"rc": r.returncode, "lines": [l[:300] for l in lines]}
            print(p, "rc=", r.returncode)
            for l in lines:
                print("   ", l[:300])
            # show the replay summary of the first violation
            for l in lines:
                if l.startswith("VIOLATION"):
                    path = l.split("replay=")[1].split()[0]
                    try:
                        rp = json.load(open(path))
                        print("    replay:", rp.get("kind"), "|", str(rp.get("what"))[:400])
                        if rp.get("case"):
                            print("    case:", rp["case"][:300])
                    except Exception as e:
                        print("    (replay unreadable)", e)
                    break
    finally:
        sh("git -C /repo checkout -- .")
        # evidence written while a mutant was applied is not evidence about the unchanged tree: restore the committed files
        sh("git -C /verif checkout -- evidence lean/IppModel/Generated/Source.lean")
    return 0


if __name__ == "__main__":
    if sys.argv[1] == "confirm":
        confirm(sys.argv[2])
    elif sys.argv[1] == "detect":
        sys.exit(detect(sys.argv[2], sys.argv[3:]))
